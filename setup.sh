#!/bin/bash
# Offline setup: verify the tools are present and the harness builds against /repo.
set -e
cd "$(dirname "$0")"
export GOFLAGS=-mod=mod GOPROXY=off GOSUMDB=off GOTOOLCHAIN=local
command -v tlc >/dev/null
command -v go1.26 >/dev/null
cp /repo/go.sum harness/go.sum 2>/dev/null || true
(cd harness && go1.26 build -tags verif -o /dev/null ./cmd/harness)
mkdir -p evidence replays
echo setup ok
