// probe: render templates given on the command line (dev tool).
// usage: probe [-n N] name=src ... -- entry jsonctx
package main

import (
	"encoding/json"
	"fmt"
	"os"
	"strings"

	"github.com/semihalev/twig"
)

func main() {
	e := twig.New()
	args := os.Args[1:]
	n := 1
	entry := ""
	ctxs := "{}"
	for i := 0; i < len(args); i++ {
		a := args[i]
		if a == "-n" {
			fmt.Sscan(args[i+1], &n)
			i++
			continue
		}
		if a == "--" {
			entry = args[i+1]
			if i+2 < len(args) {
				ctxs = args[i+2]
			}
			break
		}
		kv := strings.SplitN(a, "=", 2)
		if err := e.RegisterString(kv[0], kv[1]); err != nil {
			fmt.Printf("register %s: ERR %v\n", kv[0], err)
		}
		entry = kv[0]
	}
	var ctx map[string]interface{}
	if err := json.Unmarshal([]byte(ctxs), &ctx); err != nil {
		panic(err)
	}
	for i := 0; i < n; i++ {
		out, err := e.Render(entry, ctx)
		fmt.Printf("%q err=%v\n", out, err)
	}
}
