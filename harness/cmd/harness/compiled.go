package main

// C16: compile / serialise / deserialise / register / compiled loader, driven on
// real engines; field identity and "compiled renders like source".  With -obs the
// bytes written for small templates are recorded for Trace_C16.

import (
	"bufio"
	"bytes"
	"encoding/binary"
	"encoding/json"
	"fmt"
	"io"
	"os"
	"path/filepath"
	"strings"
	"time"

	"github.com/semihalev/twig"
)

type C16Case struct {
	Prop       string          `json:"prop"`
	Key        string          `json:"key"`
	Tags       []string        `json:"tags"`
	Name       []int           `json:"name"`
	Source     []Piece         `json:"source"`
	Helper     []Piece         `json:"helper"`
	HelperName []int           `json:"helpername"`
	Pads       []Pad           `json:"pads"`
	Lm         string          `json:"lm"`
	FileSafe   bool            `json:"filesafe"`
	Ctx        json.RawMessage `json:"ctx"`
	Expect     struct {
		Ok  bool   `json:"ok"`
		Out []int  `json:"out"`
		Err string `json:"err"`
	} `json:"expect"`
}

func octets(n int64) []int {
	var b [8]byte
	binary.LittleEndian.PutUint64(b[:], uint64(n))
	out := make([]int, 8)
	for i, x := range b {
		out[i] = int(x)
	}
	return out
}

func byteInts(b []byte) []int {
	out := make([]int, len(b))
	for i, x := range b {
		out[i] = int(x)
	}
	return out
}

var prevData []byte
var prevName, prevSrc string

func runCompiled(c *C16Case, rec *bufio.Writer, tmp string, idx int) (res Result) {
	res = Result{Prop: c.Prop, Key: c.Key, Tags: c.Tags, Pass: true, Runs: 1}
	name := textOf(c.Name, nil, false)
	src := sourceOf(c.Source, c.Pads)
	helper := sourceOf(c.Helper, nil)
	helperName := textOf(c.HelperName, nil, false)
	if helperName == "" {
		helperName = "t2"
	}
	res.Src = fmt.Sprintf("name=%q source=%s", name, short(src))
	fail := func(why, got, want string) {
		res.Pass = false
		res.Fails = append(res.Fails, Fail{Run: "compiled", Why: why, Got: short(got), Want: short(want), Src: res.Src})
	}
	defer func() {
		if p := recover(); p != nil {
			fail("panic", fmt.Sprint(p), "")
		}
	}()
	if idx%40 == 1 {
		compiledExtras(tmp, idx, fail)
	}
	ctx, _ := scopeOf(c.Ctx)
	want := textOf(c.Expect.Out, c.Pads, false)
	var lm int64
	switch c.Lm {
	case "minus1":
		lm = -1
	case "big":
		lm = 1 << 62
	case "now":
		lm = 1700000000
	}

	// A. field identity through Serialize / Deserialize with chosen timestamps
	ct := &twig.CompiledTemplate{Name: name, Source: src, LastModified: lm, CompileTime: 12345, AST: []byte{9, 0, 255}}
	data, err := twig.SerializeCompiledTemplate(ct)
	if err != nil {
		fail("serialize", err.Error(), "")
		return
	}
	dataCopy := append([]byte(nil), data...)
	back, err := twig.DeserializeCompiledTemplate(data)
	if err != nil {
		fail("deserialize", err.Error(), "")
		return
	}
	// the bytes handed out stay what they are when other templates are serialised afterwards
	for k := 0; k < 3; k++ {
		other := &twig.CompiledTemplate{Name: fmt.Sprintf("other%d", k), Source: strings.Repeat("zq", 40*(k+1)), LastModified: 7, CompileTime: 8, AST: []byte{1}}
		if _, err := twig.SerializeCompiledTemplate(other); err != nil {
			fail("serialize-other", err.Error(), "")
		}
	}
	if !bytes.Equal(data, dataCopy) {
		fail("earlier-bytes-changed", fmt.Sprintf("the %d bytes returned by SerializeCompiledTemplate changed after later Serialize calls", len(data)), "unchanged bytes")
	}
	if back.Name != name || back.Source != src || back.LastModified != lm || back.CompileTime != 12345 || string(back.AST) != string(ct.AST) {
		fail("fields", fmt.Sprintf("name=%q lm=%d ct=%d len(source)=%d ast=%v", back.Name, back.LastModified, back.CompileTime, len(back.Source), back.AST),
			fmt.Sprintf("name=%q lm=%d ct=12345 len(source)=%d", name, lm, len(src)))
	}
	if rec != nil && len(data) < 400 {
		b, _ := json.Marshal(map[string]interface{}{"name": byteInts([]byte(name)), "source": byteInts([]byte(src)), "lm": octets(lm),
			"ct": octets(12345), "ast": []int{9, 0, 255}, "bytes": byteInts(data)})
		rec.Write(b)
		rec.WriteByte('\n')
	}

	// B. compiled form registered on another engine renders like the source
	e1 := twig.New()
	if err := e1.RegisterString(helperName, helper); err != nil {
		fail("harness-helper", err.Error(), "")
		return
	}
	if err := e1.RegisterString(name, src); err != nil {
		fail("register-source", err.Error(), "")
		return
	}
	check := func(what, out string, err error) {
		if c.Expect.Ok {
			if err != nil {
				fail(what+"-error", err.Error(), want)
			} else if out != want {
				fail(what+"-output", out, want)
			}
		} else if err == nil {
			fail(what+"-missing-error", out, c.Expect.Err)
		}
	}
	out1, err1 := e1.Render(name, ctx)
	check("source", out1, err1)
	comp, err := e1.CompileTemplate(name)
	if err != nil {
		fail("compile", err.Error(), "")
		return
	}
	data2, err := twig.SerializeCompiledTemplate(comp)
	if err != nil {
		fail("serialize2", err.Error(), "")
		return
	}
	back2, err := twig.DeserializeCompiledTemplate(data2)
	if err != nil {
		fail("deserialize2", err.Error(), "")
		return
	}
	if back2.Name != name || back2.Source != src || back2.LastModified != comp.LastModified || back2.CompileTime != comp.CompileTime {
		fail("fields2", fmt.Sprintf("%q %d %d", back2.Name, back2.LastModified, back2.CompileTime), fmt.Sprintf("%q %d %d", name, comp.LastModified, comp.CompileTime))
	}
	e2 := twig.New()
	e2.SetAutoReload(true)
	e2.RegisterString(helperName, helper)
	if err := e2.RegisterCompiledTemplate(back2); err != nil {
		fail("register-compiled", err.Error(), "")
	} else {
		out2, err2 := e2.Render(name, ctx)
		check("compiled", out2, err2)
		out2b, err2b := e2.Render(name, ctx) // and again
		check("compiled-again", out2b, err2b)
	}
	e4 := twig.New()
	e4.RegisterString(helperName, helper)
	if err := e4.LoadFromCompiledData(data2); err != nil {
		fail("load-from-data", err.Error(), "")
	} else {
		out4, err4 := e4.Render(name, ctx)
		check("loaded-data", out4, err4)
	}

	// B2. the template is parsed without a name and registered as an object (ParseTemplate + RegisterTemplate): compiling the
	// name it was registered under gives a compiled form of that name, which another engine renders under that name
	e6 := twig.New()
	e6.RegisterString(helperName, helper)
	if t6, perr := e6.ParseTemplate(src); perr == nil {
		e6.RegisterTemplate(name, t6)
		if comp6, err := e6.CompileTemplate(name); err != nil {
			fail("compile-registered-object", err.Error(), "")
		} else if comp6.Name != name || comp6.Source != src {
			fail("compiled-object-fields", fmt.Sprintf("%q len=%d", comp6.Name, len(comp6.Source)), fmt.Sprintf("%q len=%d", name, len(src)))
		} else if data6, err := twig.SerializeCompiledTemplate(comp6); err != nil {
			fail("serialize-registered-object", err.Error(), "")
		} else {
			e7 := twig.New()
			e7.RegisterString(helperName, helper)
			if err := e7.LoadFromCompiledData(data6); err != nil {
				fail("load-registered-object", err.Error(), "")
			} else {
				out7, err7 := e7.Render(name, ctx)
				check("registered-object", out7, err7)
			}
		}
	}

	// D. compiling a name again after the template under it was replaced gives the compiled form of the new one,
	// whichever way it was replaced
	replSrc := "REPLACED" + src
	for _, how := range []string{"register-string", "register-compiled", "load-from-data", "register-template"} {
		e5 := twig.New()
		e5.RegisterString(helperName, helper)
		if err := e5.RegisterString(name, src); err != nil {
			break
		}
		if _, err := e5.CompileTemplate(name); err != nil {
			fail("compile-first", err.Error(), "")
			break
		}
		repl := &twig.CompiledTemplate{Name: name, Source: replSrc, LastModified: 1800000000, CompileTime: 1}
		var rerr error
		switch how {
		case "register-string":
			rerr = e5.RegisterString(name, replSrc)
		case "register-compiled":
			rerr = e5.RegisterCompiledTemplate(repl)
		case "load-from-data":
			var rd []byte
			if rd, rerr = twig.SerializeCompiledTemplate(repl); rerr == nil {
				rerr = e5.LoadFromCompiledData(rd)
			}
		case "register-template":
			var t5 *twig.Template
			if t5, rerr = e5.ParseTemplate(replSrc); rerr == nil {
				e5.RegisterTemplate(name, t5)
			}
		}
		if rerr != nil {
			continue // (a source that does not parse is not registered: nothing to compare)
		}
		comp5, err := e5.CompileTemplate(name)
		if err != nil {
			fail("compile-after-"+how, err.Error(), "")
		} else if comp5.Source != replSrc {
			fail("compile-stale-after-"+how, short(comp5.Source), short(replSrc))
		}
	}

	// E. two revisions of one name with the same time stamp and sources of the same length (they differ in one byte of
	// literal text): each compiled form renders like ITS source, on a fresh engine and on the engine that loaded the other
	// revision before -- whatever compiled templates this process has loaded earlier
	{
		revs := [2]string{"<A>" + src, "<B>" + src}
		var eShared *twig.Engine
		for k, rsrc := range revs {
			eS := twig.New()
			eS.RegisterString(helperName, helper)
			if err := eS.RegisterString(name, rsrc); err != nil {
				break // (a source that does not parse: nothing to compare)
			}
			outS, errS := eS.Render(name, ctx)
			rd, err := twig.SerializeCompiledTemplate(&twig.CompiledTemplate{Name: name, Source: rsrc, LastModified: lm, CompileTime: 1})
			if err != nil {
				fail("serialize-revision", err.Error(), "")
				break
			}
			eF := twig.New()
			eF.RegisterString(helperName, helper)
			if eShared == nil {
				eShared = twig.New()
				eShared.RegisterString(helperName, helper)
			}
			for what, e := range map[string]*twig.Engine{"fresh-engine": eF, "same-engine": eShared} {
				if err := e.LoadFromCompiledData(rd); err != nil {
					fail("load-revision", err.Error(), "")
					continue
				}
				outR, errR := e.Render(name, ctx)
				if (errR == nil) != (errS == nil) {
					fail(fmt.Sprintf("revision-%d-%s-error", k, what), fmt.Sprint(errR), fmt.Sprint(errS))
				} else if errS == nil && outR != outS {
					fail(fmt.Sprintf("revision-%d-%s-output", k, what), outR, outS)
				}
			}
		}
	}

	// the bytes handed out earlier must not change when something else is serialised later
	if prevData != nil {
		pb, err := twig.DeserializeCompiledTemplate(prevData)
		if err != nil {
			fail("earlier-bytes-corrupted", err.Error(), "")
		} else if pb.Name != prevName || pb.Source != prevSrc {
			fail("earlier-bytes-changed", fmt.Sprintf("%q len=%d", pb.Name, len(pb.Source)), fmt.Sprintf("%q len=%d", prevName, len(prevSrc)))
		}
	}
	prevData, prevName, prevSrc = data2, name, src

	// C. files written by the compiled loader are read back the same way
	if c.FileSafe {
		dir := filepath.Join(tmp, fmt.Sprintf("c%d", idx))
		defer os.RemoveAll(dir)
		cl := twig.NewCompiledLoader(dir)
		if err := cl.SaveCompiled(e1, name); err != nil {
			fail("save-compiled", err.Error(), "")
			return
		}
		if err := cl.SaveCompiled(e1, helperName); err != nil {
			fail("save-compiled-helper", err.Error(), "")
			return
		}
		// other templates saved into the same directory under similar names must not disturb this one
		for _, sib := range []string{name + ".twig", name + ".compiled", "x" + name, name + "2"} {
			if sib == helperName {
				continue
			}
			if err := e1.RegisterString(sib, "SIBLING "+sib+"{{ x }}"); err == nil {
				if err := cl.SaveCompiled(e1, sib); err != nil {
					fail("save-compiled-sibling", sib+": "+err.Error(), "")
				}
			}
		}
		// exactly one of the files written holds this template, with its fields intact
		files, _ := filepath.Glob(filepath.Join(dir, "*"))
		mine := 0
		for _, f := range files {
			raw, err := os.ReadFile(f)
			if err != nil {
				fail("read-file", err.Error(), "")
				continue
			}
			fb, err := twig.DeserializeCompiledTemplate(raw)
			if err != nil {
				fail("file-deserialize", filepath.Base(f)+": "+err.Error(), "")
				continue
			}
			if fb.Name == name {
				mine++
				if fb.Source != src {
					fail("file-fields", fmt.Sprintf("%q len=%d", fb.Name, len(fb.Source)), fmt.Sprintf("%q len=%d", name, len(src)))
				}
			}
		}
		if mine != 1 {
			fail("file-missing", fmt.Sprintf("%d files hold template %q after the saves", mine, name), "1")
		}
		// the same template object registered under a second key is saved and read back under that key
		alias := name + "-alias"
		aliasOK := false
		if tObj, err := e1.Load(name); err == nil {
			e1.RegisterTemplate(alias, tObj)
			if err := cl.SaveCompiled(e1, alias); err != nil {
				fail("save-compiled-alias", err.Error(), "")
			} else {
				aliasOK = true
			}
		}
		e3 := twig.New()
		e3.RegisterLoader(twig.NewCompiledLoader(dir))
		out3, err3 := e3.Render(name, ctx)
		check("compiled-loader", out3, err3)
		if aliasOK {
			out3a, err3a := e3.Render(alias, ctx)
			check("compiled-loader-alias", out3a, err3a)
		}
		// a handle that has been superseded in the engine still compiles to what the handle holds
		if hOld, err := e1.Load(name); err == nil {
			e8 := twig.New()
			e8.RegisterString(helperName, helper)
			if err := e8.RegisterString(name, src); err == nil {
				if h8, err := e8.Load(name); err == nil {
					e8.RegisterString(name, "SUPERSEDED"+src)
					if b8, err := h8.SaveCompiled(); err != nil {
						fail("handle-save-compiled", err.Error(), "")
					} else if c8, err := twig.DeserializeCompiledTemplate(b8); err != nil || c8.Source != src {
						fail("handle-compiles-something-else", fmt.Sprintf("%v", err), "the handle's own source")
					}
				}
			}
			_ = hOld
		}
		// saving again after the template changed must replace the file at once
		changed := "CHANGED" + src
		if err := e1.RegisterString(name, changed); err == nil {
			if err := cl.SaveCompiled(e1, name); err != nil {
				fail("save-compiled-again", err.Error(), "")
			} else if raw, err := os.ReadFile(filepath.Join(dir, name+".twig.compiled")); err == nil {
				if fb, err := twig.DeserializeCompiledTemplate(raw); err != nil || fb.Source != changed {
					fail("file-stale-after-resave", fmt.Sprintf("%v", err), "the changed source")
				}
			}
		}
		// ... also when the new source is shorter than the old one: the file holds the new template and nothing else
		shorter := "S"
		if err := e1.RegisterString(name, shorter); err == nil {
			if err := cl.SaveCompiled(e1, name); err != nil {
				fail("save-compiled-shorter", err.Error(), "")
			} else {
				e9 := twig.New()
				e9.RegisterLoader(twig.NewCompiledLoader(dir))
				if out9, err9 := e9.Render(name, ctx); err9 != nil || out9 != shorter {
					fail("file-after-shorter-resave", fmt.Sprintf("%q %v", out9, err9), shorter)
				}
			}
		}
	}
	return
}

// compiledExtras: scenarios that do not depend on the case at hand (made with the first case of every worker, then every 40th): a directory written by
// CompileAll is read back whole by LoadAll; one compiled object registered on two engines renders with each engine's own
// environment; compiling one template under two names gives two compiled forms that keep their names
func compiledExtras(tmp string, idx int, fail func(why, got, want string)) {
	// (names that end in letters of ".twig.compiled", a name that is a prefix of another)
	names := map[string]string{"page": "P{{ x }}", "layout": "L{{ x }}", "home": "H", "cart": "C1", "car": "C2", "t": "T", "index": "I"}
	e1 := twig.New()
	for n, src := range names {
		e1.RegisterString(n, src)
	}
	dir := filepath.Join(tmp, fmt.Sprintf("x%d", idx))
	defer os.RemoveAll(dir)
	cl := twig.NewCompiledLoader(dir)
	if err := cl.CompileAll(e1); err != nil {
		fail("compile-all", err.Error(), "")
		return
	}
	e2 := twig.New()
	cl2 := twig.NewCompiledLoader(dir)
	e2.RegisterLoader(cl2)
	if err := cl2.LoadAll(e2); err != nil {
		fail("load-all", err.Error(), "")
	}
	have := map[string]bool{}
	for _, n := range e2.GetCachedTemplateNames() {
		have[n] = true
	}
	for n, src := range names {
		if !have[n] {
			fail("load-all-missed", n, "every name CompileAll wrote")
		}
		want := strings.ReplaceAll(src, "{{ x }}", "7")
		if out, err := e2.Render(n, map[string]interface{}{"x": 7}); err != nil || out != want {
			fail("load-all-render", fmt.Sprintf("%s: %q %v", n, out, err), want)
		}
	}
	// one compiled object, two engines with their own globals and filters
	ea, eb := twig.New(), twig.New()
	ea.AddGlobal("gv", "A")
	eb.AddGlobal("gv", "B")
	ea.AddFilter("mark", func(v interface{}, args ...interface{}) (interface{}, error) { return "a:" + fmt.Sprint(v), nil })
	eb.AddFilter("mark", func(v interface{}, args ...interface{}) (interface{}, error) { return "b:" + fmt.Sprint(v), nil })
	comp := &twig.CompiledTemplate{Name: "shared", Source: "{{ gv }}|{{ 1|mark }}", LastModified: 1, CompileTime: 1}
	for _, x := range []struct {
		e    *twig.Engine
		want string
	}{{ea, "A|a:1"}, {eb, "B|b:1"}, {ea, "A|a:1"}} {
		if err := x.e.RegisterCompiledTemplate(comp); err != nil {
			fail("register-shared-compiled", err.Error(), "")
		} else if out, err := x.e.Render("shared", nil); err != nil || out != x.want {
			fail("shared-compiled-environment", fmt.Sprintf("%q %v", out, err), x.want)
		}
	}
	// one template object under two names, compiled under both before either is used
	e3 := twig.New()
	e3.RegisterString("orig", "O{{ x }}")
	if tObj, err := e3.Load("orig"); err == nil {
		e3.RegisterTemplate("alias", tObj)
		c1, err1 := e3.CompileTemplate("orig")
		c2, err2 := e3.CompileTemplate("alias")
		if err1 != nil || err2 != nil {
			fail("compile-two-names", fmt.Sprint(err1, err2), "")
		} else if c1.Name != "orig" || c2.Name != "alias" {
			fail("compiled-names", c1.Name+" / "+c2.Name, "orig / alias")
		} else {
			e4 := twig.New()
			e4.RegisterCompiledTemplate(c1)
			e4.RegisterCompiledTemplate(c2)
			for _, n := range []string{"orig", "alias"} {
				if out, err := e4.Render(n, map[string]interface{}{"x": 1}); err != nil || out != "O1" {
					fail("compiled-two-names-render", fmt.Sprintf("%s: %q %v", n, out, err), "O1")
				}
			}
		}
	}
}

func cmdCompiled(args []string) {
	var rec *bufio.Writer
	for i := 0; i < len(args); i++ {
		if args[i] == "-obs" && i+1 < len(args) {
			f, err := os.Create(args[i+1])
			if err != nil {
				fmt.Fprintln(os.Stderr, "harness:", err)
				os.Exit(2)
			}
			defer f.Close()
			rec = bufio.NewWriterSize(f, 1<<20)
			defer rec.Flush()
			i++
		}
	}
	tmp, err := os.MkdirTemp("", "verif-c16-")
	if err != nil {
		fmt.Fprintln(os.Stderr, "harness:", err)
		os.Exit(2)
	}
	defer os.RemoveAll(tmp)
	twig.SetDebugWriter(io.Discard)
	sc := stdinLines()
	w := bufio.NewWriterSize(os.Stdout, 1<<20)
	defer w.Flush()
	enc := json.NewEncoder(w)
	n := 0
	for {
		line, ok := readLine(sc)
		if !ok {
			break
		}
		var c C16Case
		if err := json.Unmarshal([]byte(line), &c); err != nil {
			fmt.Fprintln(os.Stderr, "harness: bad case:", err)
			os.Exit(2)
		}
		n++
		res, hung := guarded(20*time.Second, func() Result { return runCompiled(&c, rec, tmp, n) }, func() Result { return hangResult(c.Prop, c.Key, c.Tags, "compiled case") })
		enc.Encode(res)
		w.Flush()
		if hung {
			os.Exit(3)
		}
	}
}

func init() { commands["compiled"] = cmdCompiled }
