package main

import (
	"encoding/json"
	"errors"
	"fmt"
	"math"
	"reflect"
	"sort"
	"strconv"
	"strings"
	"sync"
	"time"
	"unicode/utf8"
)

// Text decodes the spec's text encoding: n >= 0 code point, n < 0 raw byte -n,
// n >= padBase pad token (index into pads).
const padBase = 2097152

type Pad struct {
	Len   int    `json:"len"`
	Style string `json:"style"` // "p" plain letters, "b" text with lone braces, "c" comment, "e" empty print tags
	// Total > 0: the pad is as long as needed for the template that contains it to be
	// exactly Total bytes (resolved by resolvePads before rendering)
	Total int `json:"total"`
}

func padText(p Pad, inSource bool) string {
	switch p.Style {
	case "c": // a comment: present in the source, absent from the output
		if !inSource {
			return ""
		}
		if p.Len < 4 {
			return "{##}"
		}
		return "{#" + strings.Repeat("c", p.Len-4) + "#}"
	case "d": // dashed print tags of the empty string surrounded by blanks: many tokens, trimmed to nothing
		if !inSource {
			return ""
		}
		return strings.Repeat("  {{- '' -}}  ", p.Len/14)
	case "e": // print tags that print nothing: many tokens, no output
		if !inSource {
			return ""
		}
		return strings.Repeat("{{''}}", p.Len/6)
	case "q": // comments whose bodies hold unpaired quotes and braces, text between them
		unit := "{# don't {touch #}Q{# 5\" pipe, it's } fine #}R"
		n := p.Len / len(unit)
		if !inSource {
			return strings.Repeat("QR", n)
		}
		return strings.Repeat(unit, n)
	case "i": // closed block constructs that render nothing: many bodies, no nesting
		unit := "{%if 0%}{%endif%}"
		if !inSource {
			return ""
		}
		return strings.Repeat(unit, p.Len/len(unit))
	case "b":
		unit := "A { B } C % D # E \\ F ' G \" H\n"
		var sb strings.Builder
		for sb.Len() < p.Len {
			sb.WriteString(unit)
		}
		return sb.String()[:p.Len]
	default:
		return strings.Repeat("P", p.Len)
	}
}

func textOf(cs []int, pads []Pad, inSource bool) string {
	var sb strings.Builder
	var buf [4]byte
	for _, c := range cs {
		switch {
		case c >= padBase:
			i := c - padBase
			if i < len(pads) {
				sb.WriteString(padText(pads[i], inSource))
			}
		case c < 0:
			sb.WriteByte(byte(-c))
		default:
			n := utf8.EncodeRune(buf[:], rune(c))
			sb.Write(buf[:n])
		}
	}
	return sb.String()
}

// Piece of template source: {"w": "..."} or {"c": [ints]}
type Piece struct {
	W *string `json:"w,omitempty"`
	C []int   `json:"c,omitempty"`
	// a source text with slots: every "%I" in Subst is replaced by the text With
	Subst *string `json:"subst,omitempty"`
	With  []int   `json:"with,omitempty"`
	// Rep > 0: "%I" stands for With repeated Rep times and "%J" for With2 repeated Rep times (deep nesting);
	// Seq > 0: the whole piece is written Seq times with "%N" replaced by 1, 2, ... (many distinct names)
	With2 []int   `json:"with2,omitempty"`
	WithA *string `json:"witha,omitempty"` // With / With2 given as plain strings
	WithB *string `json:"withb,omitempty"`
	Rep   int     `json:"rep,omitempty"`
	Seq   int     `json:"seq,omitempty"`
}

func sourceOf(ps []Piece, pads []Pad) string {
	var sb strings.Builder
	for _, p := range ps {
		if p.Subst != nil {
			w, w2 := textOf(p.With, nil, false), textOf(p.With2, nil, false)
			if p.WithA != nil {
				w = *p.WithA
			}
			if p.WithB != nil {
				w2 = *p.WithB
			}
			if p.Rep > 0 {
				w, w2 = strings.Repeat(w, p.Rep), strings.Repeat(w2, p.Rep)
			}
			t := strings.ReplaceAll(strings.ReplaceAll(*p.Subst, "%I", w), "%J", w2)
			if p.Seq > 0 {
				for n := 1; n <= p.Seq; n++ {
					sb.WriteString(strings.ReplaceAll(t, "%N", strconv.Itoa(n)))
				}
			} else {
				sb.WriteString(t)
			}
		} else if p.W != nil {
			sb.WriteString(*p.W)
		} else {
			sb.WriteString(textOf(p.C, pads, true))
		}
	}
	return sb.String()
}

// Value is the spec's tagged value record.
type Value struct {
	T    string  `json:"t"`
	B    bool    `json:"b,omitempty"`
	I    int     `json:"i,omitempty"`
	M    int     `json:"m,omitempty"`
	E    int     `json:"e,omitempty"`
	S    []int   `json:"s,omitempty"`
	Xs   []Value `json:"xs,omitempty"`
	Ks   []Value `json:"ks,omitempty"`
	Vs   []Value `json:"vs,omitempty"`
	G    string  `json:"g,omitempty"`
	Kind string  `json:"kind,omitempty"`
	U    *Value  `json:"u,omitempty"`   // t = "named": the underlying scalar of a defined / sized Go type
	Big  []int   `json:"big,omitempty"` // t = "int": the decimal digits (code points) of an integer beyond TLC's range
	// objects (C20)
	Shape string  `json:"shape,omitempty"`
	Ptr   bool    `json:"ptr,omitempty"`
	Fs    []Value `json:"fs,omitempty"`
}

// numOf: the number an int or dec value stands for
func numOf(x Value) float64 {
	if x.T == "dec" {
		f := float64(x.M)
		for i := 0; i < x.E; i++ {
			f /= 10
		}
		return f
	}
	return float64(x.I)
}

type rowsType []interface{}

type ptrKey struct{ N int }

type tagKey struct {
	N   int
	Tag interface{}
}

// embHolder embeds Base (attrhist.go) by pointer
type embHolder struct {
	*Base
	K int
}

type selfPtr *selfPtr
type hiddenMap struct {
	Name string
	m    map[float64]int
}

func keyString(v Value) string {
	switch v.T {
	case "str":
		return textOf(v.S, nil, false)
	case "int":
		return fmt.Sprint(v.I)
	}
	return fmt.Sprint(v)
}

// toGo builds the Go value the harness hands to the engine.
var reverseInsertion bool

type ptrHolder struct {
	P *int
	N int
}

// bigInt: an integer given by its digits; int where it fits, uint64 above that
func bigInt(digits []int) interface{} {
	txt := textOf(digits, nil, false)
	if n, err := strconv.ParseInt(txt, 10, 64); err == nil {
		return int(n)
	}
	if n, err := strconv.ParseUint(txt, 10, 64); err == nil {
		return n
	}
	panic("harness: bad big integer " + txt)
}

func toGo(v Value) interface{} {
	if v.T == "int" && len(v.Big) > 0 {
		return bigInt(v.Big)
	}
	switch v.T {
	case "shape":
		return shapeOfKind(v.Kind)
	case "privptr": // struct with unexported pointer-bearing fields: its text must not show an address
		n := v.I
		return privHolder{limit: &n, inner: struct{ p *int }{&n}, m: map[string]*int{"k": &n}, N: v.I}
	case "time":
		return time.Unix(int64(v.I), 0).UTC()
	case "ptrlist": // a list of pointers to structs: its text must not show addresses
		n := v.I
		return []*ptrHolder{{P: &n, N: v.I}, {P: &n, N: v.I + 1}}
	case "ptrstruct": // a struct with a pointer field: its text must not show the address
		n := v.I
		return ptrHolder{P: &n, N: v.I}
	case "ptrptr":
		n := v.I
		p := &n
		return &p
	case "func":
		return func() {}
	case "chan":
		return make(chan int)
	case "null":
		return nil
	case "errobj":
		return errObject{}
	case "nilptr":
		var p *int
		return p
	case "named":
		return namedScalar(v)
	case "bool":
		return v.B
	case "int":
		return v.I
	case "dec":
		f := float64(v.M)
		for i := 0; i < v.E; i++ {
			f /= 10
		}
		return f
	case "str":
		return textOf(v.S, nil, false)
	case "gostr":
		txt := textOf(v.S, nil, false)
		switch v.Kind {
		case "bytes":
			return []byte(txt)
		case "named":
			return namedString(txt)
		case "stringer":
			return stringerValue{txt}
		case "enum":
			return enumText(enumIndex(txt))
		case "uenum":
			return uenumText(enumIndex(txt))
		case "fenum":
			return fenumText(enumIndex(txt))
		case "err":
			return errors.New(txt)
		}
		return txt
	case "list":
		switch v.G {
		case "tags": // a named slice type
			out := make(tagsType, len(v.Xs))
			for i, x := range v.Xs {
				out[i] = textOf(x.S, nil, false)
			}
			return out
		case "u64s": // []uint64 (elements may be given by their digits)
			out := make([]uint64, len(v.Xs))
			for i, x := range v.Xs {
				switch n := toGo(x).(type) {
				case int:
					out[i] = uint64(n)
				case uint64:
					out[i] = n
				}
			}
			return out
		case "rows": // a named type over []interface{}
			out := make(rowsType, len(v.Xs))
			for i, x := range v.Xs {
				out[i] = toGo(x)
			}
			return out
		case "i64s":
			out := make([]int64, len(v.Xs))
			for i, x := range v.Xs {
				out[i] = int64(x.I)
			}
			return out
		case "f32s":
			out := make([]float32, len(v.Xs))
			for i, x := range v.Xs {
				out[i] = float32(numOf(x))
			}
			return out
		case "counters": // []Counter: struct values whose pointer-receiver method changes its receiver
			out := make([]Counter, len(v.Xs))
			for i, x := range v.Xs {
				out[i] = Counter{N: x.I, Tags: []string{"t"}}
			}
			return out
		case "counterptrs": // []*Counter
			out := make([]*Counter, len(v.Xs))
			for i, x := range v.Xs {
				out[i] = &Counter{N: x.I, Tags: []string{"t"}}
			}
			return out
		case "counterarr": // [2]Counter
			var out [2]Counter
			for i, x := range v.Xs {
				if i < 2 {
					out[i] = Counter{N: x.I}
				}
			}
			return out
		case "arrany": // a Go array of untyped values ([2]interface{} / [3]interface{} ...)
			t := reflect.ArrayOf(len(v.Xs), reflect.TypeOf((*interface{})(nil)).Elem())
			a := reflect.New(t).Elem()
			for i, x := range v.Xs {
				if g := toGo(x); g != nil {
					a.Index(i).Set(reflect.ValueOf(g))
				}
			}
			return a.Interface()
		case "embnils": // []*embHolder: pointers to structs whose embedded pointer is nil (elements: K)
			out := make([]*embHolder, len(v.Xs))
			for i, x := range v.Xs {
				out[i] = &embHolder{K: x.I}
			}
			return out
		case "f64nan": // []float64 with a NaN after the first element (and spare capacity)
			out := make([]float64, 0, len(v.Xs)+4)
			for i, x := range v.Xs {
				out = append(out, numOf(x))
				if i == 0 {
					out = append(out, math.NaN())
				}
			}
			return out
		case "f64s":
			out := make([]float64, len(v.Xs))
			for i, x := range v.Xs {
				out[i] = numOf(x)
			}
			return out
		case "strs":
			out := make([]string, len(v.Xs))
			for i, x := range v.Xs {
				out[i] = textOf(x.S, nil, false)
			}
			return out
		case "ints":
			out := make([]int, len(v.Xs))
			for i, x := range v.Xs {
				out[i] = x.I
			}
			return out
		case "arr3":
			var out [3]int
			for i, x := range v.Xs {
				if i < 3 {
					out[i] = x.I
				}
			}
			return out
		}
		if v.G == "anycap" || v.G == "intscap" {
			// spare capacity behind the visible elements: an append into the caller's backing array shows in the snapshot
			if v.G == "intscap" {
				out := make([]int, len(v.Xs), len(v.Xs)+3)
				for i, x := range v.Xs {
					out[i] = x.I
				}
				hidden := out[:cap(out)]
				for i := len(v.Xs); i < cap(out); i++ {
					hidden[i] = -777
				}
				return out
			}
			out := make([]interface{}, len(v.Xs), len(v.Xs)+3)
			for i, x := range v.Xs {
				out[i] = toGo(x)
			}
			hidden := out[:cap(out)]
			for i := len(v.Xs); i < cap(out); i++ {
				hidden[i] = "hidden"
			}
			return out
		}
		out := make([]interface{}, len(v.Xs))
		for i, x := range v.Xs {
			out[i] = toGo(x)
		}
		return out
	case "map":
		if v.G == "holder" || v.G == "holderp" {
			h := holder{M: map[string]int{}}
			for i, k := range v.Ks {
				switch keyString(k) {
				case "Items":
					if xs, ok := toGo(Value{T: "list", Xs: v.Vs[i].Xs, G: "intscap"}).([]int); ok {
						h.Items = xs
					}
				case "Names":
					if xs, ok := toGo(Value{T: "list", Xs: v.Vs[i].Xs, G: "strs"}).([]string); ok {
						h.Names = xs
					}
				}
			}
			if v.G == "holderp" {
				return &h
			}
			return h
		}
		switch v.G {
		case "mfsnan": // map[float64]string: the given keys plus two NaN keys
			out := map[float64]string{math.NaN(): "n", math.NaN(): "m"}
			for i, k := range v.Ks {
				out[float64(k.I)] = textOf(v.Vs[i].S, nil, false)
			}
			return out
		case "mptr": // map[*ptrKey]string: pointer keys (pointees may print alike)
			out := map[*ptrKey]string{}
			for i, k := range v.Ks {
				out[&ptrKey{N: k.I}] = textOf(v.Vs[i].S, nil, false)
			}
			return out
		case "mpint": // map[*int]string, the keys point into one array (laid out the other way round under "rev")
			arr := make([]int, len(v.Ks))
			out := map[*int]string{}
			for i, k := range v.Ks {
				j := i
				if reverseInsertion {
					j = len(v.Ks) - 1 - i
				}
				arr[j] = k.I
				out[&arr[j]] = textOf(v.Vs[i].S, nil, false)
			}
			return out
		case "mss":
			out := map[string]string{}
			for i, k := range v.Ks {
				out[keyString(k)] = textOf(v.Vs[i].S, nil, false)
			}
			return out
		case "msi":
			out := map[string]int{}
			for i, k := range v.Ks {
				out[keyString(k)] = v.Vs[i].I
			}
			return out
		case "mis":
			out := map[int]string{}
			for i, k := range v.Ks {
				out[k.I] = textOf(v.Vs[i].S, nil, false)
			}
			return out
		case "mi64big": // int64 keys above 2^53 that are close together
			out := map[int64]string{}
			for i, k := range v.Ks {
				out[1234567890123456700+int64(k.I)] = textOf(v.Vs[i].S, nil, false)
			}
			return out
		case "mii": // interface keys of the kinds given (int, string, decimal -> float64, named -> int64 ...)
			out := map[interface{}]interface{}{}
			idx := make([]int, len(v.Ks))
			for i := range idx {
				idx[i] = i
				if reverseInsertion {
					idx[i] = len(v.Ks) - 1 - i
				}
			}
			for _, i := range idx {
				out[toGo(v.Ks[i])] = toGo(v.Vs[i])
			}
			return out
		case "mia":
			out := map[int]interface{}{}
			for i, k := range v.Ks {
				out[k.I] = toGo(v.Vs[i])
			}
			return out
		}
		out := map[string]interface{}{}
		if reverseInsertion {
			for i := len(v.Ks) - 1; i >= 0; i-- {
				out[keyString(v.Ks[i])] = toGo(v.Vs[i])
			}
			return out
		}
		for i, k := range v.Ks {
			out[keyString(k)] = toGo(v.Vs[i])
		}
		return out
	case "obj":
		return buildObj(v)
	}
	return nil
}

// scopeOf decodes a TLA+ function name -> Value printed by ToJson (object; an
// empty function may be printed as an empty array).
func scopeOf(raw json.RawMessage) (map[string]interface{}, error) {
	out := map[string]interface{}{}
	s := strings.TrimSpace(string(raw))
	if s == "" || s == "[]" || s == "null" {
		return out, nil
	}
	var m map[string]Value
	if err := json.Unmarshal(raw, &m); err != nil {
		return nil, err
	}
	for k, v := range m {
		out[k] = toGo(v)
	}
	return out, nil
}

// countsOf decodes id -> count (object or empty array).
func countsOf(raw json.RawMessage) map[string]int {
	out := map[string]int{}
	s := strings.TrimSpace(string(raw))
	if s == "" || s == "[]" || s == "null" {
		return out
	}
	_ = json.Unmarshal(raw, &out)
	return out
}

// dump serialises the Go value a filter receives (harness-side observation of
// lists/maps/floats; never interprets Twig).
func dump(v interface{}) string {
	switch x := v.(type) {
	case nil:
		return "N"
	case bool:
		if x {
			return "T"
		}
		return "F"
	case int, int64, int32:
		return fmt.Sprintf("i%d", x)
	case float64:
		if x == float64(int64(x)) && x < 1e15 && x > -1e15 {
			return fmt.Sprintf("i%d", int64(x))
		}
		return fmt.Sprintf("f%v", x)
	case string:
		return fmt.Sprintf("s%d:%s", utf8.RuneCountInString(x), x)
	case []interface{}:
		parts := make([]string, len(x))
		for i, e := range x {
			parts[i] = dump(e)
		}
		return "[" + strings.Join(parts, ",") + "]"
	case []string:
		parts := make([]string, len(x))
		for i, e := range x {
			parts[i] = dump(e)
		}
		return "[" + strings.Join(parts, ",") + "]"
	case []int:
		parts := make([]string, len(x))
		for i, e := range x {
			parts[i] = dump(e)
		}
		return "[" + strings.Join(parts, ",") + "]"
	case map[string]interface{}:
		keys := make([]string, 0, len(x))
		for k := range x {
			keys = append(keys, k)
		}
		sort.Strings(keys)
		parts := make([]string, len(keys))
		for i, k := range keys {
			parts[i] = fmt.Sprintf("%s=%s", dump(k), dump(x[k]))
		}
		return "{" + strings.Join(parts, ",") + "}"
	}
	rv := reflect.ValueOf(v)
	switch rv.Kind() {
	case reflect.Slice, reflect.Array:
		parts := make([]string, rv.Len())
		for i := range parts {
			parts[i] = dump(rv.Index(i).Interface())
		}
		return "[" + strings.Join(parts, ",") + "]"
	case reflect.Map:
		type kv struct{ k, v string }
		var kvs []kv
		for _, k := range rv.MapKeys() {
			kvs = append(kvs, kv{dump(k.Interface()), dump(rv.MapIndex(k).Interface())})
		}
		sort.Slice(kvs, func(i, j int) bool { return kvs[i].k < kvs[j].k })
		parts := make([]string, len(kvs))
		for i, e := range kvs {
			parts[i] = e.k + "=" + e.v
		}
		return "{" + strings.Join(parts, ",") + "}"
	case reflect.Int, reflect.Int8, reflect.Int16, reflect.Int32, reflect.Int64:
		return fmt.Sprintf("i%d", rv.Int())
	case reflect.Uint, reflect.Uint8, reflect.Uint16, reflect.Uint32, reflect.Uint64:
		return fmt.Sprintf("i%d", rv.Uint())
	case reflect.Float32, reflect.Float64:
		return dump(rv.Float())
	case reflect.String:
		return dump(rv.String())
	}
	return fmt.Sprintf("?%T:%v", v, v)
}

func buildObj(v Value) interface{} { return nil }

// resolvePads fixes the length of pads given by Total: the template that contains
// pad i gets exactly Total bytes.
func resolvePads(tp map[string][]Piece, pads []Pad) []Pad {
	out := append([]Pad(nil), pads...)
	for i := range out {
		if out[i].Total <= 0 {
			continue
		}
		out[i].Len = 0
		for _, ps := range tp {
			has := false
			for _, p := range ps {
				for _, c := range p.C {
					if c == padBase+i {
						has = true
					}
				}
			}
			if has {
				base := len(sourceOf(ps, out))
				if out[i].Total > base {
					out[i].Len = out[i].Total - base
				}
			}
		}
	}
	return out
}

type namedString string

// errValue: an error type with a value receiver (a nil *errValue is a non-nil error interface)
type errValue struct{ s string }

func (e errValue) Error() string { return e.s }

// errObject: its method Name fails (a method of a Go value read as an attribute can fail the render)
type errObject struct{ X int }

func (errObject) Name() (string, error) { return "", errSentinel }

// S8: value-receiver method Name, pointer-receiver method Amend(string) that sorts before it
type S8 struct{ X int }

func (s S8) Name() string  { return "n" }
func (s *S8) Amend(string) {}

// defined and sized Go types with a scalar underlying type: the engine sees them only through reflection
type (
	flagT  bool
	levelT int
	ratioT float64
	labelT string
)

func namedScalar(v Value) interface{} {
	if v.U == nil {
		return nil
	}
	u := toGo(*v.U)
	switch x := u.(type) {
	case bool:
		return flagT(x)
	case int:
		switch v.Kind {
		case "i8":
			return int8(x)
		case "i64":
			return int64(x)
		case "u16":
			return uint16(x)
		case "u64":
			return uint64(x)
		case "f32":
			return float32(x)
		case "i32":
			return int32(x)
		case "u32":
			return uint32(x)
		case "uint":
			return uint(x)
		case "lvla":
			return levelA(x)
		case "lvlb":
			return levelB(x)
		}
		return levelT(x)
	case float64:
		if v.Kind == "f32" {
			return float32(x)
		}
		return ratioT(x)
	case string:
		return labelT(x)
	}
	return u
}

type stringerValue struct{ s string }

// enumText / uenumText / fenumText: numeric kinds whose String method gives the text (a Go enum with names); the
// value is the position of its text in enumTexts
type enumText int
type uenumText uint8
type fenumText float64

var (
	enumMu sync.Mutex
	// (position 0 is not used: a zero is "empty" for the default filter, the model's values are texts)
	enumTexts = []string{"\x00unused"}
)

func enumIndex(txt string) int {
	enumMu.Lock()
	defer enumMu.Unlock()
	for i, t := range enumTexts {
		if t == txt {
			return i
		}
	}
	enumTexts = append(enumTexts, txt)
	return len(enumTexts) - 1
}
func enumName(i int) string {
	enumMu.Lock()
	defer enumMu.Unlock()
	if i < 0 || i >= len(enumTexts) {
		return ""
	}
	return enumTexts[i]
}
func (e enumText) String() string  { return enumName(int(e)) }
func (e uenumText) String() string { return enumName(int(e)) }
func (e fenumText) String() string { return enumName(int(e)) }

func (v stringerValue) String() string { return v.s }

type holder struct {
	Items []int
	Names []string
	M     map[string]int
}

// snapshot serialises a value deeply, including the elements that lie between
// len and cap of every slice (an append into the caller's backing array is a
// modification of the caller's data).
func snapshot(v interface{}) string {
	var sb strings.Builder
	snap(&sb, reflect.ValueOf(v), 0)
	return sb.String()
}

func snap(sb *strings.Builder, v reflect.Value, depth int) {
	if !v.IsValid() || depth > 12 {
		sb.WriteString("nil")
		return
	}
	switch v.Kind() {
	case reflect.Interface, reflect.Ptr:
		if v.IsNil() {
			sb.WriteString("nil")
			return
		}
		sb.WriteString("&")
		snap(sb, v.Elem(), depth+1)
	case reflect.Slice:
		fmt.Fprintf(sb, "[len=%d cap=%d:", v.Len(), v.Cap())
		full := v
		if v.Cap() > v.Len() {
			full = v.Slice(0, v.Cap())
		}
		for i := 0; i < full.Len(); i++ {
			snap(sb, full.Index(i), depth+1)
			sb.WriteByte(',')
		}
		sb.WriteByte(']')
	case reflect.Array:
		sb.WriteByte('<')
		for i := 0; i < v.Len(); i++ {
			snap(sb, v.Index(i), depth+1)
			sb.WriteByte(',')
		}
		sb.WriteByte('>')
	case reflect.Map:
		keys := v.MapKeys()
		keyText := func(k reflect.Value) string {
			if k.Kind() == reflect.Interface && !k.IsNil() {
				return fmt.Sprint(k) + "/" + k.Elem().Type().String()
			}
			return fmt.Sprint(k)
		}
		sort.SliceStable(keys, func(i, j int) bool { return keyText(keys[i]) < keyText(keys[j]) })
		// (the map's own type and the dynamic type of every key: a map replaced by one of another kind is a change)
		fmt.Fprintf(sb, "%s{", v.Type())
		for _, k := range keys {
			if k.Kind() == reflect.Interface && !k.IsNil() {
				fmt.Fprintf(sb, "%s:", k.Elem().Type())
			}
			fmt.Fprintf(sb, "%v=", k)
			snap(sb, v.MapIndex(k), depth+1)
			sb.WriteByte(',')
		}
		sb.WriteByte('}')
	case reflect.Struct:
		sb.WriteByte('(')
		for i := 0; i < v.NumField(); i++ {
			snap(sb, v.Field(i), depth+1)
			sb.WriteByte(';')
		}
		sb.WriteByte(')')
	default:
		if !v.CanInterface() {
			// (an unexported field: its kind and value, read through reflection)
			fmt.Fprintf(sb, "%s:%v", v.Type(), v)
			return
		}
		fmt.Fprintf(sb, "%T:%v", v.Interface(), v.Interface())
	}
}

// shapeOfKind: Go values of every shape a context can hold (C05)
func shapeOfKind(kind string) interface{} {
	five := 5
	p5 := &five
	// generic kinds: "i:<decimal>" an int, "ch:<code>" a one-byte string, "s:<c1>,<c2>,.." a string of bytes
	if strings.HasPrefix(kind, "i:") {
		n, err := strconv.ParseInt(kind[2:], 10, 64)
		if err != nil {
			panic("harness: bad shape " + kind)
		}
		return int(n)
	}
	if strings.HasPrefix(kind, "ch:") || strings.HasPrefix(kind, "s:") {
		var b []byte
		for _, f := range strings.Split(kind[strings.Index(kind, ":")+1:], ",") {
			n, err := strconv.Atoi(f)
			if err != nil || n < 0 || n > 255 {
				panic("harness: bad shape " + kind)
			}
			b = append(b, byte(n))
		}
		return string(b)
	}
	switch kind {
	// values that contain themselves
	case "cyclist":
		xs := []interface{}{1, nil, "a"}
		xs[1] = xs
		return xs
	case "cycmap":
		m := map[string]interface{}{"a": 1}
		m["self"] = m
		return m
	case "cycptr":
		n := &cycNode{Name: "n"}
		n.Next = n
		n.Kids = []*cycNode{n}
		return n
	case "cycmutual":
		a := map[string]interface{}{"n": "a"}
		b := []interface{}{a}
		a["list"] = b
		return b
	case "errslice": // a slice of an interface type that has methods
		return []error{errors.New("e1"), nil}
	case "stringerslice":
		return []fmt.Stringer{stringerValue{"s"}, nil}
	case "ptrcycle": // a pointer that leads back to itself
		var x interface{}
		x = &x
		return x
	case "structslice": // comparable by type, not by value: an interface field that holds a slice
		return tagKey{N: 1, Tag: []int{1, 2}}
	case "arrslice":
		return [2]interface{}{1, []interface{}{2}}
	case "structmapv":
		return tagKey{N: 2, Tag: map[string]int{"a": 1}}
	case "structkeymap": // a map keyed by a struct type with an interface field
		return map[tagKey]string{{N: 1, Tag: "t"}: "a", {N: 2, Tag: 5}: "b"}
	case "intstrmap":
		return map[int]string{1: "a", 2: "b"}
	case "floatboolmap":
		return map[float64]bool{1.5: true, 2: false}
	case "intnilmap": // interface-typed values, one of them nil
		return map[int]interface{}{3: nil, 1: "z"}
	case "floaterrmap":
		return map[float64]error{2.5: nil, 1.5: errors.New("e")}
	case "intifacemap":
		return map[int]interface{}{1: 2, 4: "four"}
	case "rows2d": // typed lists whose elements are themselves lists, maps, structs with slices
		return [][]string{{"a", "b"}, {"c"}}
	case "grid2d":
		return [][]interface{}{{1, 2}, {3}}
	case "maps1d":
		return []map[string]int{{"a": 1}, {"b": 2}}
	case "structs1d":
		return []tagKey{{N: 1, Tag: []int{1}}, {N: 2, Tag: "t"}}
	case "arrs2d":
		return [2][]int{{1, 2}, {3}}
	case "nilifaceptr": // a pointer to an interface value that is nil
		var st fmt.Stringer
		return &st
	case "nilerrptr":
		var er error
		return &er
	case "zerotimeptr": // a pointer to the zero time (an unset *time.Time)
		return &time.Time{}
	case "zerotimeholder":
		return map[string]interface{}{"at": &time.Time{}, "n": 1}
	case "ptrself": // a defined pointer type that points at itself (no interface in between)
		var q selfPtr
		q = &q
		return q
	case "stringermap": // a map keyed by an interface type that has methods
		return map[fmt.Stringer]int{stringerValue{"a"}: 1}
	case "hiddennanmap": // a struct with an unexported map field that has a NaN key
		return hiddenMap{Name: "h", m: map[float64]int{math.NaN(): 1, 2: 3}}
	case "ptrptrmap":
		m := map[string]int{"a": 1}
		pm := &m
		return &pm
	case "namedptr": // a value of a defined pointer type: its method set is empty
		return namedS6Ptr(&S6{X: 7})
	case "nanmap": // NaN keys never equal themselves
		return map[float64]string{math.NaN(): "n", 1: "a", 2: "b", math.NaN(): "m"}
	case "nanifacemap":
		return map[interface{}]interface{}{math.NaN(): "n", "a": 1, float32(math.NaN()): 2}
	case "namedkeys": // keys of different defined types with the same value
		return map[interface{}]string{levelA(1): "a", levelB(1): "b", int8(1): "c"}
	case "dag60": // shared sub-values, sixty levels deep (no cycle)
		var level interface{} = "x"
		for i := 0; i < 60; i++ {
			level = []interface{}{level, level}
		}
		return level
	case "dagmap":
		var level interface{} = 1
		for i := 0; i < 40; i++ {
			level = map[string]interface{}{"l": level, "r": level}
		}
		return level
	case "strlong":
		return strings.Repeat("ab,", 200000)
	case "listlong":
		out := make([]interface{}, 200000)
		for i := range out {
			out[i] = i % 7
		}
		return out
	case "nil":
		return nil
	case "true":
		return true
	case "int0":
		return 0
	case "int5":
		return 5
	case "intneg":
		return -1
	case "float":
		return 2.5
	case "strempty":
		return ""
	case "str":
		return "a"
	case "strnum":
		return "12"
	case "listempty":
		return []interface{}{}
	case "listmixed":
		return []interface{}{1, "a", nil, []interface{}{2}}
	case "strs":
		return []string{"b", "a"}
	case "ints":
		return []int{3, 1}
	case "arr3":
		return [3]int{3, 1, 2}
	case "mapany":
		return map[string]interface{}{"a": 1, "b": nil, "c": map[string]interface{}{"d": []interface{}{}}}
	case "mss":
		return map[string]string{"a": "x"}
	case "mis":
		return map[int]string{1: "x", 2: "y"}
	case "msl":
		return map[string][]int{"a": {1, 2}}
	case "mapempty":
		return map[string]interface{}{}
	case "struct":
		return S1{X: 1, Y: "y"}
	case "ptrstruct":
		return &S1{X: 1, Y: "y"}
	case "nilptrstruct":
		var p *S1
		return p
	case "embedded":
		return S5{S3: S3{Z: 4, Base: Base{W: "w", X: 3}}, Q: 6}
	case "methods":
		return &S6{X: 7}
	case "biglist": // more than 50 elements, some of them not hashable
		out := make([]interface{}, 60)
		for i := range out {
			out[i] = i
		}
		out[3] = []interface{}{1}
		out[7] = map[string]interface{}{"k": 1}
		out[11] = nil
		out[13] = "5"
		return out
	case "bigints":
		out := make([]int, 70)
		for i := range out {
			out[i] = i
		}
		return out
	case "maxint":
		return math.MaxInt64
	case "minint":
		return math.MinInt64
	case "float0":
		return 0.0
	case "floatbig":
		return 1e300
	case "nan":
		return math.NaN()
	case "strregex":
		return "z-a"
	case "strbracket":
		return "[^"
	case "strbackslash":
		return "a\\"
	case "struni":
		return "\u023a\u0130\u212a"
	case "niltime":
		var t *time.Time
		return t
	case "nilstringer":
		var p *stringerValue
		return p
	case "nilerr":
		var p *errValue
		return p
	case "mapiface":
		return map[interface{}]interface{}{"a": 1, 2: "b", 2.5: nil}
	case "uintmap":
		return map[uint16]string{3: "c", 1: "a", 2: "b"}
	case "listoflists":
		return []interface{}{[]interface{}{1, 2}, []interface{}{}, map[string]interface{}{"a": []int{1}}}
	case "mixedrecv": // pointer to a struct whose pointer-only method (with a parameter) sorts before its value method
		return &S8{X: 3}
	case "ptrptr":
		return &p5
	case "nilslice":
		var xs []interface{}
		return xs
	case "nilmap":
		var m map[string]interface{}
		return m
	case "func":
		return func() {}
	case "chan":
		return make(chan int)
	case "time":
		return time.Unix(1136214245, 0).UTC()
	case "bytes":
		return []byte("<b>")
	case "err":
		return errors.New("boom")
	case "iface":
		var x interface{} = map[string]interface{}{"a": []string{"z"}}
		return &x
	case "uint8":
		return uint8(200)
	case "int64":
		return int64(1) << 40
	case "float32":
		return float32(1.5)
	case "nested":
		return map[string]interface{}{"a": map[string]interface{}{"b": map[string]interface{}{"c": []interface{}{map[string]interface{}{"d": 1}}}}}
	}
	return nil
}

type tagsType []string

// Counter: Next (pointer receiver) counts up in its receiver, Peek (value receiver) reads; a template works on the
// values it was given, never on the caller's elements
type Counter struct {
	N    int
	Tags []string
}

func (c *Counter) Next() int       { c.N++; return c.N }
func (c *Counter) Push() int       { c.Tags = append(c.Tags, "x"); return len(c.Tags) }
func (c Counter) Peek() int        { return c.N }
func (c *Counter) Reset() *Counter { c.N = 0; return c }

type namedS6Ptr *S6
type levelA int
type levelB int

type cycNode struct {
	Name string
	Next *cycNode
	Kids []*cycNode
}

type privHolder struct {
	limit *int
	inner struct{ p *int }
	m     map[string]*int
	N     int
}
