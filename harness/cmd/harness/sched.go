package main

// C02: replay of TLC-generated schedules through the engine's gate hooks.
//
// Each case is a complete behaviour of Concurrency.tla: the workload, and the
// sequence of (goroutine, gate) steps.  The goroutines run the real calls; the
// verif hook blocks each of them at every gate until the scheduler, following the
// TLC schedule, lets it pass.  Checked per case:
//   - every call's result equals the result the model computed for that schedule
//     (which is the serial result at the call's linearization point),
//   - the gates each goroutine passed are the steps the model says it takes
//     (the recorded execution is a behaviour of the specification).

import (
	"bufio"
	"encoding/json"
	"fmt"
	"io"
	"os"
	"path/filepath"
	"runtime"
	"strconv"
	"strings"
	"sync"
	"time"

	"github.com/semihalev/twig"
)

type SStep struct {
	G int    `json:"g"`
	S string `json:"s"`
}

type SCase struct {
	Prop     string   `json:"prop"`
	Key      string   `json:"key"`
	Tags     []string `json:"tags"`
	Workload string   `json:"workload"`
	NG       int      `json:"ng"`
	Steps    []SStep  `json:"steps"`
	Results  []int    `json:"results"` // model: version rendered by goroutine g (0: not a render)
}

func goid() int {
	var buf [64]byte
	n := runtime.Stack(buf[:], false)
	f := strings.Fields(string(buf[:n]))
	if len(f) >= 2 {
		id, _ := strconv.Atoi(f[1])
		return id
	}
	return -1
}

// memTsLoader: an in-memory loader with modification times (twig.TimestampAwareLoader)
type memTsLoader struct {
	mu  sync.Mutex
	src map[string]string
	mt  map[string]int64
}

func (l *memTsLoader) set(name, src string, mt int64) {
	l.mu.Lock()
	defer l.mu.Unlock()
	l.src[name], l.mt[name] = src, mt
}
func (l *memTsLoader) Load(name string) (string, error) {
	l.mu.Lock()
	defer l.mu.Unlock()
	if s, ok := l.src[name]; ok {
		return s, nil
	}
	return "", fmt.Errorf("%w: %s", twig.ErrTemplateNotFound, name)
}
func (l *memTsLoader) Exists(name string) bool {
	l.mu.Lock()
	defer l.mu.Unlock()
	_, ok := l.src[name]
	return ok
}
func (l *memTsLoader) GetModifiedTime(name string) (int64, error) {
	l.mu.Lock()
	defer l.mu.Unlock()
	if mt, ok := l.mt[name]; ok {
		return mt, nil
	}
	return 0, fmt.Errorf("%w: %s", twig.ErrTemplateNotFound, name)
}

type gateSched struct {
	mu      sync.Mutex
	ids     map[int]int // goroutine id -> index
	waiting map[int]chan struct{}
	at      map[int]string   // gate the goroutine is blocked at
	seen    map[int][]string // gates passed
	arrived chan int
}

func (s *gateSched) hook(point string) {
	s.mu.Lock()
	g, ok := s.ids[goid()]
	if !ok {
		s.mu.Unlock()
		return // not one of ours (serial phases)
	}
	ch := make(chan struct{})
	s.waiting[g] = ch
	s.at[g] = point
	s.mu.Unlock()
	s.arrived <- g
	<-ch
}

func runSchedule(c *SCase, dir string) (res Result) {
	res = Result{Prop: c.Prop, Key: c.Key, Tags: c.Tags, Pass: true, Runs: len(c.Steps)}
	var sb strings.Builder
	for _, st := range c.Steps {
		fmt.Fprintf(&sb, "%d:%s ", st.G, st.S)
	}
	res.Src = c.Workload + " | " + strings.TrimSpace(sb.String())
	fail := func(why, got, want string) {
		res.Pass = false
		res.Fails = append(res.Fails, Fail{Run: c.Workload, Why: why, Got: short(got), Want: short(want), Src: res.Src})
	}
	// workload
	e := twig.New()
	type call struct {
		do   func() (string, error)
		want map[int]string // model result version -> expected output
	}
	calls := make([]call, c.NG+1)
	switch c.Workload {
	case "cold":
		e.RegisterLoader(twig.NewArrayLoader(map[string]string{"same": "S1:{{ x }}|{% for i in [1, 2] %}{{ i }}{% endfor %}"}))
		for g := 1; g <= c.NG; g++ {
			g := g
			calls[g] = call{do: func() (string, error) { return e.Render("same", map[string]interface{}{"x": g}) },
				want: map[int]string{1: fmt.Sprintf("S1:%d|12", g)}}
		}
	case "dirs":
		fs := twig.NewFileSystemLoader([]string{dir})
		fs.SetSuffix("")
		e.RegisterLoader(fs)
		// the included parts are cached already: the model's dirs workload has one lookup gate for them
		e.Load("dirA/part.twig")
		e.Load("dirB/part.twig")
		for g := 1; g <= c.NG; g++ {
			g := g
			d := "B"
			if g%2 == 1 {
				d = "A"
			}
			calls[g] = call{do: func() (string, error) { return e.Render("dir"+d+"/main.twig", map[string]interface{}{"x": g}) },
				want: map[int]string{1: fmt.Sprintf("%s:part%s(%d):%d", d, d, g, g)}}
		}
	case "reload":
		// version 1 is cached from a timestamp-aware loader; the loader has held version 2 with a newer stamp since
		// before any of the calls, auto-reload is on: every call must see version 2
		ld := &memTsLoader{src: map[string]string{"same": "ver:1:{{ x }}"}, mt: map[string]int64{"same": 1}}
		e.RegisterLoader(ld)
		e.SetAutoReload(true)
		if out, err := e.Render("same", map[string]interface{}{"x": 0}); err != nil || out != "ver:1:0" {
			fail("harness: reload setup", fmt.Sprint(out, err), "ver:1:0")
			return
		}
		ld.set("same", "ver:2:{{ x }}", 2)
		for g := 1; g <= c.NG; g++ {
			g := g
			calls[g] = call{do: func() (string, error) { return e.Render("same", map[string]interface{}{"x": g}) },
				want: map[int]string{2: fmt.Sprintf("ver:2:%d", g)}}
		}
	case "regcold":
		// nothing is cached; the loader holds version 1; goroutine 1 registers version 2 while the others load
		// (the loader dates its template ahead of the wall clock -- a file server whose clock runs fast: stamps of loaders and of
		// registrations are not comparable with each other)
		e.RegisterLoader(&memTsLoader{src: map[string]string{"same": "ver:1:{{ x }}"}, mt: map[string]int64{"same": 4102444800}})
		calls[1] = call{do: func() (string, error) { return "", e.RegisterString("same", "ver:2:{{ x }}") }, want: map[int]string{0: ""}}
		for g := 2; g <= c.NG; g++ {
			g := g
			calls[g] = call{do: func() (string, error) { return e.Render("same", map[string]interface{}{"x": g}) },
				want: map[int]string{1: fmt.Sprintf("ver:1:%d", g), 2: fmt.Sprintf("ver:2:%d", g)}}
		}
	case "regrender":
		e.RegisterString("same", "ver:1:{{ x }}")
		calls[1] = call{do: func() (string, error) { return "", e.RegisterString("same", "ver:2:{{ x }}") }, want: map[int]string{0: ""}}
		for g := 2; g <= c.NG; g++ {
			g := g
			calls[g] = call{do: func() (string, error) { return e.Render("same", map[string]interface{}{"x": g}) },
				want: map[int]string{1: fmt.Sprintf("ver:1:%d", g), 2: fmt.Sprintf("ver:2:%d", g)}}
		}
	default:
		fail("harness: unknown workload", c.Workload, "")
		return
	}
	s := &gateSched{ids: map[int]int{}, waiting: map[int]chan struct{}{}, at: map[int]string{}, seen: map[int][]string{}, arrived: make(chan int, 64)}
	twig.VerifSetHook(s.hook)
	defer twig.VerifSetHook(nil)
	type outcome struct {
		g   int
		out string
		err error
	}
	finished := make(chan outcome, c.NG)
	registered := make(chan struct{}, c.NG)
	for g := 1; g <= c.NG; g++ {
		go func(g int) {
			s.mu.Lock()
			s.ids[goid()] = g
			s.mu.Unlock()
			registered <- struct{}{}
			var o outcome
			o.g = g
			func() {
				defer func() {
					if p := recover(); p != nil {
						o.err = fmt.Errorf("panic: %v", p)
					}
				}()
				o.out, o.err = calls[g].do()
			}()
			finished <- o
		}(g)
	}
	for g := 1; g <= c.NG; g++ {
		<-registered
	}
	// every goroutine is now either blocked at its first gate, running towards it, or finished
	state := map[int]string{} // "gate" | "done"
	outs := map[int]outcome{}
	waitFor := func(g int) bool { // until g is blocked at a gate or finished
		deadline := time.After(5 * time.Second)
		for state[g] == "" {
			select {
			case a := <-s.arrived:
				state[a] = "gate"
			case o := <-finished:
				state[o.g] = "done"
				outs[o.g] = o
			case <-deadline:
				return false
			}
		}
		return true
	}
	for i, st := range c.Steps {
		if !waitFor(st.G) {
			fail("stuck", fmt.Sprintf("goroutine %d did not reach a gate at step %d", st.G, i+1), "")
			return
		}
		if state[st.G] == "done" {
			fail("path-differs", fmt.Sprintf("step %d: model has goroutine %d at gate %s, the call has already returned (gates passed: %v)", i+1, st.G, st.S, s.seen[st.G]), "")
			break
		}
		s.mu.Lock()
		at := s.at[st.G]
		ch := s.waiting[st.G]
		s.seen[st.G] = append(s.seen[st.G], at)
		delete(s.waiting, st.G)
		s.mu.Unlock()
		if at != st.S {
			fail("path-differs", fmt.Sprintf("step %d: goroutine %d is at gate %s", i+1, st.G, at), st.S)
		}
		state[st.G] = ""
		close(ch)
		// the step is complete when the goroutine is at its next gate or has returned
		if !waitFor(st.G) {
			fail("stuck", fmt.Sprintf("goroutine %d did not finish step %d (%s)", st.G, i+1, st.S), "")
			return
		}
	}
	// let everything run to completion (after a failure the rest is released unconditionally)
	releaseBlocked := func(g int) {
		s.mu.Lock()
		ch := s.waiting[g]
		extra := s.at[g]
		delete(s.waiting, g)
		s.mu.Unlock()
		if res.Pass {
			fail("path-differs", fmt.Sprintf("goroutine %d reaches gate %s after the model's last step for it", g, extra), "")
		}
		if ch != nil {
			close(ch)
		}
	}
	for g, st := range state {
		if st == "gate" {
			state[g] = ""
			releaseBlocked(g)
		}
	}
	deadline := time.After(5 * time.Second)
	for len(outs) < c.NG {
		select {
		case a := <-s.arrived:
			releaseBlocked(a)
		case o := <-finished:
			outs[o.g] = o
		case <-deadline:
			fail("stuck", "calls did not return", "")
			return
		}
	}
	for g := 1; g <= c.NG; g++ {
		o := outs[g]
		mv := 0
		if g-1 < len(c.Results) {
			mv = c.Results[g-1]
		}
		want, ok := calls[g].want[mv]
		if !ok {
			fail("harness: no expectation", fmt.Sprint(mv), "")
			continue
		}
		if o.err != nil {
			fail("call-error", fmt.Sprintf("goroutine %d: %v", g, o.err), want)
		} else if o.out != want {
			fail("result-differs-from-serial", fmt.Sprintf("goroutine %d: %q", g, o.out), want)
		}
	}
	// the registration has completed: whatever the interleaving was, the name now means the registered source
	if c.Workload == "regcold" || c.Workload == "regrender" {
		twig.VerifSetHook(nil)
		if out, err := e.Render("same", map[string]interface{}{"x": "f"}); err != nil || out != "ver:2:f" {
			fail("registration-lost", fmt.Sprintf("a render after all calls returned gives %q, %v", out, err), "ver:2:f")
		}
	}
	return
}

func cmdSched(args []string) {
	twig.SetDebugWriter(io.Discard)
	dir, err := os.MkdirTemp("", "verif-c02s-")
	if err != nil {
		fmt.Fprintln(os.Stderr, "harness:", err)
		os.Exit(2)
	}
	defer os.RemoveAll(dir)
	for name, src := range map[string]string{
		"dirA/main.twig": "A:{% include './part.twig' %}:{{ x }}", "dirA/part.twig": "partA({{ x }})",
		"dirB/main.twig": "B:{% include './part.twig' %}:{{ x }}", "dirB/part.twig": "partB({{ x }})"} {
		p := filepath.Join(dir, name)
		os.MkdirAll(filepath.Dir(p), 0o755)
		os.WriteFile(p, []byte(src), 0o644)
	}
	sc := stdinLines()
	w := bufio.NewWriterSize(os.Stdout, 1<<20)
	defer w.Flush()
	enc := json.NewEncoder(w)
	for {
		line, ok := readLine(sc)
		if !ok {
			break
		}
		var c SCase
		if err := json.Unmarshal([]byte(line), &c); err != nil {
			fmt.Fprintln(os.Stderr, "harness: bad case:", err)
			os.Exit(2)
		}
		res := runSchedule(&c, dir)
		enc.Encode(res)
		w.Flush()
	}
}

func init() { commands["sched"] = cmdSched }
