package main

import (
	"bufio"
	"bytes"
	"crypto/sha1"
	"encoding/json"
	"errors"
	"fmt"
	"io"
	"os"
	"path/filepath"
	"reflect"
	"strconv"
	"strings"
	"sync/atomic"
	"time"
	"unicode/utf8"

	"github.com/semihalev/twig"
)

// ---- case schema (emitted by TLC through ToJson) -------------------------------

type Run struct {
	Label  string             `json:"label"`
	Tp     map[string][]Piece `json:"tp"`
	XCalls json.RawMessage    `json:"xcalls"`
	Entry  string             `json:"entry"`
	Pads   []Pad              `json:"pads"`
	// expectation override for this run (metamorphic families)
	Out *[]int `json:"out"`
	// Via = "compiled": every template reaches the engine as compiled bytes (parsed and compiled on another engine,
	// serialised, loaded with LoadFromCompiledData)
	Via string `json:"via"`
	// MayFail: the run may also end in an error (any); if it renders, the output is compared as usual
	MayFail bool `json:"mayfail"`
	// NoRel: the run takes no part in the "same" relation (its output is the expected one behind a pad)
	NoRel bool `json:"norel"`
	// Alt: another output this run may give (then it takes no part in the "same" relation)
	Alt *[]int `json:"alt"`
	// per-run engine options
	Debug  bool   `json:"debug"`
	Writer string `json:"writer"`
	// DisableSandbox: Engine.DisableSandbox() is called after the policy was installed
	DisableSandbox bool `json:"disablesandbox"`
	// Verbose: (with Debug) the process-wide debug level is the most talkative one
	Verbose bool `json:"verbose"`
	// per-run context (overrides the case's)
	Ctx json.RawMessage `json:"ctx"`
	// Repeat > 1: render that many times (fresh engine each) and require identical results
	Repeat int `json:"repeat"`
	// Rev: build context maps inserting the keys in reverse order
	Rev bool `json:"rev"`
	// Probe: after the render, the same engine must still render a fixed probe template correctly
	Probe bool `json:"probe"`
	// Decode: bytes handed to DeserializeCompiledTemplate / LoadFromCompiledData instead of rendering
	Decode []int `json:"decode"`
	// Shared > 0: render Shared times with the SAME context value; every render must give the
	// first one's result and the context (deep snapshot incl. slice capacity windows) must not change
	Shared int `json:"shared"`
	// Again > 0: after the render the same engine renders again that many times; outcome and spy counts must repeat
	Again int `json:"again"`
	// DenyFalse: this run's policy lists what it forbids with the value false
	DenyFalse bool `json:"denyfalse"`
	// Then: further renders on the SAME engine after its policy was replaced; each with its own expectation
	Then []Phase `json:"then"`
	// Foreign: other engines of the process (one made before, one after the engine under test) redefine these
	// filter and function names for themselves; the engine under test has nothing to do with them
	Foreign []string `json:"foreign"`
	// DefaultPolicy: the policy installed is NewDefaultSecurityPolicy() as it comes
	DefaultPolicy bool `json:"defaultpolicy"`
	// Rerender: after the render the SAME engine renders the entry template with this other context; the result must be
	// what a fresh engine gives for that context (a cached template keeps nothing of the values it was rendered with)
	Rerender json.RawMessage `json:"rerender"`
	// Late: the engine reloads what has changed (auto-reload, a loader that reports time stamps); after the first render the
	// loader starts failing for template Name (its Load and its time stamp query return the sentinel error) and the entry
	// template is rendered again, with this expectation
	Late *LatePhase `json:"late"`
}

type LatePhase struct {
	Name string `json:"name"`
	Ok   bool   `json:"ok"`
	Out  []int  `json:"out"`
	Err  string `json:"err"`
}

// lateLoader serves inner's templates with time stamp 1 until it is told to fail for one name
type lateLoader struct {
	inner  twig.Loader
	name   string
	active bool
}

func (l *lateLoader) Load(name string) (string, error) {
	if l.active && name == l.name {
		return "", errSentinel
	}
	return l.inner.Load(name)
}
func (l *lateLoader) Exists(name string) bool { return l.inner.Exists(name) }
func (l *lateLoader) GetModifiedTime(name string) (int64, error) {
	if l.active && name == l.name {
		return 0, errSentinel
	}
	if !l.inner.Exists(name) {
		return 0, fmt.Errorf("%w: %s", twig.ErrTemplateNotFound, name)
	}
	return 1, nil
}

// Phase: the engine's security policy is replaced (EnableSandbox, or the maps of the installed policy are
// edited in place when Edit is set) and the entry template is rendered again
type Phase struct {
	AllowF  []string        `json:"allowf"`
	AllowFn []string        `json:"allowfn"`
	Edit    bool            `json:"edit"`
	Ok      bool            `json:"ok"`
	Out     []int           `json:"out"`
	Err     string          `json:"err"`
	Calls   json.RawMessage `json:"calls"`
}

type Expect struct {
	Ok    bool            `json:"ok"`
	Out   []int           `json:"out"`
	Err   string          `json:"err"`
	Calls json.RawMessage `json:"calls"`
	// NoOut: do not compare output with Out (relation-only cases)
	NoOut bool `json:"noout"`
	// Always: spy counts that must hold whatever the outcome (e.g. a forbidden
	// callback was never invoked although the render failed)
	Always json.RawMessage `json:"always"`
	// AnyOutcome: success or failure are both fine (the case checks a relation between runs only)
	AnyOutcome bool `json:"anyoutcome"`
	// Absent: text that must not occur in the output (context data in a verbatim body)
	Absent []int `json:"absent"`
}

type Cfg struct {
	Sandbox        bool            `json:"sandbox"`        // engine has a security policy
	AllowF         []string        `json:"allowf"`         // filters the policy allows
	AllowFn        []string        `json:"allowfn"`        // functions the policy allows
	FaultID        string          `json:"faultid"`        // spy id whose nth invocation fails
	FaultNth       int             `json:"faultnth"`       //
	Loader         bool            `json:"loader"`         // serve templates through an ArrayLoader
	Debug          bool            `json:"debug"`          // engine debug mode
	Writer         string          `json:"writer"`         // "", "buffer", "plain"
	Missing        []string        `json:"missing"`        // (informational)
	FaultLoad      string          `json:"faultload"`      // template name whose Load fails with the sentinel
	FrontLoader    bool            `json:"frontloader"`    // an empty ArrayLoader is registered before the real one
	BackLoader     bool            `json:"backloader"`     // an empty ArrayLoader is registered after the real one
	ChainLoader    bool            `json:"chainloader"`    // the real loader sits in a ChainLoader between two empty ones
	SpyNames       []string        `json:"spynames"`       // further names under which the spy function is registered
	SpyFilterNames []string        `json:"spyfilternames"` // names under which the argument-less spy filter (id a1) is registered
	DenyFalse      bool            `json:"denyfalse"`      // policy maps carry explicit false entries for what is not allowed
	SelfPanic      bool            `json:"selfpanic"`      // binding self-test: the harness panics where the engine would, and must report it
	Globals        json.RawMessage `json:"globals"`        // name -> value, registered with Engine.AddGlobal (and not passed in the context)
	// DenyList: the policy is not an allow-list but "everything except": what AllowF / AllowFn do NOT list among the
	// names in Universe is forbidden, every other name (also names nobody registered) is allowed
	// FSLoader: the templates are files below a scratch directory, served by a FileSystemLoader; the FaultLoad name is
	// a directory there (reading it fails)
	FSLoader bool     `json:"fsloader"`
	DenyList bool     `json:"denylist"`
	Universe []string `json:"universe"`
	// ForeignTp: these templates are parsed by ANOTHER engine (same callbacks, no policy) and handed to the engine under
	// test with RegisterTemplate (a shared layout)
	ForeignTp []string `json:"foreigntp"`
}

// denyPolicy: a SecurityPolicy that forbids a fixed set of names and allows everything else
type denyPolicy struct{ fn, f map[string]bool }

func (p *denyPolicy) IsFunctionAllowed(name string) bool { return !p.fn[name] }
func (p *denyPolicy) IsFilterAllowed(name string) bool   { return !p.f[name] }
func (p *denyPolicy) IsTagAllowed(string) bool           { return true }

func makeDenyPolicy(c Cfg) twig.SecurityPolicy {
	p := &denyPolicy{fn: map[string]bool{}, f: map[string]bool{}}
	allowed := map[string]bool{}
	for _, n := range c.AllowF {
		allowed["f:"+n] = true
	}
	for _, n := range c.AllowFn {
		allowed["fn:"+n] = true
	}
	for _, n := range c.Universe {
		if !allowed["f:"+n] {
			p.f[n] = true
		}
		if !allowed["fn:"+n] {
			p.fn[n] = true
		}
	}
	return p
}

// path-like template names of the specification (TwigSem NT: pm |-> "p/m" ...): the key used in the
// model's template table stands for the text the engine knows the template by
var pathNames = map[string]string{"pqx": "p/q/x", "pn1": "p/n1", "pm": "p/m", "pb": "p/b", "ph": "p/h", "sh": "s/h", "sb": "s/b", "sm": "s/m", "phq": "p/hq", "shq": "s/hq"}

func engineName(key string) string {
	if n, ok := pathNames[key]; ok {
		return n
	}
	return key
}

type Case struct {
	Prop   string          `json:"prop"`
	Key    string          `json:"key"`
	Tags   []string        `json:"tags"`
	Entry  string          `json:"entry"`
	Ctx    json.RawMessage `json:"ctx"`
	Runs   []Run           `json:"runs"`
	Expect Expect          `json:"expect"`
	Cfg    Cfg             `json:"cfg"`
	Rel    string          `json:"rel"` // "" | "same": all runs must agree with each other
	Aux    json.RawMessage `json:"aux"` // copied into every observation record (for TLC trace validation)
}

// Observation: what the implementation did for one run of one case; validated by
// a TLC trace spec (code -> spec direction).
type Observation struct {
	Prop   string          `json:"prop"`
	Label  string          `json:"label"`
	Ok     bool            `json:"ok"`
	Out    []int           `json:"out"`
	Kind   string          `json:"kind"`
	Counts map[string]int  `json:"counts"`
	Aux    json.RawMessage `json:"aux"`
}

var obsWriter *bufio.Writer

// defaultAgain (-again N): every run without a setting of its own is rendered N more times on the same engine
var defaultAgain int

// codePoints converts output bytes to the spec's text encoding
func codePoints(s string) []int {
	out := make([]int, 0, len(s))
	for i := 0; i < len(s); {
		r, n := utf8.DecodeRuneInString(s[i:])
		if r == utf8.RuneError && n <= 1 {
			out = append(out, -int(s[i]))
			i++
			continue
		}
		out = append(out, int(r))
		i += n
	}
	return out
}

func recordObs(c *Case, r *Run, o *obs) {
	if obsWriter == nil {
		return
	}
	aux := c.Aux
	if len(aux) == 0 {
		aux = json.RawMessage("{}")
	}
	rec := Observation{Prop: c.Prop, Label: r.Label, Ok: o.ok, Out: codePoints(o.out), Kind: o.kind, Counts: o.counts, Aux: aux}
	if rec.Counts == nil {
		rec.Counts = map[string]int{}
	}
	b, _ := json.Marshal(rec)
	obsWriter.Write(b)
	obsWriter.WriteByte('\n')
}

type Fail struct {
	Run  string `json:"run"`
	Why  string `json:"why"`
	Got  string `json:"got,omitempty"`
	Want string `json:"want,omitempty"`
	Src  string `json:"src,omitempty"`
}

type Result struct {
	Prop  string   `json:"prop"`
	Key   string   `json:"key"`
	Tags  []string `json:"tags"`
	Pass  bool     `json:"pass"`
	Runs  int      `json:"runs"`
	Fails []Fail   `json:"fails,omitempty"`
	Src   string   `json:"src,omitempty"` // first run's entry source, for humans
	// Digest of every run's outcome, for comparison of the same case across processes
	Digest string `json:"digest,omitempty"`
}

var errSentinel = errors.New("verif: injected fault")

// ---- one render of one run on a fresh engine -----------------------------------

type obs struct {
	ok     bool
	out    string
	kind   string // "", fault, security, notfound, other, panic, hang, parse
	errMsg string
	counts map[string]int
}

type spyState struct {
	counts   map[string]*int64
	faultID  string
	faultNth int
}

func (s *spyState) hit(id string) error {
	p, ok := s.counts[id]
	if !ok {
		var z int64
		p = &z
		s.counts[id] = p
	}
	n := atomic.AddInt64(p, 1)
	if id == s.faultID && int(n) == s.faultNth {
		return errSentinel
	}
	return nil
}

func idOf(v interface{}) string {
	return fmt.Sprint(v)
}

// registerSpies adds the harness callbacks:
//
//	sp('id', v) / spx('id', v)   function: counts id, returns v
//	v|sf('id') / v|sfx('id')     filter: counts id, returns v
//	v is st('id') / stx          test: counts id, returns truthiness flag passed as 2nd arg (default true)
//	v|vdump                      filter: serialises the Go value it receives
func spyFunction(st *spyState) func(args ...interface{}) (interface{}, error) {
	return func(args ...interface{}) (interface{}, error) {
		if len(args) < 1 {
			return nil, nil
		}
		if err := st.hit(idOf(args[0])); err != nil {
			return nil, err
		}
		if len(args) > 1 {
			return args[1], nil
		}
		return nil, nil
	}
}

func registerSpies(e *twig.Engine, st *spyState) {
	for _, name := range []string{"sp", "spx"} {
		e.AddFunction(name, spyFunction(st))
	}
	for _, name := range []string{"sf", "sfx"} {
		e.AddFilter(name, func(v interface{}, args ...interface{}) (interface{}, error) {
			if len(args) < 1 {
				return v, nil
			}
			if err := st.hit(idOf(args[0])); err != nil {
				return nil, err
			}
			return v, nil
		})
	}
	for _, name := range []string{"st", "stx"} {
		e.AddTest(name, func(v interface{}, args ...interface{}) (bool, error) {
			if len(args) < 1 {
				return true, nil
			}
			if err := st.hit(idOf(args[0])); err != nil {
				return false, err
			}
			if len(args) > 1 {
				b, _ := args[1].(bool)
				return b, nil
			}
			return true, nil
		})
	}
	for name, id := range map[string]string{"sfz": "f1", "sfa": "a1"} {
		id := id
		e.AddFilter(name, func(v interface{}, args ...interface{}) (interface{}, error) {
			if err := st.hit(id); err != nil {
				return nil, err
			}
			return v, nil
		})
	}
	e.AddFilter("vdump", func(v interface{}, args ...interface{}) (interface{}, error) {
		return dump(v), nil
	})
}

type policy struct {
	*twig.DefaultSecurityPolicy
}

func makePolicy(c Cfg) twig.SecurityPolicy {
	p := twig.NewDefaultSecurityPolicy()
	p.AllowedFilters = map[string]bool{}
	p.AllowedFunctions = map[string]bool{}
	for _, f := range c.AllowF {
		p.AllowedFilters[f] = true
	}
	for _, f := range c.AllowFn {
		p.AllowedFunctions[f] = true
	}
	if c.DenyFalse {
		// the names the policy does not allow are listed with the value false instead of being absent
		for _, f := range []string{"sf", "sfx", "sfz", "sfa", "upper", "default", "sort", "reverse", "spaceless"} {
			if !p.AllowedFilters[f] {
				p.AllowedFilters[f] = false
			}
		}
		for _, f := range []string{"sp", "spx", "range", "max", "mm", "mw", "parent"} {
			if !p.AllowedFunctions[f] {
				p.AllowedFunctions[f] = false
			}
		}
	}
	return p
}

type faultLoader struct {
	inner twig.Loader
	name  string
}

func (l *faultLoader) Load(name string) (string, error) {
	if name == l.name {
		return "", errSentinel
	}
	return l.inner.Load(name)
}
func (l *faultLoader) Exists(name string) bool { return l.inner.Exists(name) }

type plainWriter struct{ buf bytes.Buffer }

func (w *plainWriter) Write(p []byte) (int, error) { return w.buf.Write(p) }

func classify(err error) string {
	if err == nil {
		return ""
	}
	var sv *twig.SecurityViolation
	switch {
	case errors.Is(err, errSentinel):
		return "fault"
	case errors.As(err, &sv):
		return "security"
	case errors.Is(err, twig.ErrTemplateNotFound):
		return "notfound"
	}
	return "other"
}

func renderRun(c *Case, r *Run, ctx map[string]interface{}) (o obs) {
	poolCaller(ctx)
	st := &spyState{counts: map[string]*int64{}, faultID: c.Cfg.FaultID, faultNth: c.Cfg.FaultNth}
	o.counts = map[string]int{}
	defer func() {
		if p := recover(); p != nil {
			o.ok = false
			o.kind = "panic"
			o.errMsg = fmt.Sprint(p)
		}
		for k, v := range st.counts {
			o.counts[k] = int(atomic.LoadInt64(v))
		}
	}()
	foreign := func() {
		if len(r.Foreign) == 0 {
			return
		}
		fe := twig.New()
		for _, name := range r.Foreign {
			fe.AddFilter(name, func(v interface{}, args ...interface{}) (interface{}, error) { return "foreign", nil })
			fe.AddFunction(name, func(args ...interface{}) (interface{}, error) { return "foreign", nil })
		}
		if r.DefaultPolicy {
			// the other engine takes the policy the library provides and opens it up for its own names, in place (as the
			// documentation shows): that is its policy, not everybody's
			p := twig.NewDefaultSecurityPolicy()
			for _, name := range r.Foreign {
				p.AllowedFilters[name] = true
				p.AllowedFunctions[name] = true
			}
			fe.EnableSandbox(p)
		} else {
			fe.EnableSandbox(makePolicy(Cfg{}))
		}
		// (the other engine renders with its filters, also below an include: what it leaves in pooled objects is its own)
		fe.RegisterString("foreigninc", "{% for n in [1] %}{{ 'x'|"+r.Foreign[0]+" }}{% endfor %}")
		fe.RegisterString("foreign", "{{ 1 }}{{ 'y'|"+r.Foreign[0]+" }}{% include 'foreigninc' %}")
		fe.Render("foreign", nil)
	}
	foreign()
	e := twig.New()
	if c.Cfg.SelfPanic {
		panic("verif self-test panic")
	}
	registerSpies(e, st)
	for _, name := range c.Cfg.SpyNames {
		e.AddFunction(name, spyFunction(st))
	}
	for _, name := range c.Cfg.SpyFilterNames {
		e.AddFilter(name, func(v interface{}, args ...interface{}) (interface{}, error) {
			if err := st.hit("a1"); err != nil {
				return nil, err
			}
			return v, nil
		})
	}
	if len(c.Cfg.Globals) > 0 && c.Cfg.Globals[0] == '{' { // TLC prints an empty function as []
		var gl map[string]Value
		if err := json.Unmarshal(c.Cfg.Globals, &gl); err != nil {
			panic("harness: bad globals: " + err.Error())
		}
		for name, gv := range gl {
			e.AddGlobal(name, toGo(gv))
		}
	}
	var installedPolicy *twig.DefaultSecurityPolicy
	if r.DefaultPolicy {
		e.EnableSandbox(twig.NewDefaultSecurityPolicy())
	} else if c.Cfg.Sandbox && c.Cfg.DenyList {
		e.EnableSandbox(makeDenyPolicy(c.Cfg))
	} else if c.Cfg.Sandbox {
		cfg1 := c.Cfg
		cfg1.DenyFalse = cfg1.DenyFalse || r.DenyFalse
		pol := makePolicy(cfg1)
		installedPolicy, _ = pol.(*twig.DefaultSecurityPolicy)
		e.EnableSandbox(pol)
	}
	if r.DisableSandbox {
		e.DisableSandbox()
	}
	if c.Cfg.Debug || r.Debug {
		defer twig.SetDebugLevel(twig.DebugOff) // the debug level is process-wide
		e.SetDebug(true)
		twig.SetDebugWriter(io.Discard)
		if r.Verbose {
			twig.SetDebugLevel(twig.DebugVerbose)
		}
	}
	entry := r.Entry
	if entry == "" {
		entry = c.Entry
	}
	r.Pads = resolvePads(r.Tp, r.Pads)
	srcs := map[string]string{}
	for name, ps := range r.Tp {
		srcs[engineName(name)] = sourceOf(ps, r.Pads)
	}
	entry = engineName(entry)
	var late *lateLoader
	if c.Cfg.Loader || c.Cfg.FaultLoad != "" {
		if c.Cfg.FrontLoader {
			e.RegisterLoader(twig.NewArrayLoader(map[string]string{}))
		}
		var l twig.Loader = twig.NewArrayLoader(srcs)
		if c.Cfg.FSLoader {
			dir, err := os.MkdirTemp("", "verif-fs-")
			if err != nil {
				panic("harness: " + err.Error())
			}
			defer os.RemoveAll(dir)
			for name, src := range srcs {
				p := filepath.Join(dir, name)
				os.MkdirAll(filepath.Dir(p), 0o755)
				if c.Cfg.FaultLoad != "" && name == engineName(c.Cfg.FaultLoad) {
					os.MkdirAll(p, 0o755)
					continue
				}
				if err := os.WriteFile(p, []byte(src), 0o644); err != nil {
					panic("harness: " + err.Error())
				}
			}
			fl := twig.NewFileSystemLoader([]string{dir})
			fl.SetSuffix("")
			l = fl
		} else if c.Cfg.FaultLoad != "" {
			l = &faultLoader{inner: l, name: engineName(c.Cfg.FaultLoad)}
		}
		if r.Late != nil {
			late = &lateLoader{inner: l, name: engineName(r.Late.Name)}
			l = late
			e.SetAutoReload(true)
		}
		if c.Cfg.ChainLoader {
			l = twig.NewChainLoader([]twig.Loader{twig.NewArrayLoader(map[string]string{}), l, twig.NewArrayLoader(map[string]string{})})
		}
		e.RegisterLoader(l)
		if c.Cfg.BackLoader {
			e.RegisterLoader(twig.NewArrayLoader(map[string]string{}))
		}
	} else {
		foreignTp := map[string]bool{}
		for _, n := range c.Cfg.ForeignTp {
			foreignTp[engineName(n)] = true
		}
		var other *twig.Engine
		var compiledBytes [][]byte
		for name, src := range srcs {
			if foreignTp[name] {
				if other == nil {
					other = twig.New()
					registerSpies(other, st)
				}
				t, err := other.ParseTemplate(src)
				if err != nil {
					o.kind = "parse"
					o.errMsg = name + ": " + err.Error()
					return
				}
				e.RegisterTemplate(name, t)
				continue
			}
			if r.Via == "compiled" {
				// (phase 1: every template is compiled and serialised; phase 2, below the loop: the bytes are loaded -- so
				// that bytes handed out earlier have to survive later serialisations)
				if other == nil {
					other = twig.New()
					registerSpies(other, st)
				}
				err := other.RegisterString(name, src)
				var t *twig.Template
				if err == nil {
					t, err = other.Load(name)
				}
				if err != nil {
					o.kind = "parse"
					o.errMsg = name + ": " + err.Error()
					return
				}
				var data []byte
				ct, err := twig.CompileTemplate(t)
				if err == nil {
					data, err = twig.SerializeCompiledTemplate(ct)
				}
				if err != nil {
					o.kind = "other"
					o.errMsg = "compiled route: " + name + ": " + err.Error()
					return
				}
				compiledBytes = append(compiledBytes, data)
				continue
			}
			if err := e.RegisterString(name, src); err != nil {
				o.kind = "parse"
				o.errMsg = name + ": " + err.Error()
				if r.Probe {
					probeEngine(e, &o)
				}
				return
			}
		}
		for _, data := range compiledBytes {
			if err := e.LoadFromCompiledData(data); err != nil {
				o.kind = "other"
				o.errMsg = "compiled route: " + err.Error()
				return
			}
		}
	}
	if r.Decode != nil {
		data := make([]byte, len(r.Decode))
		for i, x := range r.Decode {
			data[i] = byte(x)
		}
		_, derr := twig.DeserializeCompiledTemplate(data)
		lerr := e.LoadFromCompiledData(data)
		if (derr == nil) != (lerr == nil) && derr != nil {
			o.kind = "other"
			o.errMsg = "Deserialize and LoadFromCompiledData disagree: " + fmt.Sprint(derr, lerr)
		}
		if derr != nil {
			o.kind = "other"
			o.errMsg = derr.Error()
		} else {
			o.ok = true
		}
		if r.Probe {
			probeEngine(e, &o)
		}
		return
	}
	writer := c.Cfg.Writer
	if r.Writer != "" {
		writer = r.Writer
	}
	renderOnce := func() (out string, err error) {
		switch writer {
		case "buffer":
			var b bytes.Buffer
			err = e.RenderTo(&b, entry, ctx)
			out = b.String()
			if err != nil {
				out = ""
			}
		case "plain":
			var w plainWriter
			err = e.RenderTo(&w, entry, ctx)
			out = w.buf.String()
			if err != nil {
				out = ""
			}
		default:
			out, err = e.Render(entry, ctx)
		}
		return
	}
	foreign() // (a second one, made after the engine under test was set up)
	out, err := renderOnce()
	if err != nil {
		o.kind = classify(err)
		o.errMsg = err.Error()
		o.out = out // Render must return "" with an error
	} else {
		o.ok = true
		o.out = out
	}
	// Again > 0: the same engine renders the same template again; outcome and spy counts must repeat
	if r.Again == 0 {
		r.Again = defaultAgain
	}
	if r.Again > 0 && c.Cfg.FaultID == "" {
		first := map[string]int64{}
		for k, v := range st.counts {
			first[k] = atomic.LoadInt64(v)
		}
		for k := 0; k < r.Again; k++ {
			for _, v := range st.counts {
				atomic.StoreInt64(v, 0)
			}
			out2, err2 := renderOnce()
			diff := ""
			if (err2 == nil) != (err == nil) || out2 != out || (err2 != nil && classify(err2) != classify(err)) {
				diff = fmt.Sprintf("render %d on the same engine: ok=%v %q (first: ok=%v %q)", k+2, err2 == nil, out2, err == nil, out)
			}
			for id, n := range first {
				if p := st.counts[id]; p == nil || atomic.LoadInt64(p) != n {
					diff += fmt.Sprintf(" callback %s invoked a different number of times in render %d (first: %d)", id, k+2, n)
				}
			}
			for id, p := range st.counts {
				if _, ok := first[id]; !ok && atomic.LoadInt64(p) != 0 {
					diff += fmt.Sprintf(" callback %s invoked only in render %d", id, k+2)
				}
			}
			if diff != "" {
				o.ok, o.kind, o.errMsg = false, "again-differs", diff
				break
			}
		}
		for id, n := range first {
			atomic.StoreInt64(st.counts[id], n)
		}
	}
	firstCounts := map[string]int64{}
	for k, v := range st.counts {
		firstCounts[k] = atomic.LoadInt64(v)
	}
	if len(r.Then) > 0 || r.Late != nil || len(r.Rerender) > 0 {
		defer func() { // the case's own expectation is about the first render
			for _, v := range st.counts {
				atomic.StoreInt64(v, 0)
			}
			for id, n := range firstCounts {
				atomic.StoreInt64(st.counts[id], n)
			}
		}()
	}
	for pi, ph := range r.Then {
		for _, v := range st.counts {
			atomic.StoreInt64(v, 0)
		}
		cfg2 := c.Cfg
		cfg2.AllowF, cfg2.AllowFn = ph.AllowF, ph.AllowFn
		if ph.Edit && installedPolicy != nil {
			np := makePolicy(cfg2).(*twig.DefaultSecurityPolicy)
			for k := range installedPolicy.AllowedFilters {
				delete(installedPolicy.AllowedFilters, k)
			}
			for k := range installedPolicy.AllowedFunctions {
				delete(installedPolicy.AllowedFunctions, k)
			}
			for k, v := range np.AllowedFilters {
				installedPolicy.AllowedFilters[k] = v
			}
			for k, v := range np.AllowedFunctions {
				installedPolicy.AllowedFunctions[k] = v
			}
		} else {
			e.EnableSandbox(makePolicy(cfg2))
		}
		out2, err2 := renderOnce()
		diff := ""
		if (err2 == nil) != ph.Ok {
			diff = fmt.Sprintf("ok=%v (%v), want ok=%v", err2 == nil, err2, ph.Ok)
		} else if ph.Ok && out2 != textOf(ph.Out, nil, false) {
			diff = fmt.Sprintf("output %q, want %q", out2, textOf(ph.Out, nil, false))
		} else if !ph.Ok && ph.Err != "any" && classify(err2) != ph.Err {
			diff = fmt.Sprintf("error kind %s (%v), want %s", classify(err2), err2, ph.Err)
		} else if !ph.Ok && out2 != "" {
			diff = fmt.Sprintf("output %q returned together with an error", out2)
		}
		for id, want := range countsOf(ph.Calls) {
			got := 0
			if p := st.counts[id]; p != nil {
				got = int(atomic.LoadInt64(p))
			}
			if got != want {
				diff += fmt.Sprintf(" callback %s invoked %d times, want %d", id, got, want)
			}
		}
		if diff != "" {
			o.ok, o.kind, o.errMsg = false, "phase-differs", fmt.Sprintf("phase %d after a policy change: %s", pi+1, diff)
			break
		}
	}
	if len(r.Rerender) > 0 && o.kind != "hang" && o.kind != "panic" {
		if ctx2, err := scopeOf(r.Rerender); err == nil {
			out2, err2 := renderOnce() // once more with the first context
			entrySave, ctxSave := entry, ctx
			ctx = ctx2
			out3, err3 := renderOnce() // ... then with the other one
			ctx = ctxSave
			_ = entrySave
			r2 := *r
			r2.Rerender, r2.Again, r2.Then, r2.Late, r2.Probe = nil, 0, nil, nil, false
			fresh := renderRun(c, &r2, ctx2)
			if (err3 == nil) != fresh.ok || (err3 == nil && out3 != fresh.out) {
				o.ok, o.kind, o.errMsg = false, "rerender-differs", fmt.Sprintf("the same engine with another context gave ok=%v %q, a fresh engine ok=%v %q", err3 == nil, out3, fresh.ok, fresh.out)
			}
			_, _ = out2, err2
		}
	}
	if late != nil && o.ok {
		late.active = true
		out2, err2 := renderOnce()
		diff := ""
		if (err2 == nil) != r.Late.Ok {
			diff = fmt.Sprintf("ok=%v (%v) %q, want ok=%v", err2 == nil, err2, out2, r.Late.Ok)
		} else if r.Late.Ok && out2 != textOf(r.Late.Out, nil, false) {
			diff = fmt.Sprintf("output %q, want %q", out2, textOf(r.Late.Out, nil, false))
		} else if !r.Late.Ok && !errMatches(r.Late.Err, classify(err2)) {
			diff = fmt.Sprintf("error kind %s (%v), want %s", classify(err2), err2, r.Late.Err)
		} else if !r.Late.Ok && out2 != "" {
			diff = fmt.Sprintf("output %q returned together with an error", out2)
		}
		if diff != "" {
			o.ok, o.kind, o.errMsg = false, "phase-differs", "after the loader began to fail for "+r.Late.Name+": "+diff
		}
	}
	if r.Probe {
		probeEngine(e, &o)
	}
	return
}

// probeEngine: whatever happened before, the engine must still be usable
func probeEngine(e *twig.Engine, o *obs) {
	// a render with several contexts alive at once: page -> include -> include -> macro call, and an inherited block
	srcs := [][2]string{
		{"zzprobe3", "{% macro mk(a) %}<{{ a }}>{% endmacro %}c{{ _self.mk(q) }}"},
		{"zzprobe2", "b{% include 'zzprobe3' %}{{ q }}"},
		{"zzbase", "[{% block bb %}base{% endblock %}]"},
		{"zzchild", "{% extends 'zzbase' %}{% block bb %}k{{ parent() }}{% endblock %}"},
		{"zzprobe", "p{{ 1 + 1 }}{% for i in [1, 2] %}{{ i }}{% include 'zzprobe2' with {'q': i} %}{% endfor %}{% include 'zzchild' %}"},
	}
	for _, ns := range srcs {
		if err := e.RegisterString(ns[0], ns[1]); err != nil {
			o.ok, o.kind, o.errMsg = false, "unusable", "probe register: "+err.Error()
			return
		}
	}
	const want = "p21bc<1>12bc<2>2[kbase]"
	for k := 0; k < 2; k++ {
		out, err := e.Render("zzprobe", map[string]interface{}{"q": 1})
		if err != nil || out != want {
			o.ok, o.kind, o.errMsg = false, "unusable", fmt.Sprintf("probe render gave %q, %v (want %q)", out, err, want)
			return
		}
	}
}

func renderRunTimed(c *Case, r *Run, ctx map[string]interface{}, limit time.Duration) obs {
	ch := make(chan obs, 1)
	go func() { ch <- renderRun(c, r, ctx) }()
	select {
	case o := <-ch:
		return o
	case <-time.After(limit):
		return obs{kind: "hang", errMsg: "no result within " + limit.String(), counts: map[string]int{}}
	}
}

func short(s string) string {
	if len(s) > 300 {
		return s[:300] + fmt.Sprintf("...(%d bytes)", len(s))
	}
	return s
}

// fsFault: the case's loader failure is a file-system one (no sentinel to recognise): any error that is not "not found"
var fsFault bool

func errMatches(want, got string) bool {
	if fsFault && want == "fault" {
		return got != "" && got != "notfound" && got != "panic" && got != "hang"
	}
	switch want {
	case "fault", "security", "notfound":
		return got == want
	case "unknown", "any":
		return got != "" && got != "panic" && got != "hang"
	}
	return got == want
}

// editMapsInPlace replaces, in every map with string keys and two or more entries reachable through maps, slices and
// interfaces, the greatest key k by k + "~" (same value); it returns the number of maps edited
func editMapsInPlace(v reflect.Value, depth int) int {
	if depth > 6 || !v.IsValid() {
		return 0
	}
	switch v.Kind() {
	case reflect.Interface, reflect.Ptr:
		if v.IsNil() {
			return 0
		}
		return editMapsInPlace(v.Elem(), depth+1)
	case reflect.Slice, reflect.Array:
		n := 0
		for i := 0; i < v.Len(); i++ {
			n += editMapsInPlace(v.Index(i), depth+1)
		}
		return n
	case reflect.Map:
		n := 0
		for _, k := range v.MapKeys() {
			n += editMapsInPlace(v.MapIndex(k), depth+1)
		}
		if v.IsNil() || v.Type().Key().Kind() != reflect.String || v.Len() < 2 {
			return n
		}
		var max reflect.Value
		for _, k := range v.MapKeys() {
			if !max.IsValid() || k.String() > max.String() {
				max = k
			}
		}
		nk := reflect.New(v.Type().Key()).Elem()
		nk.SetString(max.String() + "~")
		val := v.MapIndex(max)
		v.SetMapIndex(nk, val)
		v.SetMapIndex(max, reflect.Value{})
		return n + 1
	}
	return 0
}

func checkCase(c *Case, limit time.Duration) (res Result, hung bool) {
	res = Result{Prop: c.Prop, Key: c.Key, Tags: c.Tags, Pass: true, Runs: len(c.Runs)}
	ctx, err := scopeOf(c.Ctx)
	if err != nil {
		res.Pass = false
		res.Fails = append(res.Fails, Fail{Why: "harness: bad ctx: " + err.Error()})
		return
	}
	baseCalls := countsOf(c.Expect.Calls)
	fsFault = c.Cfg.FSLoader
	digest := sha1.New()
	defer func() { res.Digest = fmt.Sprintf("%x", digest.Sum(nil)) }()
	var first *obs
	var firstLabel string
	for i := range c.Runs {
		r := &c.Runs[i]
		entry := r.Entry
		if entry == "" {
			entry = c.Entry
		}
		src := sourceOf(r.Tp[entry], r.Pads)
		if i == 0 {
			res.Src = short(src)
		}
		rctx := ctx
		rawCtx := c.Ctx
		if len(r.Ctx) > 0 {
			rawCtx = r.Ctx
			if rc, err := scopeOf(r.Ctx); err == nil {
				rctx = rc
			}
		}
		if r.Rev {
			reverseInsertion = true
			if rc, err := scopeOf(rawCtx); err == nil {
				rctx = rc
			}
			reverseInsertion = false
		}
		var before string
		if r.Shared > 0 {
			before = snapshot(rctx)
		}
		o := renderRunTimed(c, r, rctx, limit)
		recordObs(c, r, &o)
		if c.Prop == "C03" && i == 0 && o.kind != "hang" {
			// the same data object rendered, edited IN PLACE (in every map of two or more keys one key is replaced by another,
			// the size stays) and rendered again: the output is that of a fresh object with the same content
			if ca, err := scopeOf(rawCtx); err == nil {
				renderRunTimed(c, r, ca, limit)
				n := 0
				for _, v := range ca {
					n += editMapsInPlace(reflect.ValueOf(v), 0)
				}
				if n > 0 {
					oa := renderRunTimed(c, r, ca, limit)
					cb, _ := scopeOf(rawCtx)
					for _, v := range cb {
						editMapsInPlace(reflect.ValueOf(v), 0)
					}
					ob := renderRunTimed(c, r, cb, limit)
					if oa.ok != ob.ok || oa.out != ob.out {
						res.Pass = false
						res.Fails = append(res.Fails, Fail{Run: r.Label, Why: "edited-in-place-differs-from-fresh", Got: short(fmt.Sprintf("ok=%v %s", oa.ok, oa.out)),
							Want: short(fmt.Sprintf("ok=%v %s", ob.ok, ob.out)), Src: short(src)})
					}
				}
			}
		}
		digest.Write([]byte(fmt.Sprintf("%s|%v|%s|%s\n", r.Label, o.ok, o.kind, o.out)))
		if r.Shared > 0 {
			shared := renderRunTimed(c, r, rctx, limit)
			if shared.ok != o.ok || shared.out != o.out {
				// o was rendered with the same value too: compare
				res.Pass = false
				res.Fails = append(res.Fails, Fail{Run: r.Label, Why: "second-render-differs", Got: short(shared.out), Want: short(o.out), Src: short(src)})
			}
			for k := 1; k < r.Shared; k++ {
				renderRunTimed(c, r, rctx, limit)
			}
			if after := snapshot(rctx); after != before {
				res.Pass = false
				res.Fails = append(res.Fails, Fail{Run: r.Label, Why: "context-modified", Got: short(after), Want: short(before), Src: short(src)})
			}
		}
		for rep := 1; rep < r.Repeat && o.kind != "hang"; rep++ {
			// a fresh context value and a fresh engine every time
			rc2, _ := scopeOf(rawCtx)
			o2 := renderRunTimed(c, r, rc2, limit)
			if o2.ok != o.ok || o2.out != o.out {
				res.Pass = false
				res.Fails = append(res.Fails, Fail{Run: r.Label, Why: "nondeterministic", Got: short(fmt.Sprintf("render %d: ok=%v %s", rep+1, o2.ok, o2.out)),
					Want: short(fmt.Sprintf("render 1: ok=%v %s", o.ok, o.out)), Src: short(src)})
				break
			}
		}
		fail := func(why, got, want string) {
			res.Pass = false
			all := []string{}
			for n, ps := range r.Tp {
				all = append(all, n+"="+short(sourceOf(ps, r.Pads)))
			}
			res.Fails = append(res.Fails, Fail{Run: r.Label, Why: why, Got: short(got), Want: short(want), Src: strings.Join(all, " ;; ")})
		}
		if o.kind == "hang" {
			fail("hang", o.errMsg, "")
			hung = true
			return
		}
		if o.kind == "panic" {
			fail("panic", o.errMsg, "")
			continue
		}
		if o.kind == "again-differs" {
			fail("again-differs", o.errMsg, "")
			continue
		}
		if o.kind == "unusable" {
			fail("engine-unusable", o.errMsg, "")
			continue
		}
		wantOut := c.Expect.Out
		if r.Out != nil {
			wantOut = *r.Out
		}
		want := textOf(wantOut, r.Pads, false)
		if c.Expect.AnyOutcome {
			// nothing to compare against: relations between runs are checked below
		} else if c.Expect.Ok {
			if !o.ok && r.MayFail && o.kind != "panic" && o.kind != "hang" {
				// accepted
			} else if !o.ok {
				fail("unexpected-error", o.kind+": "+o.errMsg, want)
			} else if !c.Expect.NoOut && o.out != want && !(r.Alt != nil && o.out == textOf(*r.Alt, r.Pads, false)) {
				fail("output", o.out, want)
			}
		} else {
			if o.ok {
				fail("missing-error", "ok: "+o.out, c.Expect.Err)
			} else if !errMatches(c.Expect.Err, o.kind) {
				fail("error-kind", o.kind+": "+o.errMsg, c.Expect.Err)
			} else if o.out != "" {
				fail("output-with-error", o.out, "")
			}
		}
		// spy counts: only compared for successful expected outcomes (after a failure
		// the number of callbacks that ran before it is not determined by the property)
		if c.Expect.Ok && o.ok {
			wantCalls := map[string]int{}
			for k, v := range baseCalls {
				wantCalls[k] = v
			}
			for k, v := range countsOf(r.XCalls) {
				wantCalls[k] = v
			}
			for k, v := range wantCalls {
				if o.counts[k] != v {
					fail("calls", fmt.Sprintf("%s=%d", k, o.counts[k]), fmt.Sprintf("%s=%d", k, v))
				}
			}
		}
		if len(c.Expect.Absent) > 0 && o.ok {
			if needle := textOf(c.Expect.Absent, nil, false); strings.Contains(o.out, needle) {
				fail("contains-forbidden-text", o.out, "not containing "+needle)
			}
		}
		for k, v := range countsOf(c.Expect.Always) {
			if o.counts[k] != v {
				fail("calls-always", fmt.Sprintf("%s=%d", k, o.counts[k]), fmt.Sprintf("%s=%d", k, v))
			}
		}
		if c.Rel == "same" && r.Alt != nil && o.ok && o.out == textOf(*r.Alt, r.Pads, false) {
			continue
		}
		if c.Rel == "same" && !r.NoRel {
			if first == nil {
				oc := o
				first = &oc
				firstLabel = r.Label
			} else if first.ok != o.ok || first.out != o.out {
				fail("differs-from:"+firstLabel, fmt.Sprintf("ok=%v %s", o.ok, o.out), fmt.Sprintf("ok=%v %s", first.ok, first.out))
			}
		}
	}
	return
}

func cmdReplay(args []string) {
	limit := 5 * time.Second
	for i := 0; i < len(args); i++ {
		if args[i] == "-obs" && i+1 < len(args) {
			f, err := os.Create(args[i+1])
			if err != nil {
				fmt.Fprintln(os.Stderr, "harness:", err)
				os.Exit(2)
			}
			defer f.Close()
			obsWriter = bufio.NewWriterSize(f, 1<<20)
			defer obsWriter.Flush()
			i++
			continue
		}
		if args[i] == "-again" && i+1 < len(args) {
			fmt.Sscan(args[i+1], &defaultAgain)
			i++
			continue
		}
		if args[i] == "-limit" && i+1 < len(args) {
			d, err := time.ParseDuration(args[i+1])
			if err == nil {
				limit = d
			}
			i++
		}
	}
	twig.SetDebugWriter(io.Discard)
	sc := stdinLines()
	w := bufio.NewWriterSize(os.Stdout, 1<<20)
	defer w.Flush()
	enc := json.NewEncoder(w)
	n := 0
	for sc.Scan() {
		line := strings.TrimSpace(sc.Text())
		if line == "" {
			continue
		}
		if line[0] == '"' {
			u, err := strconv.Unquote(line)
			if err != nil {
				fmt.Fprintln(os.Stderr, "harness: cannot unquote line:", err)
				os.Exit(2)
			}
			line = u
		}
		var c Case
		if err := json.Unmarshal([]byte(line), &c); err != nil {
			fmt.Fprintln(os.Stderr, "harness: bad case:", err, short(line))
			os.Exit(2)
		}
		poolCase(c.Key)
		res, hung := checkCase(&c, limit)
		poolCaseDone()
		n++
		if err := enc.Encode(res); err != nil {
			os.Exit(2)
		}
		w.Flush() // a fatal runtime error in the engine must not lose the results so far
		if hung {
			if obsWriter != nil {
				obsWriter.Flush()
			}
			w.Flush()
			poolTraceClose()
			os.Exit(3) // a goroutine is stuck in the engine; the orchestrator restarts a worker
		}
	}
	if err := sc.Err(); err != nil {
		fmt.Fprintln(os.Stderr, "harness: read:", err)
		os.Exit(2)
	}
}
