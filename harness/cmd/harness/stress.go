package main

// C02: concurrent use of one engine.
//
//	harness stress -seed S -g G -k K -mode cacheon|cacheoff|autoreload -obs FILE
//
// G goroutines issue K calls each (Render, RenderTo, Load, ParseTemplate,
// RegisterString) on ONE engine whose templates use includes, inheritance,
// imports and relative names in two directories (file-system loader).  Every
// call's result is afterwards compared with the same call made alone on a fresh
// engine (serial result).  Calls on "versioned" names (RegisterString racing with
// Render) are recorded as call/return events for the linearizability trace spec.
// Built with -race, the race detector's reports (stderr) are the third channel.

import (
	"bytes"
	"encoding/json"
	"fmt"
	"io"
	"math/rand"
	"os"
	"path/filepath"
	"sort"
	"strings"
	"sync"
	"sync/atomic"

	"github.com/semihalev/twig"
)

type stressWorld struct {
	dir   string
	array map[string]string
}

func bigTemplate() string {
	var sb strings.Builder
	sb.WriteString("{% set n = 0 %}")
	for i := 0; i < 120; i++ {
		fmt.Fprintf(&sb, "<li class=\"c%d\">{{ x }}-%d{% if x %}y{% endif %}</li>\n", i, i)
	}
	sb.WriteString("{{- x -}}  end")
	return sb.String()
}

func newStressWorld(dir string) (*stressWorld, error) {
	w := &stressWorld{dir: dir, array: map[string]string{
		"plain": "p[{{ x }}]",
		"incl":  "i<{% include 'plain' %}|{% include 'plain' with {'x': x ~ '!'} %}>",
		"base":  "B({% block bb %}base{% endblock %}|{{ x }})",
		"child": "{% extends 'base' %}{% block bb %}C{{ x }}+{{ parent() }}{% endblock %}",
		"lib":   "{% macro mm(a, b='d') %}[{{ a }}:{{ b }}]{% endmacro %}",
		"imp":   "{% import 'lib' as L %}{{ L.mm(x) }}{% from 'lib' import mm as q %}{{ q(x, 2) }}",
		"loop":  "{% for i in [1, 2, 3] %}{{ loop.index }}{{ x }}{% if loop.last %}.{% endif %}{% endfor %}",
		"big":   bigTemplate(),
		// attribute access on Go values of one type from many goroutines: struct by value with pointer- and value-receiver
		// methods, pointer to struct, typed map, embedded field
		// values shared by every call (one Go slice / map in all contexts, an engine global): nothing may write to them
		"shared": "s[{% set m = sl|merge([x]) %}{% set r = sl|reverse %}{% set o = ss|sort %}{{ m|join(',') }}|{{ r|join(',') }}|{{ o|join(',') }}|" +
			"{{ sl|slice(1, 2)|merge([x, x])|join(',') }}|{{ sm|merge({'k': x})|keys|join(',') }}|{{ gl|merge([x])|join(',') }}|{{ ss|merge([x])|join(',') }}|{{ sl|join(',') }}]",
		// an include that fails while its with-values are evaluated (error path), next to ones that work
		"failinc": "f<{% include 'plain' with {'x': x} %}{% include 'incl' with {'x': x, 'y': x|nosuchfilter} %}>",
		// a spaceless block with a loop and an include in it (what a node collects while it renders belongs to the render)
		"spc": "{% spaceless %}<p> {% for i in range(1, 30) %}<b> {{ x }}{{ i }} </b> {% include 'plain' %} {% endfor %}</p>{% endspaceless %}",
		// a method that renders another template on the same engine while it is called
		"nest":   "n[{{ nu.Teaser }}|{{ nu.Tag }}]",
		"teaser": "t<{{ item.Tag }}{{ item2.VLabel }}>",
		"meth":   "m[{{ u.PLabel }}|{{ u.Name }}|{{ u.VLabel }}|{{ p.PLabel }}|{{ p.Inner.Tag }}|{{ tm.k }}|{{ u.Tag }}]",
	}}
	files := map[string]string{
		"dirA/main.twig":     "A:{% include './part.twig' %}:{{ x }}",
		"dirA/part.twig":     "partA({{ x }})",
		"dirB/main.twig":     "B:{% include './part.twig' %}:{{ x }}",
		"dirB/part.twig":     "partB({{ x }})",
		"dirB/sub/deep.twig": "D:{% include '../part.twig' %}{% extends '../layout.twig' %}",
		"dirB/layout.twig":   "L[{% block bb %}l{% endblock %}{{ x }}]",
		// one library macro that includes the neighbour of whoever calls it, called from two directories
		"relib.twig":         "{% macro inc() %}i<{% include './part.twig' %}>{% endmacro %}",
		"dirA/viamacro.twig": "{% import 'relib.twig' as L %}vA:{{ L.inc() }}{{ x }}",
		"dirB/viamacro.twig": "{% import 'relib.twig' as L %}vB:{{ L.inc() }}{{ x }}",
		"dirB/sub/kid.twig":  "{% extends '../layout.twig' %}{% block bb %}kid{{ x }}{% endblock %}",
	}
	for name, src := range files {
		p := filepath.Join(dir, name)
		if err := os.MkdirAll(filepath.Dir(p), 0o755); err != nil {
			return nil, err
		}
		if err := os.WriteFile(p, []byte(src), 0o644); err != nil {
			return nil, err
		}
	}
	return w, nil
}

func (w *stressWorld) engine(mode string) *twig.Engine {
	e := twig.New()
	e.RegisterLoader(twig.NewArrayLoader(w.array))
	fs := twig.NewFileSystemLoader([]string{w.dir})
	fs.SetSuffix("")
	e.RegisterLoader(fs)
	e.AddGlobal("gl", sharedGlobal)
	switch mode {
	case "smallattr":
		// the attribute cache holds three (type, name) pairs: the renders of "meth" evict each other's entries all the time
		twig.VerifSetAttrCacheMax(3)
	case "cacheoff":
		e.SetCache(false)
	case "debug":
		// (the debug level and its bookkeeping are process-wide: overlapping renders share them)
		e.SetDebug(true)
		twig.SetDebugWriter(io.Discard)
	case "autoreload":
		e.SetAutoReload(true)
	}
	return e
}

type sCall struct {
	G      int    `json:"g"`
	Seq    int    `json:"seq"`
	Op     string `json:"op"` // render renderto load parse register
	Name   string `json:"name"`
	X      string `json:"x"`
	Ver    int    `json:"ver"`
	Call   int64  `json:"call"` // global ticket taken before the call
	Ret    int64  `json:"ret"`  // global ticket taken after the return
	Ok     bool   `json:"ok"`
	Out    string `json:"out"`
	Err    string `json:"err,omitempty"`
	GotVer int    `json:"gotver"` // for renders of versioned names: the version printed
}

var renderNames = []string{"shared", "shared", "failinc", "spc", "spc", "nest", "meth", "meth", "plain", "incl", "child", "imp", "loop", "big", "meth", "meth", "dirA/main.twig", "dirB/main.twig", "dirB/sub/kid.twig", "dirA/viamacro.twig", "dirB/viamacro.twig"}

type stressInner struct{ Tag string }
type stressUser struct {
	stressInner
	Name  string
	Inner stressInner
}

// nestUser: reading its Teaser renders a template on the same engine (attribute lookups inside an attribute lookup)
type nestUser struct {
	e   *twig.Engine
	Tag string
}

func (n nestUser) Teaser() string {
	out, err := n.e.Render("teaser", map[string]interface{}{"item": stressInner{Tag: "in" + n.Tag}, "item2": stressUser{Name: n.Tag}})
	if err != nil {
		return "ERR:" + err.Error()
	}
	return out
}

func (u *stressUser) PLabel() string { return "<" + u.Name + ">" }
func (u stressUser) VLabel() string  { return "(" + u.Name + ")" }

// shared by all calls of the process, with spare capacity behind the visible elements
var (
	sharedList    = append(make([]interface{}, 0, 16), "c", "a", "b")
	sharedStrings = append(make([]string, 0, 16), "z", "y", "x")
	sharedMap     = map[string]interface{}{"a": 1, "b": 2}
	sharedGlobal  = append(make([]interface{}, 0, 16), 1, 2, 3)
)

func doCall(e *twig.Engine, c *sCall) {
	ctx := map[string]interface{}{"x": c.X, "sl": sharedList, "ss": sharedStrings, "sm": sharedMap,
		"u":  stressUser{stressInner: stressInner{Tag: "t" + c.X}, Name: c.X, Inner: stressInner{Tag: "i" + c.X}},
		"p":  &stressUser{Name: "p" + c.X, Inner: stressInner{Tag: "j" + c.X}},
		"tm": map[string]string{"k": "k" + c.X}, "nu": nestUser{e: e, Tag: c.X}}
	poolCaller(ctx)
	var out string
	var err error
	switch c.Op {
	case "render":
		out, err = e.Render(c.Name, ctx)
	case "renderto":
		var b bytes.Buffer
		err = e.RenderTo(&b, c.Name, ctx)
		out = b.String()
	case "load":
		var t *twig.Template
		t, err = e.Load(c.Name)
		if err == nil {
			out, err = t.Render(ctx)
		}
	case "parse":
		var t *twig.Template
		src := "q{{ x }}{% if x %}[{{ x|upper }}]{% endif %}" + c.Name
		if c.Name == "_big" {
			// a large template (> 4096 bytes: the other tokenizer) that prints names nobody has seen before
			var sb strings.Builder
			sb.WriteString(src)
			for i := 0; i < 150; i++ {
				fmt.Fprintf(&sb, "<i>{{ v%s_%d }}</i>{{ x }};;;;;;;;;;;;\n", c.X, i)
			}
			src = sb.String()
		}
		t, err = e.ParseTemplate(src)
		if err == nil {
			out, err = t.Render(ctx)
		}
	case "register":
		err = e.RegisterString(c.Name, fmt.Sprintf("ver:%d:{{ x }}", c.Ver))
	}
	c.Ok = err == nil
	c.Out = out
	if err != nil {
		c.Err = short(err.Error())
	}
	if c.Op != "register" && strings.HasPrefix(c.Name, "v") && err == nil {
		fmt.Sscanf(out, "ver:%d:", &c.GotVer)
	}
}

func cmdStress(args []string) {
	seed, g, k := int64(1), 8, 60
	mode, obsPath := "cacheon", ""
	for i := 0; i < len(args)-1; i++ {
		switch args[i] {
		case "-seed":
			fmt.Sscan(args[i+1], &seed)
		case "-g":
			fmt.Sscan(args[i+1], &g)
		case "-k":
			fmt.Sscan(args[i+1], &k)
		case "-mode":
			mode = args[i+1]
		case "-obs":
			obsPath = args[i+1]
		}
	}
	twig.SetDebugWriter(io.Discard)
	dir, err := os.MkdirTemp("", "verif-c02-")
	if err != nil {
		fmt.Fprintln(os.Stderr, "harness:", err)
		os.Exit(2)
	}
	defer os.RemoveAll(dir)
	w, err := newStressWorld(dir)
	if err != nil {
		fmt.Fprintln(os.Stderr, "harness:", err)
		os.Exit(2)
	}
	e := w.engine(mode)
	versioned := mode != "cacheoff" // registered strings need the cache
	if versioned {
		for _, n := range []string{"v1", "v2"} {
			e.RegisterString(n, "ver:0:{{ x }}")
		}
	}
	// plan the calls up front (deterministic in the seed)
	rnd := rand.New(rand.NewSource(seed))
	plans := make([][]sCall, g)
	verCounter := map[string]int{}
	for gi := 0; gi < g; gi++ {
		for s := 0; s < k; s++ {
			c := sCall{G: gi, Seq: s, X: fmt.Sprintf("g%ds%d", gi, s)}
			switch r := rnd.Intn(20); {
			case r < 8:
				c.Op, c.Name = "render", renderNames[rnd.Intn(len(renderNames))]
			case r < 11:
				c.Op, c.Name = "renderto", renderNames[rnd.Intn(len(renderNames))]
			case r < 13:
				c.Op, c.Name = "load", renderNames[rnd.Intn(len(renderNames))]
			case r < 15:
				c.Op, c.Name = "parse", []string{"_0", "_1", "_2", "_big", "_big"}[rnd.Intn(5)]
			case r < 17 && versioned:
				n := []string{"v1", "v2"}[rnd.Intn(2)]
				verCounter[n]++
				c.Op, c.Name, c.Ver = "register", n, verCounter[n]
			case versioned:
				c.Op, c.Name = "render", []string{"v1", "v2"}[rnd.Intn(2)]
			default:
				c.Op, c.Name = "render", "plain"
			}
			// every goroutine starts with the same three heavy templates, so that their renders overlap
			if s < 3 {
				c.Op, c.Name, c.Ver = "render", []string{"spc", "nest", "big"}[s], 0
			}
			plans[gi] = append(plans[gi], c)
		}
	}
	var ticket int64
	var wg sync.WaitGroup
	start := make(chan struct{})
	for gi := 0; gi < g; gi++ {
		wg.Add(1)
		go func(gi int) {
			defer wg.Done()
			<-start
			for i := range plans[gi] {
				c := &plans[gi][i]
				func() {
					defer func() {
						if p := recover(); p != nil {
							c.Ok, c.Err = false, "panic: "+fmt.Sprint(p)
						}
						c.Ret = atomic.AddInt64(&ticket, 1)
					}()
					c.Call = atomic.AddInt64(&ticket, 1)
					doCall(e, c)
				}()
			}
		}(gi)
	}
	close(start)
	wg.Wait()

	// serial results: the same call alone on a fresh engine
	type mismatch struct {
		Call   sCall  `json:"call"`
		Serial string `json:"serial"`
	}
	var mism []mismatch
	var events []sCall
	serialCache := map[string]sCall{}
	for gi := range plans {
		for _, c := range plans[gi] {
			if strings.HasPrefix(c.Name, "v") && (c.Op == "register" || c.Op == "render") {
				events = append(events, c)
				if c.Op == "render" && (!c.Ok || !strings.HasSuffix(c.Out, ":"+c.X)) {
					mism = append(mism, mismatch{c, "ver:<some registered version>:" + c.X})
				}
				continue
			}
			key := c.Op + "|" + c.Name + "|" + c.X
			s, ok := serialCache[key]
			if !ok {
				s = sCall{Op: c.Op, Name: c.Name, X: c.X}
				doCall(w.engine(mode), &s)
				serialCache[key] = s
			}
			if s.Ok != c.Ok || s.Out != c.Out {
				mism = append(mism, mismatch{c, fmt.Sprintf("ok=%v %s %s", s.Ok, short(s.Out), s.Err)})
			}
		}
	}
	if obsPath != "" {
		sort.Slice(events, func(i, j int) bool { return events[i].Call < events[j].Call })
		f, err := os.Create(obsPath)
		if err == nil {
			enc := json.NewEncoder(f)
			for _, ev := range events {
				enc.Encode(map[string]interface{}{"g": ev.G, "op": ev.Op, "n": ev.Name, "ver": ev.Ver, "got": ev.GotVer, "call": ev.Call, "ret": ev.Ret, "ok": ev.Ok})
			}
			f.Close()
		}
	}
	if len(mism) > 20 {
		mism = mism[:20]
	}
	b, _ := json.Marshal(map[string]interface{}{"calls": g * k, "events": len(events), "mismatches": mism, "mode": mode, "seed": seed})
	fmt.Println(string(b))
}

func init() { commands["stress"] = cmdStress }
