package main

// Random drivers (code -> spec direction): they produce operation sequences far
// beyond TLC's exhaustive bounds.  A driver holds no expectations: what the
// implementation does is recorded and judged by the TLC trace specs.

import (
	"encoding/json"
	"fmt"
	"math/rand"
	"os"
)

func cmdGen(args []string) {
	if len(args) < 1 {
		fmt.Fprintln(os.Stderr, "usage: harness gen <what> -seed S -n N [-len L]")
		os.Exit(2)
	}
	what := args[0]
	seed, n, length := int64(1), 100, 60
	for i := 1; i < len(args)-1; i++ {
		switch args[i] {
		case "-seed":
			fmt.Sscan(args[i+1], &seed)
		case "-n":
			fmt.Sscan(args[i+1], &n)
		case "-len":
			fmt.Sscan(args[i+1], &length)
		}
	}
	rnd := rand.New(rand.NewSource(seed))
	enc := json.NewEncoder(os.Stdout)
	switch what {
	case "cachehist":
		for i := 0; i < n; i++ {
			enc.Encode(genCacheHist(rnd, seed, i, length))
		}
	default:
		if g, ok := generators[what]; ok {
			g(rnd, seed, n, length, enc)
			return
		}
		fmt.Fprintln(os.Stderr, "unknown generator", what)
		os.Exit(2)
	}
}

var generators = map[string]func(rnd *rand.Rand, seed int64, n, length int, enc *json.Encoder){}

// genCacheHist draws operations that are enabled in CacheLoaders.tla (the guards
// are about which operations make sense, not about what they must do).
func genCacheHist(rnd *rand.Rand, seed int64, idx, length int) CCase {
	c := CCase{Prop: "C15", Key: fmt.Sprintf("rand-%d-%d", seed, idx), Tags: []string{"random"}}
	content := [3]map[string]int{nil, {}, {}}
	mtime := map[string]int64{}
	cacheOn := true
	autoReload := false
	loaderNames := [3][]string{nil, {"l1", "m1"}, {"l1", "l2", "m1"}}
	for len(c.Ops) < length {
		switch k := rnd.Intn(20); {
		case k < 9: // render
			names := []string{"l1", "l2"}
			if cacheOn {
				names = append(names, "r1", "m1")
			}
			c.Ops = append(c.Ops, COp{Op: "render", N: names[rnd.Intn(len(names))]})
		case k < 11: // register
			if !cacheOn {
				continue
			}
			c.Ops = append(c.Ops, COp{Op: "register", N: []string{"r1", "m1"}[rnd.Intn(2)], V: 11 + rnd.Intn(2)})
		case k < 15: // put
			i := 1 + rnd.Intn(2)
			n := loaderNames[i][rnd.Intn(len(loaderNames[i]))]
			v := 1 + rnd.Intn(2)
			if content[i][n] == v {
				continue
			}
			content[i][n] = v
			op := COp{Op: "put", I: i, N: n, V: v, Mt: mtime[n]}
			if i == 2 {
				// the first stamp a name gets is 0, every later one is one more
				op.Mt = mtime[n]
				mtime[n]++
			}
			c.Ops = append(c.Ops, op)
		case k < 16: // delete from the plain loader (deleting from the other one needs knowledge of the cache: left to TLC)
			n := loaderNames[1][rnd.Intn(2)]
			if content[1][n] == 0 {
				continue
			}
			content[1][n] = 0
			c.Ops = append(c.Ops, COp{Op: "delete", I: 1, N: n})
		case k < 17:
			b := !cacheOn
			cacheOn = b
			c.Ops = append(c.Ops, COp{Op: "setcache", B: b})
		case k < 19:
			autoReload = !autoReload
			c.Ops = append(c.Ops, COp{Op: "setautoreload", B: autoReload})
		default:
			b := rnd.Intn(2) == 0
			cacheOn = !b
			autoReload = b
			c.Ops = append(c.Ops, COp{Op: "setdevmode", B: b})
		}
	}
	return c
}

func init() { commands["gen"] = cmdGen }
