package main

// Recording of the engine's render-context pool traffic (verif hooks vpool) for Trace_Pool.tla.
//
//	harness <cmd> ... with VERIF_POOL_TRACE=<file> in the environment
//
// One JSON line per event; object identities are small numbers given in order of first appearance.  The garbage collector
// runs only where the recording says so ("gc": identities may be reused afterwards).

import (
	"bufio"
	"crypto/sha1"
	"encoding/json"
	"fmt"
	"os"
	"reflect"
	"runtime"
	"runtime/debug"
	"sync"

	"github.com/semihalev/twig"
)

var poolTrace struct {
	mu    sync.Mutex
	w     *bufio.Writer
	f     *os.File
	ids   map[uintptr]int
	since int
}

type poolEv struct {
	Ev   string `json:"ev"`
	Pool string `json:"pool"`
	ID   int    `json:"id"`
	N    int    `json:"n"`
}

func poolID(p uintptr) int {
	id, ok := poolTrace.ids[p]
	if !ok {
		id = len(poolTrace.ids) + 1
		poolTrace.ids[p] = id
	}
	return id
}

func poolWrite(e poolEv) {
	b, _ := json.Marshal(e)
	poolTrace.w.Write(b)
	poolTrace.w.WriteByte('\n')
}

// poolTraceInit starts the recording if the environment asks for it
func poolTraceInit() {
	path := os.Getenv("VERIF_POOL_TRACE")
	if path == "" {
		return
	}
	f, err := os.OpenFile(path, os.O_CREATE|os.O_WRONLY|os.O_APPEND, 0o644)
	if err != nil {
		panic("harness: " + err.Error())
	}
	poolTrace.f = f
	poolTrace.w = bufio.NewWriterSize(f, 1<<20)
	poolTrace.ids = map[uintptr]int{}
	debug.SetGCPercent(-1)
	poolWrite(poolEv{Ev: "start"})
	twig.VerifSetPoolHook(func(ev, pool string, id uintptr, n int) {
		poolTrace.mu.Lock()
		poolWrite(poolEv{Ev: ev, Pool: pool, ID: poolID(id), N: n})
		poolTrace.mu.Unlock()
	})
}

// poolCaller: m is a map the caller passes to Render
func poolCaller(m map[string]interface{}) {
	if poolTrace.w == nil || m == nil {
		return
	}
	poolTrace.mu.Lock()
	poolWrite(poolEv{Ev: "caller", ID: poolID(reflect.ValueOf(m).Pointer())})
	poolTrace.mu.Unlock()
}

// poolCase marks the start of a case (key: its digest, so that a rejected event can be traced back to its case)
func poolCase(key string) {
	if poolTrace.w == nil {
		return
	}
	poolTrace.mu.Lock()
	poolWrite(poolEv{Ev: "case", Pool: fmt.Sprintf("%x", sha1.Sum([]byte(key)))[:16]})
	poolTrace.mu.Unlock()
}

// poolCaseDone: between two cases; every so often the collector runs (and the identities are forgotten)
func poolCaseDone() {
	if poolTrace.w == nil {
		return
	}
	poolTrace.mu.Lock()
	defer poolTrace.mu.Unlock()
	poolTrace.since++
	poolTrace.w.Flush() // a fatal runtime error in the engine must not lose what was recorded
	if poolTrace.since >= 100 {
		poolTrace.since = 0
		poolGCLocked()
	}
}

// poolGC: the collector is about to run (identities may be reused afterwards)
func poolGC() {
	if poolTrace.w == nil {
		runtime.GC()
		return
	}
	poolTrace.mu.Lock()
	defer poolTrace.mu.Unlock()
	poolGCLocked()
}

func poolGCLocked() {
	poolWrite(poolEv{Ev: "gc"})
	poolTrace.ids = map[uintptr]int{}
	poolTrace.w.Flush()
	runtime.GC()
	runtime.GC()
}

func poolTraceClose() {
	if poolTrace.w == nil {
		return
	}
	twig.VerifSetPoolHook(nil)
	poolTrace.mu.Lock()
	poolTrace.w.Flush()
	poolTrace.f.Close()
	poolTrace.mu.Unlock()
}
