// harness: binds the TLA+ specification in /verif/spec to the implementation in /repo.
//
//	harness replay            ndjson cases on stdin -> ndjson results on stdout
//
// The harness knows nothing about Twig semantics: it concatenates source pieces,
// builds Go values, drives the public API and compares with what TLC computed.
package main

import (
	"bufio"
	"fmt"
	"os"
	"time"
)

func main() {
	os.Setenv("TZ", "UTC") // instants given as numbers are formatted in the local zone: make it the zone of the time values
	if len(os.Args) < 2 {
		fmt.Fprintln(os.Stderr, "usage: harness <replay|...>")
		os.Exit(2)
	}
	poolTraceInit()
	defer poolTraceClose()
	switch os.Args[1] {
	case "replay":
		cmdReplay(os.Args[2:])
	default:
		if f, ok := commands[os.Args[1]]; ok {
			f(os.Args[2:])
			return
		}
		fmt.Fprintln(os.Stderr, "unknown command", os.Args[1])
		os.Exit(2)
	}
}

var commands = map[string]func([]string){}

// guarded runs one case with a watchdog: a case that does not return within the limit is reported
// as a hang and the process exits with 3 (a goroutine is stuck in the engine; the orchestrator
// restarts a worker for the remaining cases).
func guarded(limit time.Duration, run func() Result, onHang func() Result) (Result, bool) {
	ch := make(chan Result, 1)
	go func() { ch <- run() }()
	select {
	case r := <-ch:
		return r, false
	case <-time.After(limit):
		return onHang(), true
	}
}

func hangResult(prop, key string, tags []string, src string) Result {
	return Result{Prop: prop, Key: key, Tags: tags, Pass: false, Src: src,
		Fails: []Fail{{Run: "", Why: "hang", Got: "no result within the time limit", Src: src}}}
}

func stdinLines() *bufio.Scanner {
	sc := bufio.NewScanner(os.Stdin)
	sc.Buffer(make([]byte, 1<<20), 1<<28)
	return sc
}
