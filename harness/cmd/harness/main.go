// harness: binds the TLA+ specification in /verif/spec to the implementation in /repo.
//
//	harness replay            ndjson cases on stdin -> ndjson results on stdout
//
// The harness knows nothing about Twig semantics: it concatenates source pieces,
// builds Go values, drives the public API and compares with what TLC computed.
package main

import (
	"bufio"
	"fmt"
	"os"
)

func main() {
	if len(os.Args) < 2 {
		fmt.Fprintln(os.Stderr, "usage: harness <replay|...>")
		os.Exit(2)
	}
	switch os.Args[1] {
	case "replay":
		cmdReplay(os.Args[2:])
	default:
		if f, ok := commands[os.Args[1]]; ok {
			f(os.Args[2:])
			return
		}
		fmt.Fprintln(os.Stderr, "unknown command", os.Args[1])
		os.Exit(2)
	}
}

var commands = map[string]func([]string){}

func stdinLines() *bufio.Scanner {
	sc := bufio.NewScanner(os.Stdin)
	sc.Buffer(make([]byte, 1<<20), 1<<28)
	return sc
}
