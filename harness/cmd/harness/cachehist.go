package main

// C15 / CacheLoaders: replay of cache / loader histories with a state-by-state
// comparison of what the spec says must be observable after every operation:
// the version served (or not-found), the Load calls each loader has seen, the
// cached names.  With -obs FILE the observations are also recorded (one line per
// operation) for validation by the TLC trace spec.

import (
	"bufio"
	"encoding/json"
	"errors"
	"fmt"
	"io"
	"os"
	"sort"
	"strings"
	"time"

	"github.com/semihalev/twig"
)

type countingLoader struct {
	content map[string]int
	mtime   map[string]int64
	loads   map[string]int
	// after: called once when the next Load has read its source, before it returns (a change that races with the call)
	after func()
}

func (l *countingLoader) Load(name string) (string, error) {
	l.loads[name]++
	if v, ok := l.content[name]; ok && v != 0 {
		src := verSource(name, v)
		if f := l.after; f != nil {
			l.after = nil
			f()
		}
		return src, nil
	}
	return "", fmt.Errorf("%w: %s", twig.ErrTemplateNotFound, name)
}
func (l *countingLoader) Exists(name string) bool { return l.content[name] != 0 }

type tsLoader struct{ countingLoader }

// fsLoader: the timestamp-aware loader as a real FileSystemLoader on a scratch directory (its Load calls counted);
// put / delete write and remove files, the model's time stamps become file modification times
type fsLoader struct {
	inner interface {
		twig.Loader
		GetModifiedTime(name string) (int64, error)
	}
	dir   string
	loads map[string]int
	after func()
	// compiled: the loader is a CompiledLoader (files hold serialised compiled templates)
	compiled bool
}

// write puts version v of a name into the loader's directory (slot: search path)
func (l *fsLoader) write(slot int, name string, v int, mt int64) error {
	p := l.dir + slotDir(slot) + name
	data := []byte(verSource(name, v))
	if l.compiled {
		// what the file records about the template it was compiled from is the same for every version (a build that
		// normalises time stamps); the loader's time stamp is the file's.  The name recorded inside is the template's own,
		// not the one it was saved under (what SaveCompiled of a template registered under a second name writes)
		var err error
		data, err = twig.SerializeCompiledTemplate(&twig.CompiledTemplate{Name: "saved-as-" + name, Source: verSource(name, v), LastModified: 1, CompileTime: 1})
		if err != nil {
			return err
		}
		p += ".twig.compiled"
	}
	if err := os.WriteFile(p, data, 0o644); err != nil {
		return err
	}
	t := fsEpoch.Add(time.Duration(mt) * time.Second)
	return os.Chtimes(p, t, t)
}
func (l *fsLoader) remove(slot int, name string) {
	p := l.dir + slotDir(slot) + name
	if l.compiled {
		p += ".twig.compiled"
	}
	os.Remove(p)
}

func (l *fsLoader) Load(name string) (string, error) {
	l.loads[name]++
	src, err := l.inner.Load(name)
	if f := l.after; f != nil && err == nil {
		l.after = nil
		f()
	}
	return src, err
}
func (l *fsLoader) Exists(name string) bool                    { return l.inner.Exists(name) }
func (l *fsLoader) GetModifiedTime(name string) (int64, error) { return l.inner.GetModifiedTime(name) }

func (l *tsLoader) GetModifiedTime(name string) (int64, error) {
	if v, ok := l.content[name]; !ok || v == 0 {
		return 0, fmt.Errorf("%w: %s", twig.ErrTemplateNotFound, name)
	}
	return l.mtime[name], nil
}

type CObs struct {
	Served int              `json:"served"`
	Loads  []map[string]int `json:"loads"` // index loader-1
	Cached []string         `json:"cached"`
}

type COp struct {
	Op        string `json:"op"`
	N         string `json:"n"`
	V         int    `json:"v"`
	I         int    `json:"i"`
	B         bool   `json:"b"`
	Mt        int64  `json:"mt"`
	AnyServed bool   `json:"anyserved"` // render: what is served is not determined (loader reads and cached names are)
	Alt       int    `json:"alt"`       // renderput: the other version this call may serve
	Of        string `json:"of"`        // regalias: the name whose loaded template is registered under N
	Obs       CObs   `json:"obs"`
}

type CCase struct {
	Prop string   `json:"prop"`
	Key  string   `json:"key"`
	Tags []string `json:"tags"`
	Ops  []COp    `json:"ops"`
	FS   bool     `json:"fs"`   // loader 2 is a FileSystemLoader on a scratch directory
	Auto bool     `json:"auto"` // auto-reload is on from the start
	// Chain: the engine has ONE loader, a ChainLoader over the two (histories without auto-reload only: a chain
	// reports no time stamps); the version served and the cached names are compared, the Load-call counters are not
	Chain bool `json:"chain"`
	// FSChain: as Chain, and the first loader of the chain is a FileSystemLoader on a scratch directory
	FSChain bool `json:"fschain"`
	// CL: loader 2 is a CompiledLoader on a scratch directory
	CL bool `json:"cl"`
	// AChain: as Chain, and the first loader of the chain is a real ArrayLoader in which version 1 of every name is the
	// EMPTY source (a template that exists and renders to nothing; "the first loader that has the name wins" holds for it too)
	AChain bool `json:"achain"`
}

// sourceOf: the source of version v of a name; version 9 does not parse
func verSource(name string, v int) string {
	if v == 9 {
		return name + ":{{ 9"
	}
	return fmt.Sprintf("%s:%d", name, v)
}

func newCounting() countingLoader {
	return countingLoader{content: map[string]int{}, mtime: map[string]int64{}, loads: map[string]int{}}
}

type cacheWorld struct {
	e  *twig.Engine
	l1 *countingLoader
	l2 *tsLoader
	fs *fsLoader
	// fs1: loader 1 as a FileSystemLoader (chain variant)
	fs1 *fsLoader
	// alias[a] = n: a was registered with the template loaded under n
	alias map[string]string
	// arr1 / arrMap: loader 1 as a real ArrayLoader over arrMap (AChain variant)
	arr1   *twig.ArrayLoader
	arrMap map[string]string
}

func newCacheWorld(fs, chain, fschain, cl, achain bool) *cacheWorld {
	w := &cacheWorld{e: twig.New()}
	c1 := newCounting()
	w.l1 = &c1
	if achain {
		w.arrMap = map[string]string{}
		w.arr1 = twig.NewArrayLoader(w.arrMap)
		w.l2 = &tsLoader{newCounting()}
		w.e.RegisterLoader(twig.NewChainLoader([]twig.Loader{w.arr1, w.l2}))
		return w
	}
	if fschain {
		dir, err := os.MkdirTemp("", "verif-c15-")
		if err != nil {
			panic("harness: " + err.Error())
		}
		inner := twig.NewFileSystemLoader([]string{dir})
		inner.SetSuffix("")
		w.fs1 = &fsLoader{inner: inner, dir: dir, loads: map[string]int{}}
		w.l2 = &tsLoader{newCounting()}
		w.e.RegisterLoader(twig.NewChainLoader([]twig.Loader{w.fs1, w.l2}))
		return w
	}
	if chain {
		w.l2 = &tsLoader{newCounting()}
		w.e.RegisterLoader(twig.NewChainLoader([]twig.Loader{w.l1, w.l2}))
		return w
	}
	w.e.RegisterLoader(w.l1)
	if cl {
		dir, err := os.MkdirTemp("", "verif-c15-")
		if err != nil {
			panic("harness: " + err.Error())
		}
		os.Mkdir(dir+"/a", 0o755)
		w.fs = &fsLoader{inner: twig.NewCompiledLoader(dir + "/a"), dir: dir, loads: map[string]int{}, compiled: true}
		w.e.RegisterLoader(w.fs)
		return w
	}
	if fs {
		dir, err := os.MkdirTemp("", "verif-c15-")
		if err != nil {
			panic("harness: " + err.Error())
		}
		// two search paths: slot 2 of the model is the first, slot 3 the second
		os.Mkdir(dir+"/a", 0o755)
		os.Mkdir(dir+"/b", 0o755)
		inner := twig.NewFileSystemLoader([]string{dir + "/a", dir + "/b"})
		inner.SetSuffix("")
		w.fs = &fsLoader{inner: inner, dir: dir, loads: map[string]int{}}
		w.e.RegisterLoader(w.fs)
		return w
	}
	w.l2 = &tsLoader{newCounting()}
	w.e.RegisterLoader(w.l2)
	return w
}

func (w *cacheWorld) close() {
	if w.fs != nil {
		os.RemoveAll(w.fs.dir)
	}
	if w.fs1 != nil {
		os.RemoveAll(w.fs1.dir)
	}
}

var fsEpoch = time.Unix(1700000000, 0)

func slotDir(i int) string {
	if i == 3 {
		return "/b/"
	}
	return "/a/"
}

// apply executes one operation; served: version, 0 not found, -1 n/a, -2 other error
func (w *cacheWorld) apply(op *COp) (served int, msg string) {
	served = -1
	switch op.Op {
	case "render":
		out, err := w.e.Render(op.N, nil)
		switch {
		case err == nil && out == "" && w.arr1 != nil:
			// the empty source: version 1 of the ArrayLoader
			return 1, ""
		case err == nil:
			var name string
			var v int
			parts := strings.SplitN(out, ":", 2)
			if len(parts) == 2 {
				name = parts[0]
				fmt.Sscan(parts[1], &v)
			}
			if name != op.N && v != 0 && w.alias[op.N] == name {
				return v + 30, ""
			}
			if name != op.N || v == 0 {
				return -2, "unexpected output " + out
			}
			return v, ""
		case errors.Is(err, twig.ErrTemplateNotFound):
			return 0, ""
		default:
			// (neither output nor not-found: what a source that does not parse gives)
			return -3, err.Error()
		}
	case "register":
		delete(w.alias, op.N)
		if err := w.e.RegisterString(op.N, fmt.Sprintf("%s:%d", op.N, op.V)); err != nil {
			return -2, err.Error()
		}
	case "renderput":
		put := &COp{Op: "put", I: op.I, N: op.N, V: op.V, Mt: op.Mt}
		fire := func() { w.apply(put) }
		if w.fs != nil {
			w.fs.after = fire
		} else {
			w.l2.after = fire
		}
		served, msg = w.apply(&COp{Op: "render", N: op.N})
		if w.fs != nil && w.fs.after != nil || w.fs == nil && w.l2.after != nil {
			return -2, "harness: the render did not read the loader " + msg
		}
		return served, msg
	case "regalias":
		tm, err := w.e.Load(op.Of)
		if err != nil {
			return -2, err.Error()
		}
		w.e.RegisterTemplate(op.N, tm)
		if w.alias == nil {
			w.alias = map[string]string{}
		}
		w.alias[op.N] = op.Of
	case "regcompiled":
		lm := int64(4102444800) // far in the future
		if op.B {
			lm = 0
		}
		delete(w.alias, op.N)
		ct := &twig.CompiledTemplate{Name: op.N, Source: fmt.Sprintf("%s:%d", op.N, op.V), LastModified: lm, CompileTime: 1}
		if err := w.e.RegisterCompiledTemplate(ct); err != nil {
			return -2, err.Error()
		}
	case "put":
		if op.I == 1 && w.arr1 != nil {
			src := verSource(op.N, op.V)
			if op.V == 1 {
				src = ""
			}
			w.arr1.SetTemplate(op.N, src)
		} else if op.I == 1 && w.fs1 != nil {
			if err := os.WriteFile(w.fs1.dir+"/"+op.N, []byte(verSource(op.N, op.V)), 0o644); err != nil {
				return -2, "harness: " + err.Error()
			}
		} else if op.I == 1 {
			w.l1.content[op.N] = op.V
		} else if w.fs != nil {
			if err := w.fs.write(op.I, op.N, op.V, op.Mt); err != nil {
				return -2, "harness: " + err.Error()
			}
		} else {
			w.l2.content[op.N] = op.V
			w.l2.mtime[op.N] = op.Mt
		}
	case "delete":
		if op.I == 1 && w.arr1 != nil {
			// the array is the caller's map: removing the key removes the template
			delete(w.arrMap, op.N)
		} else if op.I == 1 && w.fs1 != nil {
			os.Remove(w.fs1.dir + "/" + op.N)
		} else if op.I == 1 {
			w.l1.content[op.N] = 0
		} else if w.fs != nil {
			w.fs.remove(op.I, op.N)
		} else {
			w.l2.content[op.N] = 0
		}
	case "setcache":
		w.e.SetCache(op.B)
	case "setautoreload":
		w.e.SetAutoReload(op.B)
	case "setdevmode":
		w.e.SetDevelopmentMode(op.B)
	}
	return served, ""
}

func (w *cacheWorld) observe(served int) CObs {
	o := CObs{Served: served}
	l2loads := map[string]int{}
	if w.fs != nil {
		l2loads = w.fs.loads
	} else {
		l2loads = w.l2.loads
	}
	for _, l := range []map[string]int{w.l1.loads, l2loads} {
		m := map[string]int{}
		for k, v := range l {
			m[k] = v
		}
		o.Loads = append(o.Loads, m)
	}
	o.Cached = w.e.GetCachedTemplateNames()
	sort.Strings(o.Cached)
	return o
}

func sameObs(want, got CObs) string {
	if want.Served != got.Served {
		return fmt.Sprintf("served %d, want %d", got.Served, want.Served)
	}
	for i := 0; i < 2; i++ {
		names := map[string]bool{}
		for k := range want.Loads[i] {
			names[k] = true
		}
		for k := range got.Loads[i] {
			names[k] = true
		}
		for k := range names {
			if want.Loads[i][k] != got.Loads[i][k] {
				return fmt.Sprintf("loader %d saw %d Load calls for %s, want %d", i+1, got.Loads[i][k], k, want.Loads[i][k])
			}
		}
	}
	w := append([]string(nil), want.Cached...)
	sort.Strings(w)
	if strings.Join(w, ",") != strings.Join(got.Cached, ",") {
		return fmt.Sprintf("cached names %v, want %v", got.Cached, w)
	}
	return ""
}

func describe(op *COp) string {
	switch op.Op {
	case "render":
		return "render(" + op.N + ")"
	case "register":
		return fmt.Sprintf("register(%s,v%d)", op.N, op.V)
	case "regcompiled":
		return fmt.Sprintf("regcompiled(%s,v%d,old=%v)", op.N, op.V, op.B)
	case "regalias":
		return fmt.Sprintf("regalias(%s=%s)", op.N, op.Of)
	case "renderput":
		return fmt.Sprintf("render(%s) while put(L%d,%s,v%d,mt%d)", op.N, op.I, op.N, op.V, op.Mt)
	case "put":
		return fmt.Sprintf("put(L%d,%s,v%d,mt%d)", op.I, op.N, op.V, op.Mt)
	case "delete":
		return fmt.Sprintf("delete(L%d,%s)", op.I, op.N)
	}
	return fmt.Sprintf("%s(%v)", op.Op, op.B)
}

func runCacheHist(c *CCase, rec *bufio.Writer, traceNo int) (res Result) {
	res = Result{Prop: c.Prop, Key: c.Key, Tags: c.Tags, Pass: true, Runs: len(c.Ops)}
	w := newCacheWorld(c.FS, c.Chain, c.FSChain, c.CL, c.AChain)
	defer w.close()
	if c.Auto {
		w.e.SetAutoReload(true)
	}
	// names whose cache entry is left open: from a render that reported a source that does not parse until the
	// name is served again (whether the older entry is kept meanwhile is not stated)
	open := map[string]bool{}
	var trail []string
	defer func() {
		if p := recover(); p != nil {
			res.Pass = false
			res.Fails = append(res.Fails, Fail{Run: fmt.Sprintf("op%d", len(trail)), Why: "panic", Got: fmt.Sprint(p), Src: strings.Join(trail, " ; ")})
		}
		twig.SetDebugLevel(twig.DebugOff)
		res.Src = strings.Join(trail, " ; ")
	}()
	for i := range c.Ops {
		op := &c.Ops[i]
		trail = append(trail, describe(op))
		served, msg := w.apply(op)
		got := w.observe(served)
		if rec != nil {
			b, _ := json.Marshal(map[string]interface{}{"t": traceNo, "first": i == 0, "op": op.Op, "n": op.N, "v": op.V, "i": op.I, "b": op.B, "mt": op.Mt, "obs": got})
			rec.Write(b)
			rec.WriteByte('\n')
		}
		if len(op.Obs.Loads) == 2 {
			want := op.Obs
			if c.Chain || c.FSChain || c.AChain {
				want.Loads = got.Loads
			}
			if op.AnyServed {
				want.Served = got.Served
			}
			if op.Op == "renderput" && got.Served == op.Alt {
				want.Served = op.Alt
			}
			if op.Op == "render" && want.Served == -3 {
				open[op.N] = true
			} else if (op.Op == "render" && want.Served > 0) || op.Op == "register" || op.Op == "regcompiled" || op.Op == "regalias" {
				delete(open, op.N)
			}
			if len(open) > 0 {
				keep := func(names []string) (out []string) {
					for _, n := range names {
						if !open[n] {
							out = append(out, n)
						}
					}
					return
				}
				want.Cached = keep(want.Cached)
				cmp := got
				cmp.Cached = keep(got.Cached)
				if d := sameObs(want, cmp); d != "" {
					res.Pass = false
					res.Fails = append(res.Fails, Fail{Run: fmt.Sprintf("op%d", i+1), Why: "state-differs", Got: d + " " + msg, Src: strings.Join(trail, " ; ")})
					return
				}
				continue
			}
			if d := sameObs(want, got); d != "" {
				res.Pass = false
				res.Fails = append(res.Fails, Fail{Run: fmt.Sprintf("op%d", i+1), Why: "state-differs", Got: d + " " + msg, Src: strings.Join(trail, " ; ")})
				return
			}
		}
	}
	return
}

func cmdCacheHist(args []string) {
	var rec *bufio.Writer
	for i := 0; i < len(args); i++ {
		if args[i] == "-obs" && i+1 < len(args) {
			f, err := os.Create(args[i+1])
			if err != nil {
				fmt.Fprintln(os.Stderr, "harness:", err)
				os.Exit(2)
			}
			defer f.Close()
			rec = bufio.NewWriterSize(f, 1<<20)
			defer rec.Flush()
			i++
		}
	}
	twig.SetDebugWriter(io.Discard)
	sc := stdinLines()
	w := bufio.NewWriterSize(os.Stdout, 1<<20)
	defer w.Flush()
	enc := json.NewEncoder(w)
	n := 0
	for {
		line, ok := readLine(sc)
		if !ok {
			break
		}
		var c CCase
		if err := json.Unmarshal([]byte(line), &c); err != nil {
			fmt.Fprintln(os.Stderr, "harness: bad case:", err)
			os.Exit(2)
		}
		n++
		res, hung := guarded(20*time.Second, func() Result { return runCacheHist(&c, rec, n) }, func() Result { return hangResult(c.Prop, c.Key, c.Tags, "cache history") })
		enc.Encode(res)
		w.Flush()
		if hung {
			os.Exit(3)
		}
	}
}

func init() { commands["cachehist"] = cmdCacheHist }
