package main

// C20 / AttrCache: lookup histories replayed against the real attribute cache,
// which the verif hook sets to the capacity of the TLC model.  The Go types
// below are the shapes declared in AttrCache.tla (Shapes); the harness only
// builds the objects and prints {{ o.name }} -- what the value must be comes
// from the model (Member).

import (
	"bufio"
	"encoding/json"
	"fmt"
	"io"
	"os"
	"reflect"
	"strings"
	"time"

	"github.com/semihalev/twig"
)

type S1 struct {
	X int
	Y string
}
type S2 struct {
	Y string
	X int
}
type Base struct {
	W string
	X int
}
type S3 struct {
	Z int
	Base
}
type S4 struct {
	Base
	X int
}
type S5 struct {
	S3
	Q int
}
type S6 struct {
	X      int
	hidden int
}

func (s S6) Name() string    { return "m" }
func (s *S6) PName() string  { return "p" }
func (s *S6) AName() string  { return "a" }
func (s *S6) ARename(string) {}

type S7 struct {
	*Base
	K int
}

// S9: a pointer-receiver method that hands out a pointer into its receiver
type S9 struct {
	X     int
	inner Base
}

func (s *S9) Cust() *Base { return &s.inner }

// S10: V reached through four embedded structs
type D1 struct {
	T int
	V string
}
type D2 struct {
	D1
	U int
}
type D3 struct {
	R int
	D2
}
type D4 struct{ D3 }
type S10 struct {
	Q int
	D4
}

// S11: the embedded struct's type is unexported, its fields are exported
type ubase struct {
	W string
	X int
}
type S11 struct {
	ubase
	K int
}

// S12: X, 128 filler fields, Y at position 130, Base embedded at position 131 (the type is made once)
var s12Type = func() reflect.Type {
	fs := []reflect.StructField{{Name: "X", Type: reflect.TypeOf(0)}}
	for i := 1; i <= 128; i++ {
		fs = append(fs, reflect.StructField{Name: fmt.Sprintf("Fill%03d", i), Type: reflect.TypeOf(0)})
	}
	fs = append(fs, reflect.StructField{Name: "Y", Type: reflect.TypeOf("")})
	fs = append(fs, reflect.StructField{Name: "Base", Type: reflect.TypeOf(Base{}), Anonymous: true})
	return reflect.StructOf(fs)
}()

// S13: a field whose name is not ASCII
type S13 struct {
	Élan string
	X    int
	Ảnh  string
}

func (S13) Ẩn() string { return "V" }

// LabelKey: a defined string type as the key type of a map
type LabelKey string

// spell: how a name of the model is written in a template ("Uelan", "uelan" stand for names outside ASCII)
func spell(n string) string {
	switch n {
	case "Uelan":
		return "Élan"
	case "uelan":
		return "élan"
	case "Uviet":
		return "Ảnh"
	case "Uvietm":
		return "Ẩn"
	}
	return n
}

func shapeValue(sh string) interface{} {
	switch sh {
	case "S13":
		return S13{Élan: "e", X: 17, Ảnh: "v"}
	case "S14": // an unnamed struct type that embeds S6 by value
		return struct {
			S6
			Q int
		}{S6{X: 77, hidden: 99}, 5}
	case "S11":
		return S11{ubase: ubase{W: "w", X: 33}, K: 21}
	case "S12":
		v := reflect.New(s12Type).Elem()
		v.Field(0).SetInt(41)
		for i := 1; i <= 128; i++ {
			v.Field(i).SetInt(int64(i))
		}
		v.Field(129).SetString("4")
		v.Field(130).Set(reflect.ValueOf(Base{W: "w", X: 33}))
		return v.Interface()
	case "S10":
		return S10{Q: 15, D4: D4{D3{R: 14, D2: D2{D1: D1{T: 12, V: "v"}, U: 13}}}}
	case "S9":
		return S9{X: 91, inner: Base{W: "w", X: 33}}
	case "S9alt":
		return S9{X: 91, inner: Base{W: "v", X: 34}}
	case "S1":
		return S1{X: 11, Y: "1"}
	case "S2":
		return S2{Y: "2", X: 22}
	case "S3":
		return S3{Z: 44, Base: Base{W: "w", X: 33}}
	case "S4":
		return S4{Base: Base{W: "w", X: 33}, X: 55}
	case "S5":
		return S5{S3: S3{Z: 44, Base: Base{W: "w", X: 33}}, Q: 66}
	case "S6":
		return S6{X: 77, hidden: 99}
	case "S7":
		return S7{Base: &Base{W: "w", X: 33}, K: 88}
	case "S7nil":
		return S7{K: 88}
	}
	return nil
}

type AObj struct {
	K      string `json:"k"`
	Sh     string `json:"sh"`
	Ptr    bool   `json:"ptr"`
	G      string `json:"g"`
	EmbNil bool   `json:"embnil"`
	Alt    bool   `json:"alt"`
}

func buildAObj(o AObj) interface{} {
	if o.K == "map" {
		switch o.G {
		case "mss":
			m := map[string]string{"X": "x", "Y": "y", "élan": "u"}
			if o.Ptr {
				return &m
			}
			return m
		case "mnk":
			return map[LabelKey]string{"X": "x", "Y": "y", "élan": "u"}
		case "msi":
			return map[string]int{"X": 8, "Y": 9, "élan": 3}
		case "mii":
			return map[interface{}]interface{}{"X": 8, "Y": 9, 1: "one", 2.5: "f", "élan": 3}
		}
		m := map[string]interface{}{"X": 8, "Y": 9, "0": 7, "": 6, "1": 5, "élan": 3}
		if o.Ptr {
			return &m
		}
		return m
	}
	sh := o.Sh
	if o.EmbNil {
		sh += "nil"
	}
	if o.Alt {
		sh += "alt"
	}
	v := shapeValue(sh)
	if o.Ptr && v != nil {
		p := reflect.New(reflect.TypeOf(v))
		p.Elem().Set(reflect.ValueOf(v))
		return p.Interface()
	}
	return v
}

type AOp struct {
	Obj   AObj   `json:"obj"`
	N     string `json:"n"`
	Want  []int  `json:"want"`
	Any   bool   `json:"any"`   // the lookup is made but its result is not determined by the property
	Flood int    `json:"flood"` // >0: look up this many fresh (type, name) pairs first
	Sb    bool   `json:"sb"`    // the lookup is made by a template that is included sandboxed (an engine with a policy)
}

type ACase struct {
	Prop string   `json:"prop"`
	Key  string   `json:"key"`
	Tags []string `json:"tags"`
	Cap  int      `json:"cap"`
	Ops  []AOp    `json:"ops"`
	// Forms: every lookup is also written with the object reached through a list element, a map entry and parentheses
	Forms bool `json:"forms"`
}

var floodCounter int

// flood looks up n distinct (type, name) pairs on freshly created struct types
func flood(e *twig.Engine, n int) error {
	for i := 0; i < n; i++ {
		floodCounter++
		name := fmt.Sprintf("F%d", floodCounter)
		t := reflect.StructOf([]reflect.StructField{{Name: name, Type: reflect.TypeOf(0)}})
		v := reflect.New(t).Elem()
		v.Field(0).SetInt(int64(floodCounter))
		if err := e.RegisterString("flood", "{{ o."+name+" }}"); err != nil {
			return err
		}
		out, err := e.Render("flood", map[string]interface{}{"o": v.Interface()})
		if err != nil || out != fmt.Sprint(floodCounter) {
			return fmt.Errorf("flood lookup %s gave %q, %v", name, out, err)
		}
	}
	return nil
}

func runAttrHist(c *ACase) (res Result) {
	res = Result{Prop: c.Prop, Key: c.Key, Tags: c.Tags, Pass: true, Runs: len(c.Ops)}
	var trail []string
	defer func() {
		if p := recover(); p != nil {
			res.Pass = false
			res.Fails = append(res.Fails, Fail{Run: fmt.Sprintf("op%d", len(trail)), Why: "panic", Got: fmt.Sprint(p), Src: strings.Join(trail, " ; ")})
		}
		res.Src = strings.Join(trail, " ; ")
	}()
	if c.Cap > 0 {
		twig.VerifSetAttrCacheMax(c.Cap)
	}
	e := twig.New()
	// every lookup is repeated at the end in ONE render that keeps all results alive at the same time
	var jointSrc, jointWant strings.Builder
	jointCtx := map[string]interface{}{}
	for i, op := range c.Ops {
		if op.Flood > 0 {
			trail = append(trail, fmt.Sprintf("flood(%d)", op.Flood))
			if err := flood(e, op.Flood); err != nil {
				res.Pass = false
				res.Fails = append(res.Fails, Fail{Run: fmt.Sprintf("op%d", i+1), Why: "flood", Got: err.Error(), Src: strings.Join(trail, " ; ")})
				return
			}
			continue
		}
		obj := buildAObj(op.Obj)
		desc := op.Obj.Sh
		if op.Obj.K == "map" {
			desc = "map:" + op.Obj.G
		} else if op.Obj.Ptr {
			desc = "*" + desc
		}
		member := textOf(op.Want, nil, false)
		forms := []string{"attr", "item", "defined"}
		if c.Forms {
			forms = append(forms, "listelem", "mapentry", "paren")
		}
		name := spell(op.N)
		for _, form := range forms {
			if form == "item" && op.Obj.K != "map" {
				continue
			}
			// (whether a field promoted from an embedded pointer that is nil counts as defined is not stated)
			if form == "defined" && (op.Any || op.Obj.EmbNil) {
				continue
			}
			want := member
			src := "{{ o." + name + " }}"
			switch form {
			case "item":
				src = "{{ o['" + name + "'] }}"
			case "listelem":
				src = "{{ l[0]." + name + " }}"
			case "mapentry":
				src = "{{ m['k']." + name + " }}"
			case "paren":
				src = "{{ (o)." + name + " }}"
			}
			if form == "defined" {
				// the member exists iff the lookup yields something (no member of the shapes holds null)
				src = "{{ o." + name + " is defined ? 'D' : 'U' }}"
				want = "U"
				if len(op.Want) > 0 {
					want = "D"
				}
			}
			trail = append(trail, desc+"."+op.N)
			if op.Sb {
				trail[len(trail)-1] += "(sandboxed)"
			}
			if err := e.RegisterString("t", src); err != nil {
				res.Pass = false
				res.Fails = append(res.Fails, Fail{Run: fmt.Sprintf("op%d", i+1), Why: "parse", Got: err.Error(), Src: strings.Join(trail, " ; ")})
				return
			}
			entry := "t"
			if op.Sb {
				// an engine of its own with the default policy: the lookup happens below a sandboxed include
				e.RegisterString("tsb", "{% include 't' sandboxed %}")
				e.EnableSandbox(twig.NewDefaultSecurityPolicy())
				entry = "tsb"
			}
			out, err := e.Render(entry, map[string]interface{}{"o": obj, "l": []interface{}{obj}, "m": map[string]interface{}{"k": obj}})
			if err == nil && form == "attr" {
				fmt.Fprintf(&jointSrc, "{%% set r%d = o%d.%s %%}", i, i, name)
				jointCtx[fmt.Sprintf("o%d", i)] = obj
				jointWant.WriteString(out + "|")
			}
			if op.Any {
				continue
			}
			if err != nil || out != want {
				res.Pass = false
				res.Fails = append(res.Fails, Fail{Run: fmt.Sprintf("op%d", i+1), Why: "member", Got: fmt.Sprintf("%q err=%v", out, err), Want: want, Src: strings.Join(trail, " ; ")})
				return
			}
		}
	}
	if jointSrc.Len() > 0 {
		for i := range c.Ops {
			if _, ok := jointCtx[fmt.Sprintf("o%d", i)]; ok {
				fmt.Fprintf(&jointSrc, "{{ r%d }}|", i)
			}
		}
		trail = append(trail, "joint")
		if err := e.RegisterString("joint", jointSrc.String()); err == nil {
			out, err := e.Render("joint", jointCtx)
			if err != nil || out != jointWant.String() {
				res.Pass = false
				res.Fails = append(res.Fails, Fail{Run: "joint", Why: "results-not-independent", Got: fmt.Sprintf("%q err=%v", out, err), Want: jointWant.String(),
					Src: strings.Join(trail, " ; ") + " ; " + jointSrc.String()})
				return
			}
		}
	}
	cur, entries, max := twig.VerifAttrCacheStats()
	if cur != entries || (c.Cap > 0 && entries > max) {
		res.Pass = false
		res.Fails = append(res.Fails, Fail{Run: "end", Why: "cache-accounting", Got: fmt.Sprintf("currSize=%d entries=%d max=%d", cur, entries, max), Src: strings.Join(trail, " ; ")})
	}
	return
}

func cmdAttrHist(args []string) {
	twig.SetDebugWriter(io.Discard)
	sc := stdinLines()
	w := bufio.NewWriterSize(os.Stdout, 1<<20)
	defer w.Flush()
	enc := json.NewEncoder(w)
	for {
		line, ok := readLine(sc)
		if !ok {
			break
		}
		var c ACase
		if err := json.Unmarshal([]byte(line), &c); err != nil {
			fmt.Fprintln(os.Stderr, "harness: bad case:", err)
			os.Exit(2)
		}
		res, hung := guarded(20*time.Second, func() Result { return runAttrHist(&c) }, func() Result { return hangResult(c.Prop, c.Key, c.Tags, "lookup history") })
		enc.Encode(res)
		w.Flush()
		if hung {
			os.Exit(3)
		}
	}
}

func init() { commands["attrhist"] = cmdAttrHist }
