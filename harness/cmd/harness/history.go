package main

// C01 / EngineLife: replay of operation histories and the pristine oracle.
//
//	harness oracle   stdin: header line + ONE key line  -> one JSON result (run in a fresh process per key)
//	harness history -oracle FILE   stdin: header line + history cases -> ndjson results
//
// The harness executes operations and compares render results with the oracle's
// result for the key TLC computed; it knows nothing about what the sources mean.

import (
	"bufio"
	"bytes"
	"encoding/json"
	"fmt"
	"io"
	"os"
	"strconv"
	"strings"
	"time"

	"github.com/semihalev/twig"
)

type Header struct {
	Hdr     bool              `json:"hdr"`
	Prop    string            `json:"prop"`
	Sources [][]Piece         `json:"sources"` // index id-1
	Ctxs    []json.RawMessage `json:"ctxs"`    // index c-1
	Loader  map[string]int    `json:"loader"`  // name -> source id
	Policy  *struct {
		Filters   []string `json:"filters"`
		Functions []string `json:"functions"`
	} `json:"policy"`
	FS       []map[string]int           `json:"fs"`       // search paths of a file-system loader, in order: name -> source id
	NoPolicy []int                      `json:"nopolicy"` // engines without a security policy
	Extra    map[string]json.RawMessage `json:"-"`
}

func (h *Header) src(id int) string {
	if id < 1 || id > len(h.Sources) {
		return ""
	}
	return sourceOf(h.Sources[id-1], nil)
}

func (h *Header) ctx(c int) map[string]interface{} {
	if c < 1 || c > len(h.Ctxs) {
		return map[string]interface{}{}
	}
	m, _ := scopeOf(h.Ctxs[c-1])
	return m
}

type OKey struct {
	Regs  map[string]int `json:"regs"`
	Cache bool           `json:"cache"`
	Debug bool           `json:"debug"`
	What  struct {
		Name string `json:"name"`
		Src  int    `json:"src"`
	} `json:"what"`
	C   int   `json:"c"`
	Pol *bool `json:"pol"` // the engine has the header's security policy (default: yes)
}

type OResult struct {
	Ok   bool   `json:"ok"`
	Out  string `json:"out"`
	Kind string `json:"kind"`
	Msg  string `json:"msg,omitempty"`
}

// scratch directories of the file-system loaders created by newEngine (removed by cleanupScratch)
var scratchDirs []string

func cleanupScratch() {
	for _, d := range scratchDirs {
		os.RemoveAll(d)
	}
	scratchDirs = nil
}

func newEngine(h *Header, withPolicy bool) *twig.Engine {
	e := twig.New()
	srcs := map[string]string{}
	for name, id := range h.Loader {
		srcs[engineName(name)] = h.src(id) // (pm stands for p/m ...)
	}
	e.RegisterLoader(twig.NewArrayLoader(srcs))
	if len(h.FS) > 0 {
		root, err := os.MkdirTemp("", "verif-c01-")
		if err != nil {
			panic("harness: " + err.Error())
		}
		scratchDirs = append(scratchDirs, root)
		var paths []string
		for i, files := range h.FS {
			dir := fmt.Sprintf("%s/p%d", root, i)
			os.Mkdir(dir, 0o755)
			for name, id := range files {
				os.WriteFile(dir+"/"+name, []byte(h.src(id)), 0o644)
			}
			paths = append(paths, dir)
		}
		fs := twig.NewFileSystemLoader(paths)
		fs.SetSuffix("")
		e.RegisterLoader(fs)
	}
	// every engine has its own value of the global g (the engine with the policy is engine 1)
	if withPolicy {
		e.AddGlobal("g", "G1")
	} else {
		e.AddGlobal("g", "G2")
	}
	if h.Policy != nil && withPolicy {
		e.EnableSandbox(makePolicy(Cfg{AllowF: h.Policy.Filters, AllowFn: h.Policy.Functions}))
	}
	return e
}

func (h *Header) hasPolicy(engine int) bool {
	for _, e := range h.NoPolicy {
		if e == engine {
			return false
		}
	}
	return true
}

func readLine(sc *bufio.Scanner) (string, bool) {
	for sc.Scan() {
		line := strings.TrimSpace(sc.Text())
		if line == "" {
			continue
		}
		if line[0] == '"' {
			if u, err := strconv.Unquote(line); err == nil {
				line = u
			}
		}
		return line, true
	}
	return "", false
}

func readHeader(sc *bufio.Scanner) *Header {
	line, ok := readLine(sc)
	if !ok {
		fmt.Fprintln(os.Stderr, "harness: missing header")
		os.Exit(2)
	}
	var h Header
	if err := json.Unmarshal([]byte(line), &h); err != nil || !h.Hdr {
		fmt.Fprintln(os.Stderr, "harness: bad header:", err)
		os.Exit(2)
	}
	return &h
}

func toOResult(out string, err error) OResult {
	if err != nil {
		return OResult{Ok: false, Out: out, Kind: classify(err), Msg: short(err.Error())}
	}
	return OResult{Ok: true, Out: out}
}

// pristine: the same templates and configuration on a freshly created engine,
// rendered exactly once (the caller runs this in a fresh process).
func pristine(h *Header, k *OKey) (res OResult) {
	defer func() {
		if p := recover(); p != nil {
			res = OResult{Ok: false, Kind: "panic", Msg: fmt.Sprint(p)}
		}
	}()
	twig.SetDebugWriter(io.Discard)
	defer cleanupScratch()
	e := newEngine(h, k.Pol == nil || *k.Pol)
	for name, id := range k.Regs {
		if id != 0 {
			if err := e.RegisterString(name, h.src(id)); err != nil {
				return OResult{Ok: false, Kind: "parse", Msg: err.Error()}
			}
		}
	}
	e.SetCache(k.Cache)
	if k.Debug {
		e.SetDebug(true)
	}
	ctx := h.ctx(k.C)
	if k.What.Src != 0 {
		t, err := e.ParseTemplate(h.src(k.What.Src))
		if err != nil {
			return OResult{Ok: false, Kind: "parse", Msg: err.Error()}
		}
		return toOResult(t.Render(ctx))
	}
	return toOResult(e.Render(engineName(k.What.Name), ctx))
}

func cmdOracle(args []string) {
	sc := stdinLines()
	h := readHeader(sc)
	line, ok := readLine(sc)
	if !ok {
		os.Exit(2)
	}
	var k OKey
	if err := json.Unmarshal([]byte(line), &k); err != nil {
		fmt.Fprintln(os.Stderr, "harness: bad key:", err)
		os.Exit(2)
	}
	b, _ := json.Marshal(pristine(h, &k))
	fmt.Println(string(b))
}

type HOp struct {
	Op string `json:"op"`
	E  int    `json:"e"`
	N  string `json:"n"`
	S  int    `json:"s"`
	// Route: how a "reg" operation puts the source under the name ("" / "string": RegisterString; "template": ParseTemplate +
	// RegisterTemplate; "compiled": RegisterCompiledTemplate; "data": LoadFromCompiledData of the serialised form)
	Route string `json:"route"`
	Ok    bool   `json:"ok"`
	Keep  bool   `json:"keep"`
	C     int    `json:"c"`
	Via   string `json:"via"`
	Key   string `json:"key"`
	H     int    `json:"h"`
	B     bool   `json:"b"`
}

type HCase struct {
	Prop string   `json:"prop"`
	Key  string   `json:"key"`
	Tags []string `json:"tags"`
	Ops  []HOp    `json:"ops"`
}

func runHistory(h *Header, c *HCase, oracle map[string]OResult) (res Result) {
	res = Result{Prop: c.Prop, Key: c.Key, Tags: c.Tags, Pass: true, Runs: len(c.Ops)}
	engines := map[int]*twig.Engine{}
	eng := func(i int) *twig.Engine {
		if e, ok := engines[i]; ok {
			return e
		}
		e := newEngine(h, h.hasPolicy(i))
		engines[i] = e
		return e
	}
	defer cleanupScratch()
	var handles []*twig.Template
	var trail []string
	fail := func(i int, why, got, want string) {
		res.Pass = false
		res.Fails = append(res.Fails, Fail{Run: fmt.Sprintf("op%d", i+1), Why: why, Got: short(got), Want: short(want), Src: strings.Join(trail, " ; ")})
	}
	defer func() {
		if p := recover(); p != nil {
			fail(len(trail), "panic", fmt.Sprint(p), "")
		}
		twig.SetDebugLevel(twig.DebugOff)
	}()
	for i, op := range c.Ops {
		desc := op.Op
		switch op.Op {
		case "reg":
			desc = fmt.Sprintf("reg(e%d,%s,src%d)", op.E, op.N, op.S)
			trail = append(trail, desc)
			var err error
			switch op.Route {
			case "template":
				desc += "/template"
				var t *twig.Template
				if t, err = eng(op.E).ParseTemplate(h.src(op.S)); err == nil {
					eng(op.E).RegisterTemplate(op.N, t)
				}
			case "compiled":
				desc += "/compiled"
				err = eng(op.E).RegisterCompiledTemplate(&twig.CompiledTemplate{Name: op.N, Source: h.src(op.S), LastModified: 1, CompileTime: 1})
			case "data":
				desc += "/data"
				var d []byte
				if d, err = twig.SerializeCompiledTemplate(&twig.CompiledTemplate{Name: op.N, Source: h.src(op.S), LastModified: 1, CompileTime: 1}); err == nil {
					err = eng(op.E).LoadFromCompiledData(d)
				}
			default:
				err = eng(op.E).RegisterString(op.N, h.src(op.S))
			}
			trail[len(trail)-1] = desc
			if (err == nil) != op.Ok {
				fail(i, "register-outcome", fmt.Sprint(err), fmt.Sprint(op.Ok))
			}
		case "parse":
			desc = fmt.Sprintf("parse(e%d,src%d,keep=%v)", op.E, op.S, op.Keep)
			trail = append(trail, desc)
			t, err := eng(op.E).ParseTemplate(h.src(op.S))
			if (err == nil) != op.Ok {
				fail(i, "parse-outcome", fmt.Sprint(err), fmt.Sprint(op.Ok))
			}
			if op.Keep && err == nil {
				handles = append(handles, t)
			}
		case "render", "renderh":
			ctx := h.ctx(op.C)
			poolCaller(ctx)
			var out string
			var err error
			if op.Op == "renderh" {
				desc = fmt.Sprintf("renderh(h%d,c%d)", op.H, op.C)
				trail = append(trail, desc)
				if op.H < 1 || op.H > len(handles) {
					continue
				}
				out, err = handles[op.H-1].Render(ctx)
			} else {
				desc = fmt.Sprintf("render(e%d,%s,c%d,%s)", op.E, op.N, op.C, op.Via)
				trail = append(trail, desc)
				if op.Via == "renderto" {
					var b bytes.Buffer
					err = eng(op.E).RenderTo(&b, engineName(op.N), ctx)
					out = b.String()
					if err != nil {
						out = ""
					}
				} else {
					out, err = eng(op.E).Render(engineName(op.N), ctx)
				}
			}
			got := toOResult(out, err)
			want, ok := oracle[op.Key]
			if !ok {
				fail(i, "harness: no oracle for key", op.Key, "")
				continue
			}
			if got.Ok != want.Ok || got.Out != want.Out || got.Kind != want.Kind {
				fail(i, "differs-from-pristine", fmt.Sprintf("ok=%v kind=%s out=%q %s", got.Ok, got.Kind, got.Out, got.Msg),
					fmt.Sprintf("ok=%v kind=%s out=%q", want.Ok, want.Kind, want.Out))
			}
		case "reghandle":
			trail = append(trail, fmt.Sprintf("reghandle(e%d,h%d)", op.E, op.H))
			if op.H >= 1 && op.H <= len(handles) {
				eng(op.E).RegisterTemplate("nh", handles[op.H-1])
			}
		case "setcache":
			trail = append(trail, fmt.Sprintf("setcache(e%d,%v)", op.E, op.B))
			eng(op.E).SetCache(op.B)
		case "setdebug":
			trail = append(trail, fmt.Sprintf("setdebug(e%d,%v)", op.E, op.B))
			eng(op.E).SetDebug(op.B)
		case "gc":
			trail = append(trail, "gc")
			poolGC()
		}
	}
	res.Src = strings.Join(trail, " ; ")
	return
}

func cmdHistory(args []string) {
	oraclePath := ""
	for i := 0; i < len(args); i++ {
		if args[i] == "-oracle" && i+1 < len(args) {
			oraclePath = args[i+1]
			i++
		}
	}
	oracle := map[string]OResult{}
	if oraclePath != "" {
		b, err := os.ReadFile(oraclePath)
		if err != nil {
			fmt.Fprintln(os.Stderr, "harness:", err)
			os.Exit(2)
		}
		if err := json.Unmarshal(b, &oracle); err != nil {
			fmt.Fprintln(os.Stderr, "harness: bad oracle file:", err)
			os.Exit(2)
		}
	}
	twig.SetDebugWriter(io.Discard)
	sc := stdinLines()
	h := readHeader(sc)
	w := bufio.NewWriterSize(os.Stdout, 1<<20)
	defer w.Flush()
	enc := json.NewEncoder(w)
	for {
		line, ok := readLine(sc)
		if !ok {
			break
		}
		var c HCase
		if err := json.Unmarshal([]byte(line), &c); err != nil {
			fmt.Fprintln(os.Stderr, "harness: bad history:", err)
			os.Exit(2)
		}
		if len(c.Ops) == 0 {
			continue
		}
		poolCase(c.Key)
		res, hung := guarded(20*time.Second, func() Result { return runHistory(h, &c, oracle) }, func() Result { return hangResult(c.Prop, c.Key, c.Tags, "history") })
		enc.Encode(res)
		poolCaseDone()
		w.Flush() // a fatal runtime error in the engine must not lose the results so far
		if hung {
			poolTraceClose()
			os.Exit(3)
		}
	}
}

func init() {
	commands["oracle"] = cmdOracle
	commands["history"] = cmdHistory
}
