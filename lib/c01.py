"""C01: rendering is repeatable and independent of history (EngineLife.tla)."""
import hashlib
import json
import os
import subprocess
import time
from concurrent.futures import ThreadPoolExecutor

import vcore as V


def _oracle_one(harness, header_line, key):
    p = subprocess.run([harness, "oracle"], input=header_line + "\n" + key + "\n", capture_output=True, text=True, timeout=120)
    if p.returncode != 0:
        raise V.Broken("oracle process failed for key %s: %s" % (key[:200], p.stderr[-500:]))
    return json.loads(p.stdout)


def compute_oracle(harness, header_line, keys):
    """One fresh process per key: the pristine result of (templates, configuration, name, context)."""
    keys = sorted(keys)
    with ThreadPoolExecutor(max_workers=V.NCPU) as ex:
        results = list(ex.map(lambda k: _oracle_one(harness, header_line, k), keys))
    return dict(zip(keys, results))


def run_histories(harness, scratch, header_line, case_lines, oracle_path, nworkers=V.NCPU, tag="h", pool_path=None):
    shares = [case_lines[i::nworkers] for i in range(nworkers)]
    procs = []
    for i, share in enumerate(shares):
        if not share:
            continue
        inp = scratch.path("%s-in-%d.ndjson" % (tag, i))
        with open(inp, "w") as f:
            f.write(header_line + "\n")
            f.writelines(l if l.endswith("\n") else l + "\n" for l in share)
        outp = scratch.path("%s-out-%d.ndjson" % (tag, i))
        fo = open(outp, "w")
        env = dict(os.environ)
        if pool_path:
            env["VERIF_POOL_TRACE"] = outp + ".pool"     # traffic of the render-context pools (Trace_Pool.tla)
        p = subprocess.Popen([harness, "history", "-oracle", oracle_path], stdin=open(inp), stdout=fo, stderr=subprocess.PIPE, env=env)
        procs.append((i, share, p, fo, outp))
    results = []
    for (i, share, p, fo, outp) in procs:
        _, err = p.communicate()
        fo.close()
        with open(outp) as f:
            got = [json.loads(l) for l in f if l.strip()]
        if pool_path and os.path.exists(outp + ".pool"):
            import shutil
            with open(outp + ".pool") as fsrc, open(pool_path, "a") as fdst:
                shutil.copyfileobj(fsrc, fdst)
            os.unlink(outp + ".pool")
        if p.returncode != 0:
            msg = err.decode(errors="replace")
            if msg.startswith("harness:") or len(got) >= len(share):
                raise V.Broken("history worker died rc=%s: %s" % (p.returncode, msg[-1500:]))
            # the process died inside the engine (fatal runtime error): the history it was running fails;
            # the histories behind it in this share are run by a fresh worker
            crashed = json.loads(share[len(got)])
            got.append(dict(prop="C01", key=crashed.get("key"), tags=crashed.get("tags"), runs=len(crashed["ops"]),
                            src="(process died) " + " ; ".join(o["op"] for o in crashed["ops"]), **{"pass": False},
                            fails=[dict(run="", why="crash", got="\n".join(msg.splitlines()[:5])[:600], want="", src="")]))
            rest = share[len(got):]
            if rest:
                more, _ = run_histories(harness, scratch, header_line, rest, oracle_path, nworkers=1, tag=tag + "r%d" % i)
                for m in more:
                    m.pop("_line", None)
                    m.pop("_share", None)
                got.extend(more)
        if len(got) != len(share):
            raise V.Broken("history worker returned %d results for %d histories" % (len(got), len(share)))
        for r, line in zip(got, share):
            r["_line"] = line
            r["_share"] = i
        results.extend(got)
    return results, shares


def run(prop, tier, seed, opts):
    t0 = time.time()
    scratch = V.Scratch()
    violations, notes = [], []
    try:
        harness = V.build_harness(scratch)
        cfg = "MC_C01_%s.cfg" % tier
        res = V.run_tlc(scratch, "EngineLife", cfg, workers=8, timeout=1500, sub="tlc-life")
        V.tlc_ok(res, "EngineLife/" + cfg)
        with open(res["cases"]) as f:
            lines = [l for l in f if l.strip()]
        header_line = None
        case_lines = []
        for l in lines:
            if '"hdr":true' in l[:400] or json.loads(l).get("hdr"):
                header_line = l.strip()
            else:
                case_lines.append(l)
        if header_line is None or not case_lines:
            raise V.Broken("EngineLife emitted no header / no histories")
        # long random walks of the same state machine (TLC simulation): 24 operations each
        # (the thorough tier goes deep by walks: every history of 4 operations is 3.6 million histories / 5 GB since the source
        # table grew -- measured, TLC alone needs minutes and the replay hours; the exhaustive bound is 3 in both tiers)
        nwalks = 40 if tier == "quick" else 2500
        sres = V.run_tlc(scratch, "EngineLife", "MC_C01_sim.cfg", workers=1, timeout=900, sub="tlc-sim",
                         extra=["-simulate", "num=%d" % nwalks, "-depth", "25", "-seed", str(seed)])
        V.tlc_ok(sres, "EngineLife/MC_C01_sim.cfg")
        # behaviours that start after a prepared prefix of registrations (pairs of sources that reach each other, a
        # policy-less second engine) and continue with every sequence of 3 (4) renders / GCs
        pcfg = "MC_C01_prep.cfg" if tier == "quick" else "MC_C01_prep_thorough.cfg"
        pres = V.run_tlc(scratch, "EngineLife", pcfg, workers=8, timeout=1500, sub="tlc-prep")
        V.tlc_ok(pres, "EngineLife/" + pcfg)
        with open(pres["cases"]) as f:
            for l in f:
                if l.strip() and '"hdr":true' not in l[:400]:
                    case_lines.append(l)
        n_exhaustive = len(case_lines)
        with open(sres["cases"]) as f:
            for l in f:
                if l.strip() and '"hdr":true' not in l[:400]:
                    case_lines.append(l)
        n_walk_histories = len(case_lines) - n_exhaustive
        # distinct keys -> pristine oracle (fresh process per key)
        keys = set()
        nrenders = 0
        for l in case_lines:
            for op in json.loads(l)["ops"]:
                if op["op"] in ("render", "renderh"):
                    keys.add(op["key"])
                    nrenders += 1
        oracle = compute_oracle(harness, header_line, keys)
        oracle_path = scratch.path("oracle.json")
        with open(oracle_path, "w") as f:
            json.dump(oracle, f)
        # several seeds shuffle which histories share a process and in which order
        import random
        rnd = random.Random(seed)
        rnd.shuffle(case_lines)
        pool_path = scratch.path("pool.ndjson")
        # (the pool traffic of the first 150 000 histories is recorded and validated: the recording is a file of its own size)
        traced, untraced = case_lines[:150000], case_lines[150000:]
        results, shares = run_histories(harness, scratch, header_line, traced, oracle_path, pool_path=pool_path)
        if untraced:
            r2, s2 = run_histories(harness, scratch, header_line, untraced, oracle_path, tag="u")
            results, shares = results + r2, shares + s2
        failing = [r for r in results if not r["pass"]]
        # the traffic of the render-context pools during all those histories, against PoolDiscipline (the pools are what
        # carries state from one render to the next)
        import check as CK
        pool_info, pool_bad = CK.check_pool_trace(scratch, pool_path, "histories", tier == "thorough" or opts.get("selftest"))
        by_digest = {}
        for i, share in enumerate(shares):
            for l in share:
                by_digest[hashlib.sha1((json.loads(l).get("key") or "").encode()).hexdigest()[:16]] = (i, l)
        for b in pool_bad[:10]:
            hit = by_digest.get(b["case"])
            upto = []
            if hit:
                share = shares[hit[0]]
                upto = share[: share.index(hit[1]) + 1]
            os.makedirs(V.REPLAYS, exist_ok=True)
            path = os.path.join(V.REPLAYS, "C01-pool-%s.json" % hashlib.sha1(json.dumps(b, sort_keys=True).encode()).hexdigest()[:12])
            with open(path, "w") as f:
                json.dump({"property": "C01", "pool_event": b, "trace_spec": "Trace_Pool", "header": json.loads(header_line),
                           "histories": [json.loads(x) for x in upto]}, f)
            violations.append("VIOLATION property=C01 replay=%s" % path)
            V.log("  pool discipline broken: %s (event %s)" % (b["why"], json.dumps(b["event"])))
        confirmed = 0
        for r in failing:
            if confirmed >= 10:
                break
            # alone in a fresh process
            alone, _ = run_histories(harness, scratch, header_line, [r["_line"]], oracle_path, nworkers=1, tag="confirm")
            replay_lines = [r["_line"]]
            if alone[0]["pass"]:
                # not reproducible standalone: replay the worker's share up to this history
                share = shares[r["_share"]]
                upto = share[: share.index(r["_line"]) + 1]
                again, _ = run_histories(harness, scratch, header_line, upto, oracle_path, nworkers=1, tag="confirm")
                if again[-1]["pass"]:
                    notes.append("NOTE failure not reproduced: %s" % r.get("src"))
                    continue
                replay_lines = upto
                obs = again[-1]
            else:
                obs = alone[0]
            confirmed += 1
            os.makedirs(V.REPLAYS, exist_ok=True)
            path = os.path.join(V.REPLAYS, "C01-%s.json" % hashlib.sha1(r["_line"].encode()).hexdigest()[:12])
            with open(path, "w") as f:
                json.dump({"property": "C01", "header": json.loads(header_line), "histories": [json.loads(x) for x in replay_lines],
                           "oracle": {k: oracle[k] for op in json.loads(r["_line"])["ops"] if op.get("key") for k in [op["key"]]},
                           "observed": {k: v for k, v in obs.items() if not k.startswith("_")}}, f)
            violations.append("VIOLATION property=C01 replay=%s" % path)
            f0 = obs["fails"][0]
            V.log("  violating history: %s | %s %s got=%r want=%r" % (f0.get("src"), f0.get("run"), f0.get("why"), f0.get("got"), f0.get("want")))
        # the model must be able to see the defect class: with the deviation switched on TLC
        # has to report the stale render (vacuity guard for NoStaleRender)
        dev_info = None
        if tier == "thorough" or opts.get("selftest"):
            dres = V.run_tlc(scratch, "EngineLife", "MC_C01_deviation.cfg", workers=4, timeout=600, sub="tlc-dev")
            if "Invariant NoStaleRender is violated" not in dres["out"]:
                raise V.Broken("deviation config did not produce the NoStaleRender counterexample")
            dev_info = "RenderReleasesRoot=TRUE => NoStaleRender violated (as intended)"
            # binding self-test: corrupt one oracle entry, expect a failure
            bad = dict(oracle)
            k0 = sorted(bad)[0]
            bad[k0] = dict(bad[k0], out=bad[k0].get("out", "") + "ZZ", ok=True)
            bp = scratch.path("oracle-bad.json")
            with open(bp, "w") as f:
                json.dump(bad, f)
            probe = [l for l in case_lines if k0 in json.dumps([op.get("key") for op in json.loads(l)["ops"]])][:5]
            if probe:
                rs, _ = run_histories(harness, scratch, header_line, probe, bp, nworkers=1, tag="self")
                if all(r["pass"] for r in rs):
                    raise V.Broken("binding self-test: corrupted oracle entry was not noticed")
        wall = time.time() - t0
        samples = [{"history": r.get("src")} for r in results[:: max(1, len(results) // 3)][:3]]
        cov = dict(states=max(1, res["distinct"]), transitions=max(1, res["states"]),
                   traces_validated_against_impl=len(results), evaluations=nrenders,
                   distinct_nontrivial=len({r.get("key") for r in results}),
                   rule="(plus TLC random walks of 24 operations) every operation history of length MaxLen over register (by four routes: RegisterString, ParseTemplate + "
                        "RegisterTemplate, RegisterCompiledTemplate, LoadFromCompiledData; the route is fixed by the position in the history) / parse (discarded and kept) / render / render of a "
                        "kept template / cache and debug toggles / GC / activity on a second (policy-less) engine that ends in a render; behaviours "
                        "that start after a prepared prefix of registrations (10 pairs of sources that reach each other by include / extends / "
                        "import / sandboxed include, x 2 sources on the second engine) followed by every sequence of 2 (3) renders or GCs over "
                        "registered, array-loader and two-path file-system-loader names; every render "
                        "is compared with the pristine result of its key (same templates+configuration on a fresh engine in a fresh "
                        "process); all histories are non-trivial (>= 1 render after other activity); the Get / Put traffic of the render-context "
                        "pools during all histories is validated against PoolDiscipline (Trace_Pool.tla)",
                   samples=samples, oracle_keys=len(keys), histories=len(results), failing=len(failing),
                   exhaustive_histories=n_exhaustive, random_walk_histories=n_walk_histories,
                   deviation_check=dev_info, exhaustive=False, pool_trace=pool_info,
                   tlc=dict(cfg=cfg, properties=["RenderPure", "FailedOpsPure", "NoStaleRender"], wall_s=round(res["wall"], 1)))
        V.write_evidence(prop, tier, seed, "model_checking", cov, wall, len(violations),
                         ["EngineLife.tla: rendering is an uninterpreted function of the logical state (key)",
                          "oracle = one fresh OS process per key; histories run back-to-back in 16 worker processes",
                          "registration only while the cache is on (what it does otherwise is not determined by the property)"])
        for n in notes:
            print(n)
        for v in violations:
            print(v)
        print("C01 %s: %d histories / %d renders / %d oracle keys, %d failing, %d violations, %.1fs" % (
            tier, len(results), nrenders, len(keys), len(failing), len(violations), wall))
        return 1 if violations else 0
    finally:
        scratch.cleanup()


def replay(prop, path):
    scratch = V.Scratch()
    try:
        harness = V.build_harness(scratch)
        with open(path) as f:
            d = json.load(f)
        header_line = json.dumps(d["header"])
        op = scratch.path("oracle.json")
        with open(op, "w") as f:
            json.dump(d["oracle"], f)
        lines = [json.dumps(h) for h in d["histories"]]
        rs, _ = run_histories(harness, scratch, header_line, lines, op, nworkers=1, tag="replay")
        print(json.dumps({k: v for k, v in rs[-1].items() if not k.startswith("_")}, indent=1))
        if not rs[-1]["pass"]:
            print("VIOLATION property=%s replay=%s" % (prop, path))
            return 1
        return 0
    finally:
        scratch.cleanup()
