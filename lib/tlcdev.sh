#!/bin/bash
# dev helper: tlcdev.sh <module> <cfg> [extra tlc args]  -- runs in a scratch copy
set -e
D=$(mktemp -d /tmp/tlcdev.XXXXXX)
cp /verif/spec/*.tla /verif/spec/*.cfg $D/
cd $D
M=$1; C=$2; shift 2
( time timeout 900 tlc -workers 8 -metadir $D/meta -config $C "$@" $M > out.txt 2>&1 ) 2>&1 | grep real
grep -v '^"{' out.txt | grep -v -e "^Parsing" -e "^Semantic" -e "^Linting" -e "^$" | head -${LINES_MAX:-40}
echo "emitted: $(grep -c '^"{' out.txt)  dir: $D"
