"""Per-property configuration of the checks (see DESIGN.md section 6)."""

PROPS = {}

PROPS["C08"] = dict(
    level="model_checking",
    stages=[
        dict(name="enum", module="MC_C08",
             cfg={"quick": "MC_C08_quick.cfg", "thorough": "MC_C08_thorough.cfg"},
             timeout={"quick": 300, "thorough": 1500}),
    ],
    nontrivial=lambda r: any(t for t in (r.get("tags") or []) if not t.startswith("ty:")),
    rule="one case per expression tree (typed, every operator choice on every tree shape up to MaxOps operators, "
         "plus spy/unary/conditional/filter families); each case is rendered with minimal and full parentheses, "
         "and small trees in 3 spacings x 10 syntactic positions; non-trivial = has at least one operator",
    assumptions=[
        "reference semantics TwigSem.tla (Eval/Exec) is the oracle; TLC integers are 32-bit so the fragment stays within +-10^9",
        "the Go harness only concatenates source pieces, builds context values and compares bytes / spy counters",
    ],
)
