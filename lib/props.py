"""Per-property configuration of the checks (see DESIGN.md section 6)."""

PROPS = {}

PROPS["C08"] = dict(
    level="model_checking",
    stages=[
        dict(name="enum", module="MC_C08",
             cfg={"quick": "MC_C08_quick.cfg", "thorough": "MC_C08_thorough.cfg"},
             timeout={"quick": 900, "thorough": 1500}),
        dict(name="rich", module="MC_C08", cfg={"quick": "MC_C08_rich1.cfg", "thorough": "MC_C08_rich.cfg"},
             timeout={"quick": 900, "thorough": 1500}),
    ],
    nontrivial=lambda r: any(t for t in (r.get("tags") or []) if not t.startswith("ty:")),
    rule="one case per expression tree (typed, every operator choice on every tree shape up to MaxOps operators, "
         "plus spy/unary/conditional/filter families); each case is rendered with minimal and full parentheses, "
         "and small trees in 3 spacings x 12 syntactic positions (incl. include-with under only, and as the condition of if / "
         "elseif / not / ?: where its truth value is printed); containment in lists of 50 / 52 / 55 / 60 elements with literal and "
         "computed left operands; non-trivial = has at least one operator",
    assumptions=[
        "reference semantics TwigSem.tla (Eval/Exec) is the oracle; TLC integers are 32-bit so the fragment stays within +-10^9",
        "the Go harness only concatenates source pieces, builds context values and compares bytes / spy counters",
    ],
)

PROPS["C09"] = dict(
    level="model_checking",
    stages=[dict(name="enum", module="MC_C09", cfg={"quick": "MC_C09_quick.cfg", "thorough": "MC_C09_thorough.cfg"},
                 timeout={"quick": 900, "thorough": 1500})],
    rule="one case per program of the families ifc/ifl (if-chains over condition values of every type, from context and as "
         "literals), loop (lists, typed slices, strings incl. multi-byte, strings of 6 .. MaxStr code points with one wide character "
         "at every position, ranges; all 7 loop counters printed), kv, nest "
         "(2 and 3 levels, outer counters printed after the inner loop), setp (all sequences of set/print/if/for statements "
         "up to MaxSetLen), ifnamed (values of defined and sized Go scalar types as conditions), rec (the same for tag active "
         "several times: recursive include and recursive macro over trees, counters printed after the recursion), global (set and "
         "loop variables over engine globals of the same name); every case is non-trivial (contains at least one control construct)",
    assumptions=["reference semantics TwigSem.tla is the oracle", "ranges only with a step sign consistent with start/end; "
                 "loop variables are not read after their loop; set targets are defined before any loop reads them"],
)

PROPS["C10"] = dict(
    level="model_checking",
    stages=[dict(name="enum", module="MC_C10", cfg={"quick": "MC_C10_quick.cfg", "thorough": "MC_C10_thorough.cfg"},
                 timeout={"quick": 900, "thorough": 2700})],
    nontrivial=lambda r: "chain:0" not in (r.get("tags") or []),
    rule="one case per extends chain: child levels x per-block definition kind (absent/text/empty/text+parent()/parent()/"
         "parent() twice/override that nests a definition of the other block) x base kinds x 9 base layouts (top, nested, loop, loop in a "
         "loop, if, if-false, apply, spaceless, layout that includes another chain with the same block names) + dynamic and computed parent "
         "names, the extends tag in 8 places (also blocks in never-taken branches), sets along the chain, engine globals; non-trivial = chain length >= 1",
    assumptions=["reference semantics TwigSem.tla (LevelDefining/BlockDef/parent()) is the oracle",
                 "extending templates contain only extends, text and blocks at top level"],
)

PROPS["C11"] = dict(
    level="model_checking",
    stages=[dict(name="enum", module="MC_C11", cfg={"quick": "MC_C11_quick.cfg", "thorough": "MC_C11_thorough.cfg"},
                 timeout={"quick": 900, "thorough": 900})],
    rule="one case per (with, only, ignore missing, name form, behaviour of the included template, placement); two real "
         "renders per case: the program and the program with the include removed (2-run non-interference); two-level includes; "
         "included templates that set from inside if branches (else-only / then and elseif bodies, nested); "
         "defined-tests in every read probe; scenarios with relative names (./x ../x from two directories, in loops, under "
         "extends) and with a loader failure / a missing template under ignore missing, each served directly and through the "
         "loader layouts only / front / back / chain; every case is non-trivial",
    assumptions=["reference semantics TwigSem.tla is the oracle; TLC checks NonInterference on the model itself",
                 "inside macros every variable that is read is a parameter (the property does not say whether a macro sees its caller's variables)"],
)

PROPS["C12"] = dict(
    level="model_checking",
    stages=[dict(name="enum", module="MC_C12", cfg={"quick": "MC_C12_quick.cfg", "thorough": "MC_C12_thorough.cfg"},
                 timeout={"quick": 900, "thorough": 900})],
    rule="one case per (arity, default subset, argument count, body kind, call site); each rendered in every applicable call "
         "form (local, _self, import as, from import, from import as); macros named like built-in functions (max range min date "
         "length); default expressions that are spy calls, rendered twice on the same engine with the callback counts compared; "
         "TLC checks FormsAgree on the model; all non-trivial",
    assumptions=["reference semantics TwigSem.tla (BindParams/CallMacro) is the oracle",
                 "macro bodies read only their parameters and own assignments; sibling macro calls only in the local form"],
)

PROPS["C06"] = dict(
    level="model_checking",
    stages=[dict(name="enum", module="MC_C06", cfg={"quick": "MC_C06_quick.cfg", "thorough": "MC_C06_thorough.cfg"},
                 timeout={"quick": 900, "thorough": 900})],
    nontrivial=lambda r: "pol:allow" not in (r.get("tags") or []),
    rule="one case per (position of the forbidden name, function|filter, route below the sandbox boundary, policy); spy "
         "callbacks count invocations; forbidden => security error and the forbidden spy's count is 0 whatever the outcome, "
         "outside-the-sandbox spies counted 1; statements before the forbidden name (empty / non-empty spaceless, allowed calls, "
         "includes in a loop, macro call); each case 4 runs: plain, policy maps with explicit false entries, and the same engine "
         "re-rendered after its policy was replaced / edited in place by the opposite one; non-trivial = the policy forbids the name",
    assumptions=["TLC checks Confined on the model (sandbox flag inherited by construction in TwigSem)",
                 "macro names, parent and the helper spies are on the allow-list: the property does not say whether a macro call is a 'function'",
                 "the engine's apply tag takes a bare filter name, so the apply position uses an argument-less spy filter"],
)

PROPS["C17"] = dict(
    level="model_checking",
    stages=[dict(name="enum", module="MC_C17", cfg={"quick": "MC_C17_quick.cfg", "thorough": "MC_C17_thorough.cfg"},
                 timeout={"quick": 900, "thorough": 900})],
    nontrivial=lambda r: "kind:base" not in (r.get("tags") or []),
    rule="corpus of template structures with a spy at every callback position; TLC learns the invocation counts of the "
         "fault-free run and enumerates every single-fault placement (spy j fails at its m-th invocation, incl. one placement "
         "beyond the last invocation), every loader fault (loader alone, behind / before an empty loader, inside a ChainLoader) and a "
         "list of unresolved filter/function/test/macro/template names (incl. inside for-sequence filter chains; spy callbacks "
         "registered as range / length); "
         "each case is rendered 6 ways (debug on/off x Render / RenderTo(bytes.Buffer) / RenderTo(plain writer)); "
         "non-trivial = a fault or unresolved name is present",
    assumptions=["TLC checks Surfaces on the model; Exec decides only whether the faulted invocation is reached",
                 "error identity is checked with errors.Is/As against the injected sentinel, ErrTemplateNotFound, *SecurityViolation"],
)


PAD_BASE = 2097152


def _long_runs(lines, seed, tier):
    """Adds, to a sample of the cases that are expected to render, a run of the same program behind 4200 bytes of literal
    text (the tokenizer for large templates reads it): the output is the expected one behind the same text -- literal text,
    comments, verbatim bodies and dashes mean the same at every template size."""
    import json, random
    rnd = random.Random(seed)
    out = []
    every = 5 if tier == "quick" else 2
    for l in lines:
        c = json.loads(l)
        e = c.get("expect") or {}
        runs = c.get("runs") or []
        if (e.get("ok") and not e.get("noout") and not e.get("anyoutcome") and runs and rnd.randrange(every) == 0):
            r0 = runs[0]
            entry = r0.get("entry") or c.get("entry")
            text = "".join(pc.get("w") or pc.get("subst") or "".join(chr(abs(x)) for x in (pc.get("c") or []) if abs(x) < PAD_BASE)
                           for pc in (r0.get("tp") or {}).get(entry) or [])
            # (text in front of an extends tag is not literal text of the output)
            if entry in (r0.get("tp") or {}) and "extends" not in text and not r0.get("pads") and "out" not in r0 and "alt" not in r0 and not r0.get("via"):
                r = json.loads(json.dumps(r0))
                r["label"] = r0.get("label", "run") + "-long"
                r["pads"] = [{"len": 4200, "style": "p"}]
                r["tp"][entry] = [{"c": [PAD_BASE]}] + list(r["tp"][entry])
                r["out"] = [PAD_BASE] + list(e.get("out") or [])
                r["norel"] = True
                c["runs"] = list(runs) + [r]
                c["tags"] = list(c.get("tags") or []) + ["longrun"]
                l = json.dumps(c) + "\n"
        out.append(l)
    return out

PROPS["C13"] = dict(
    level="model_checking",
    stages=[dict(name="enum", module="MC_C13", cfg={"quick": "MC_C13_quick.cfg", "thorough": "MC_C13_thorough.cfg"},
                 timeout={"quick": 900, "thorough": 1500}, transform=_long_runs),
            # a dash works at every template size: fully dashed templates whose token count sweeps through every
            # capacity step of the pooled token buffers, below and above the large-template threshold (MC_C14's sweeps)
            dict(name="sweep", module="MC_C14", cfg={"quick": "MC_C13_sweep_quick.cfg", "thorough": "MC_C13_sweep_thorough.cfg"},
                 timeout={"quick": 900, "thorough": 900})],
    nontrivial=lambda r: "ndash:0" not in (r.get("tags") or []),
    rule="corpus of templates covering every tag kind x set D of dashed delimiter sides (all subsets for small templates, "
         "singletons/pairs/all/all-but-one otherwise) x 6 whitespace styles of the neighbouring text; two real renders per "
         "case (dashed source, hand-trimmed source) which must agree with each other and with the model; stage sweep: fully dashed "
         "templates whose token count passes through every value from ~200 to ~1100 (small tokenizer) and the large-template "
         "sweep of MC_C14; non-trivial = D non-empty; one enum case in five (quick) / two (thorough) also behind 4200 bytes of literal text",
    assumptions=["TLC checks on the model that the two formulations coincide for D = {} and that a dash only removes whitespace",
                 "text pieces are symbolic in Exec and substituted afterwards, so the expectation does not depend on the text content"],
)

PROPS["C14"] = dict(
    level="model_checking",
    stages=[dict(name="enum", module="MC_C14", cfg={"quick": "MC_C14_quick.cfg", "thorough": "MC_C14_thorough.cfg"},
                 timeout={"quick": 900, "thorough": 1800}, limit="20s")],
    nontrivial=lambda r: True,
    rule="C13 corpus (every tag kind, with and without dashes) x pad position (each text piece, all text pieces) x pad "
         "content (plain text, text with lone braces/quotes/backslash, comment, empty print tags) ; one render per pad length "
         "0 / 1 / 4000 / 20480 (/ 102400 / 300000) and per exact template size 4095..4098, 8192; token-count sweeps below and "
         "above the large-template threshold (every token count up to ~1100 / ~2100); thorough also RenderTo writers; length plan edge (pad lengths around 64 KiB, thorough also 128 KiB) on dashed cases incl. the four-character white-space style",
    assumptions=["metamorphic: Exec copies text pieces verbatim, so pad tokens travel from source to expected output",
                 "pads stand in the middle of a text piece, never next to a delimiter"],
)

PROPS["C04"] = dict(
    level="model_checking",
    stages=[dict(name="enum", module="MC_C04", cfg={"quick": "MC_C04_quick.cfg", "thorough": "MC_C04_thorough.cfg"},
                 timeout={"quick": 900, "thorough": 1500}, transform=lambda lines, seed, tier: _long_runs(lines, seed, tier))],
    nontrivial=lambda r: True,
    rule="every admissible literal (17 byte classes incl. NUL, invalid UTF-8, lone braces, %, #, -, backslash, quotes) of up "
         "to Side bytes before and after each of 8 tag kinds; every literal alone up to Alone bytes; every comment / verbatim "
         "body up to BodyLen bytes plus bodies holding tag syntax and spies; two tags with a literal between; one case in five (quick) / two (thorough) also behind 4200 bytes of literal text (large-template tokenizer)",
    assumptions=["Admissible excludes only text that would itself be a delimiter ({{ {% {# inside, a trailing { before a tag)",
                 "verbatim bodies that contain tag syntax are checked for what the property states (not evaluated: same output "
                 "under three contexts, no context data, no spy invoked), not for byte-exact reproduction of the inner tags"],
)

PROPS["C07"] = dict(
    level="model_checking",
    stages=[dict(name="enum", module="MC_C07", cfg={"quick": "MC_C07_quick.cfg", "thorough": "MC_C07_thorough.cfg"},
                 timeout={"quick": 900, "thorough": 1500},
                 trace=dict(module="Trace_C07", cfg="Trace_C07.cfg"))],
    nontrivial=lambda r: "vt:str" in (r.get("tags") or []),
    rule="every string up to MaxLen over {< > & \" ' a ; # 3 9 e-acute euro 0xFF NUL} (+ already-escaped seeds, ints, null) "
         "x 16 positions (print, after/before another filter, apply, macro body, included template, if body, set, concatenation, "
         "after raw, the filter applied to its own output in a chain / via set / via apply / under the other name) "
         "x names escape/e (metamorphic pair); the engine's outputs are recorded and TLC evaluates ValidEscape on each; Go values of numeric kind whose String method gives markup (enum, uenum, fenum)",
    assumptions=["accepted references: &amp; &lt; &gt; &quot;|&#34;|&#x22; &#39;|&#039;|&#x27;|&apos;",
                 "TLC checks on the model that the reference Escape has no raw special character and decodes back to the input"],
)

PROPS["C19"] = dict(
    level="model_checking",
    stages=[dict(name="enum", module="MC_C19", cfg={"quick": "MC_C19_quick.cfg", "thorough": "MC_C19_thorough.cfg"},
                 timeout={"quick": 900, "thorough": 1500})],
    nontrivial=lambda r: True,
    rule="every string up to MaxStr over {a B SP e-acute LF}, every int / string list up to MaxList (untyped, []int, []string), "
         "maps (untyped, map[string]int, map[string]string) x the filter chains of the property's equations; slice with every "
         "start/length in -SliceRange..SliceRange and omitted length on strings and lists; values leave the template through the "
         "harness' vdump filter; number_format on exact decimals around the group boundaries with 0..3 places and default / explicit / "
         "empty / multi-character separators; join o split over lists with empty and white-space strings; loop count = length over "
         "filter-chain sequences and maps; first / last on maps. upper/lower/trim/capitalize are checked for idempotence only",
    assumptions=["TLC checks the equations (Laws) on the reference definitions in TwigSem over the same input space",
                 "string lists for sort use strings on which every sensible collation agrees; map results are compared order-free"],
)

import c01
PROPS["C01"] = dict(run=c01.run, replay=c01.replay)

def _c15_fs(lines, seed, tier):
    """Adds, for a sample of the emitted histories, a variant in which loader 2 is a real FileSystemLoader on a scratch
    directory (put / delete write and remove files, time stamps become modification times): the expected observations
    are the same -- the specification does not care what kind of loader serves a name."""
    import json, random
    rnd = random.Random(seed)
    out = list(lines)
    k = len(lines) // (4 if tier == "quick" else 2)
    for l in rnd.sample(lines, min(len(lines), max(k, 200))):
        c = json.loads(l)
        key, tags = c["key"], list(c.get("tags") or [])
        c["fs"] = True
        c["key"] = key + "+fs"
        c["tags"] = tags + ["fsloader"]
        out.append(json.dumps(c) + "\n")
        # ... and as a CompiledLoader (files with serialised compiled templates)
        c = dict(c, fs=False, cl=True, key=key + "+cl", tags=tags + ["compiledloader"])
        out.append(json.dumps(c) + "\n")
    # ... and one in which the engine's only loader is a ChainLoader over the two: "the first loader that has the name wins"
    # is the same sentence; a chain reports no time stamps, so only histories in which auto-reload stays off
    plain = [l for l in lines if '"setauto' not in l and '"setdevmode' not in l and '"auto":true' not in l]
    for l in rnd.sample(plain, min(len(plain), max(k, 200))):
        c = json.loads(l)
        if c.get("auto") or any(op.get("op") in ("setautoreload", "setauto", "setdevmode") for op in c["ops"]):
            continue
        c["chain"] = True
        key = c["key"]
        c["key"] = key + "+chain"
        c["tags"] = list(c.get("tags") or []) + ["chainloader"]
        out.append(json.dumps(c) + "\n")
        # ... the first loader of the chain as a FileSystemLoader (files written and removed)
        c = dict(c, chain=False, fschain=True, key=key + "+fschain", tags=list(c["tags"]) + ["fschain"])
        out.append(json.dumps(c) + "\n")
        # ... the first loader of the chain as a real ArrayLoader whose version 1 is the EMPTY source (histories without a
        # second name for a loaded template: an empty output does not say which name it was loaded under)
        if not any(op.get("op") == "regalias" for op in c["ops"]):
            c = dict(c, fschain=False, achain=True, key=key + "+achain", tags=[t for t in c["tags"] if t != "fschain"] + ["arraychain"])
            out.append(json.dumps(c) + "\n")
    return out


PROPS["C15"] = dict(
    level="model_checking",
    stages=[dict(name="enum", module="CacheLoaders", cmd="cachehist", transform=_c15_fs,
                 cfg={"quick": "MC_C15_mid.cfg", "thorough": "MC_C15_mid.cfg"}, timeout={"quick": 900, "thorough": 900}),
            dict(name="walks", module="CacheLoaders", cmd="cachehist", cfg={"quick": "MC_C15_sim.cfg", "thorough": "MC_C15_sim.cfg"},
                 simulate={"quick": 3000, "thorough": 60000}, depth=16, workers=1, timeout={"quick": 900, "thorough": 1500}, transform=_c15_fs),
            # the timestamp-aware loader as a FileSystemLoader with two search paths (one name, auto-reload on from the start):
            # every history of 5 (6) operations
            dict(name="twopaths", module="CacheLoaders", cmd="cachehist", cfg={"quick": "MC_C15_fs2.cfg", "thorough": "MC_C15_fs2_thorough.cfg"},
                 timeout={"quick": 900, "thorough": 900}),
            # a source that does not parse in the timestamp-aware loader (auto-reload on): every history of 6 operations on one name
            dict(name="broken", module="CacheLoaders", cmd="cachehist", cfg={"quick": "MC_C15_broken.cfg", "thorough": "MC_C15_broken.cfg"},
                 timeout={"quick": 900, "thorough": 900}, transform=_c15_fs),
            # a name that is registered AND held by both loaders (m1): every history of 5 operations incl. registering the very text a loader holds
            dict(name="both", module="CacheLoaders", cmd="cachehist", cfg={"quick": "MC_C15_m1.cfg", "thorough": "MC_C15_m1.cfg"},
                 timeout={"quick": 900, "thorough": 900}, transform=_c15_fs),
            dict(name="random", cfg={}, c2s=dict(gen="cachehist", cmd="cachehist", n={"quick": 300, "thorough": 4000}, len=80,
                                                 trace=dict(module="Trace_C15", cfg="Trace_C15.cfg")))],
    nontrivial=lambda r: True,
    rule="every history of 4 operations over render / register / loader put, delete / cache, auto-reload, development-mode toggles "
         "on 4 names and 2 loaders (one timestamp-aware) that ends in a render, plus TLC random walks of 14 operations; after EVERY "
         "operation the served version (or not-found), each loader's Load-call counters and the cached names are compared with the model; "
         "a sample of all histories is replayed a second time with loader 2 as a real FileSystemLoader on a scratch directory; "
         "registration of compiled templates (older / newer stamps); every history of 5 (6) operations on one name with the loader "
         "as a FileSystemLoader with two search paths and auto-reload on; a sample of the histories without auto-reload through a "
         "ChainLoader over the two loaders, over a FileSystemLoader and loader 2, and over a real ArrayLoader (whose version 1 is the "
         "EMPTY source) and loader 2",
    assumptions=["CacheLoaders.tla Render(n) is the rule set; TLC checks the property's six sentences P1..P6 as action properties",
                 "a content change always raises the timestamp; deletion only in the plain loader; a name whose current source was "
                 "registered is rendered only while the cache is on (what a registered string means with the cache off is not determined)"],
)


def _c20_floods(lines, seed, tier):
    """Adds, for a sample of the emitted lookup histories, a variant at the production capacity (1000) with floods of 1100
    fresh (type, name) pairs between the lookups: the expected values are unchanged (the cache is unobservable)."""
    import json, random
    rnd = random.Random(seed)
    out = list(lines)
    for l in rnd.sample(lines, min(len(lines), 25 if tier == "quick" else 150)):
        c = json.loads(l)
        ops = []
        for op in c["ops"]:
            ops.append(op)
            ops.append({"flood": 1100})
        c["ops"] = ops
        c["cap"] = 1000
        c["key"] = c["key"] + "+floods"
        c["tags"] = list(c.get("tags") or []) + ["flood"]
        out.append(json.dumps(c) + "\n")
    # ... and a variant in which every lookup is made 20 times in a row (at the production capacity and at the model's):
    # a repeated lookup is a stuttering step of the specification, every repetition gives the same value
    for l in rnd.sample(lines, min(len(lines), 120 if tier == "quick" else 600)):
        c = json.loads(l)
        c["ops"] = [op for op in c["ops"] for _ in range(20)]
        if rnd.random() < 0.5:
            c["cap"] = 1000
        c["key"] = c["key"] + "+hot"
        c["tags"] = list(c.get("tags") or []) + ["hot"]
        out.append(json.dumps(c) + "\n")
    # ... and variants in which the looked-up pairs SURVIVE an eviction: at the model's capacity one fresh pair pushes out the
    # least recently used of the two, at the production capacity the pairs are looked up between floods that fill the cache
    # to just below its capacity and then push it over (methods of pointers and promoted fields in every such sample)
    # ... and a sample in which every lookup is also written l[0].name, m['k'].name and (o).name
    for l in rnd.sample(lines, min(len(lines), 400 if tier == "quick" else 3000)):
        c = json.loads(l)
        c["forms"] = True
        c["key"] = c["key"] + "+forms"
        c["tags"] = list(c.get("tags") or []) + ["forms"]
        out.append(json.dumps(c) + "\n")
    # ... and variants in which the first lookup is also made, before all others, by a template that is included sandboxed
    meth = [l for l in lines if '"Name"' in l or '"PName"' in l or '"AName"' in l]
    for l in rnd.sample(meth, min(len(meth), 150 if tier == "quick" else 1000)) + rnd.sample(lines, min(len(lines), 150 if tier == "quick" else 1000)):
        c = json.loads(l)
        first = dict(c["ops"][0], sb=True)
        c["ops"] = [first] + c["ops"]
        c["key"] = c["key"] + "+sandboxfirst"
        c["tags"] = list(c.get("tags") or []) + ["sandboxfirst"]
        out.append(json.dumps(c) + "\n")
    strata = [[l for l in lines if '"PName"' in l or '"AName"' in l],
              [l for l in lines if '"S10"' in l or '"S12"' in l or '"S11"' in l], lines]
    k = 30 if tier == "quick" else 200
    for st in strata:
        for l in rnd.sample(st, min(len(st), k)):
            for variant in (0, 1):
                c = json.loads(l)
                ops = c["ops"]
                if variant == 0:
                    c["ops"] = ops + ops[:1] + [{"flood": 1}] + ops[:1] + ops + [{"flood": 1}] + ops[-1:] + ops
                else:
                    c["cap"] = 1000
                    c["ops"] = [{"flood": 990}] + ops + [{"flood": 60}] + ops + [{"flood": 150}] + ops
                c["key"] = c["key"] + "+survive%d" % variant
                c["tags"] = list(c.get("tags") or []) + ["survivor"]
                out.append(json.dumps(c) + "\n")
    return out


PROPS["C20"] = dict(
    level="model_checking",
    stages=[dict(name="enum", module="AttrCache", cmd="attrhist", cfg={"quick": "MC_C20_quick.cfg", "thorough": "MC_C20_thorough.cfg"},
                 timeout={"quick": 900, "thorough": 1500}, transform=_c20_floods),
            dict(name="walks", module="AttrCache", cmd="attrhist", cfg={"quick": "MC_C20_sim.cfg", "thorough": "MC_C20_sim.cfg"},
                 # TLC's simulator checks the emitting invariant on every generated successor, so each walk yields
                 # one history per enabled last lookup (~280): num is the number of walks, not of histories
                 simulate={"quick": 12, "thorough": 250}, depth=11, workers=1, timeout={"quick": 900, "thorough": 1500},
                 transform=_c20_floods)],
    nontrivial=lambda r: True,
    rule="every lookup history of length 2 over 41 objects (14 struct shapes incl. embedded structs at depth 1..4, shadowing, value/pointer "
         "methods, unexported field and unexported embedded type, 131 fields, an unnamed struct type, names outside ASCII; pointers to "
         "them; 5 Go map types) x 21 names (quick); every history of length 3 over 8 shapes x 7 names (thorough); plus TLC random walks of 10 "
         "lookups, replayed with the real attribute cache set to the model's capacity 2 through the verif hook; sampled histories are "
         "repeated at the production capacity with floods of 1100 fresh (type, name) pairs between the lookups, with every lookup made "
         "20 times, with the looked-up pairs surviving an eviction, written through a list element / map entry / parentheses, and with "
         "the first lookup made below a sandboxed include; a shape whose pointer-receiver method points into its receiver (two "
         "instances); every history ends with a joint render that keeps all results alive",
    assumptions=["AttrCache.tla: TLC checks CacheUnobservable for every victim choice; deviations KeyWithoutType / FirstIndexOnly must violate it",
                 "pointer-receiver methods are only looked up on pointers; a name that denotes an embedded struct itself is not looked up"],
)

PROPS["C03"] = dict(
    level="model_checking",
    stages=[dict(name="enum", module="MC_C03", cfg={"quick": "MC_C03_quick.cfg", "thorough": "MC_C03_thorough.cfg"},
                 timeout={"quick": 900, "thorough": 1500}, processes=3)],
    nontrivial=lambda r: "order-insensitive" not in (r.get("tags") or []),
    rule="17 map-consuming programs x 6 maps (untyped, map[string]int, map[string]string, map[int]string, nested) classified by TLC as "
         "order-sensitive iff the reference output changes under some permutation of the key order; every date format string up to "
         "FmtLen over 18 format letters + separators on two dates; values carrying addresses (pointer field, pointer to pointer, func, "
         "chan) in 5 printing positions. Each case: 24 renders on fresh engines and fresh context values + 8 with reversed insertion "
         "order, all in 3 independent sets of processes; every output must be byte-identical; the same instant (8, before and after "
         "1970) as time value / int / int64 / decimal formats alike; include-with hashes whose values read keys of the same hash "
         "(plain, only, sandboxed) against the model's value. non-trivial = not order-insensitive; family wide (maps of 63 / 64 / 65 / 70 keys walked by loops and keys); every case also renders its context object, edits every map of two or more string keys in it in place (one key replaced, size kept), renders again and compares with a fresh object of the same content",
    assumptions=["no reference order is assumed: any fixed order passes", "a failing render is a fixed result too (anyoutcome)"],
)

PROPS["C18"] = dict(
    level="exploration",
    stages=[dict(name="enum", module="MC_C18", cfg={"quick": "MC_C18_quick.cfg", "thorough": "MC_C18_thorough.cfg"},
                 timeout={"quick": 900, "thorough": 1500})],
    nontrivial=lambda r: True,
    rule="filter chains up to MaxChain over {sort, reverse, merge, slice, keys, default, first, last, join} on shared data of 7 Go "
         "shapes ([]interface{} and []int with spare capacity, []string, [3]int, untyped and typed maps), re-observation of an "
         "intermediate value after a later filter, 8 kinds of scope writes to a name that exists in the context, nested data behind "
         "attributes; each case rendered twice with the SAME context value: both outputs equal the model's, deep snapshot of the "
         "caller's data (incl. the elements between len and cap) unchanged; the same filter on two values of one shape with both "
         "results alive (sets / nested / array); merge with 49 argument pairs of mixed kinds (any outcome, data unchanged); data long (forty strings in descending order)",
    assumptions=["values are immutable in the reference semantics, so Snapshot' = Snapshot is the specification; the verdict is an "
                 "observation of the real code (deep snapshot), hence level exploration",
                 "what join / last / sort / reverse / slice do to a map is not stated: maps only get keys, default, first, merge"],
)

def _c16_corrupt(o):
    """Binding self-test: one byte of the recorded serialisation is changed."""
    b = o["bytes"]
    b[len(b) // 2] = (b[len(b) // 2] + 1) % 256


PROPS["C16"] = dict(
    level="model_checking",
    stages=[dict(name="fmt", module="MC_CompiledFmt", cfg={"quick": "MC_CompiledFmt.cfg", "thorough": "MC_CompiledFmt.cfg"}, modelonly=True),
            dict(name="enum", module="MC_C16", cmd="compiled", cfg={"quick": "MC_C16_quick.cfg", "thorough": "MC_C16_thorough.cfg"},
                 timeout={"quick": 900, "thorough": 900}, limit="30s",
                 trace=dict(module="Trace_C16", cfg="Trace_C16.cfg", mutate=_c16_corrupt))],
    nontrivial=lambda r: True,
    rule="sources (10 ASTs incl. macros, include, extends, invalid UTF-8, empty; literal sources of 4097 / 65535 / 65536 bytes / 1 MiB) x "
         "names (ASCII, multi-byte, NUL, 0xFF, path-like, with blank) x timestamps (0, -1, 2^62, now) x 2 contexts; per case: field "
         "identity through Serialize/Deserialize, compiled form registered on a second engine / loaded from data / saved and loaded "
         "by the compiled loader renders like the source (= the reference semantics); the bytes handed out stay unchanged while "
         "other templates are serialised; length sweep of source and name over the length-prefix boundaries; sibling names saved into "
         "the same directory; comment-only sources; serialised bytes validated by Trace_C16",
    assumptions=["CompiledFmt.tla: TLC checks Decode(Encode(x)) = x and that every strict prefix is rejected, on a bounded record space",
                 "file-based steps only for names that are valid file names"],
)

PROPS["C05"] = dict(
    level="exploration",
    stages=[dict(name="enum", module="MC_C05", cfg={"quick": "MC_C05_quick.cfg", "thorough": "MC_C05_thorough.cfg"},
                 timeout={"quick": 900, "thorough": 2400}, limit="5s")],
    nontrivial=lambda r: True,
    rule="tok: every sequence of up to SeqLen of 79 token classes (and up to SeqLenSmall of a 31-token alphabet) after {{ {% {%- {#, "
         "closed / unclosed / wrongly closed, optionally followed by a closing block tag; shape: 37 Go value shapes (nil, typed maps and "
         "slices, arrays, structs, nil pointers, pointer to pointer, func, chan, time, []byte, error ...) x 75 skeleton templates; gen: "
         "every built-in filter / function / test x 8 / 7 / 4 argument forms x 55 shapes (60-element lists with unhashable members, "
         "min / max int64, NaN, regexp metacharacters, nil Stringer / error pointers, interface- and uint-keyed maps); ident: 29 odd "
         "names and strings x 40 tag forms with a name slot or a quoted-operand slot; dec: "
         "truncation at every offset, 7 boundary values in every length field and 3 changes of every byte of 3 valid encodings. "
         "Verdict: no panic, no hang (5 s, re-run alone with 50 s), no process death, and the engine still renders a nested probe "
         "(page -> include -> include -> macro call, inherited block) twice; integers at the ends of small tables (99 .. 101, -99 .. -101, 999, 1000, -999, -1000)",
    assumptions=["the verdict is observational (level exploration): the specification supplies the enumerated input spaces and the contract "
                 "(Ok or Err, engine usable afterwards); TLC checks that the reference decoder is total on the corruptions",
                 "a loop over range(1, 2^40) is excluded: a finite but enormous computation the template itself asks for"],
)

import c02
PROPS["C02"] = dict(run=c02.run, replay=c02.replay)

# every case of the stateless properties is rendered a second time on the SAME engine (cached template, pooled
# objects): the expectation holds for every render, and what the engine keeps between renders must not show
for _p in ("C03", "C04", "C06", "C07", "C08", "C09", "C10", "C11", "C12", "C13", "C14", "C17", "C18", "C19"):
    PROPS[_p].setdefault("args", ("-again", "1"))

# while the cases of these properties are replayed, the traffic of the engine's render-context pools is recorded (verif
# hooks) and validated by Trace_Pool.tla against PoolDiscipline: an object is with one user or in its pool, is given back
# once and empty, a context starts clean, the caller's maps never enter a pool
for _p in ("C06", "C09", "C10", "C11", "C12", "C17", "C18"):
    PROPS[_p]["pooltrace"] = True
    PROPS[_p]["design"] = [dict(module="PoolDiscipline", cfg="MC_Pool.cfg")]
    PROPS[_p]["deviations"] = [dict(module="PoolDiscipline", cfg="MC_Pool_%s.cfg" % d, inv="Discipline") for d in ("double", "useafter", "dirty", "caller")]

PROPS["C20"]["deviations"] = [dict(module="AttrCache", cfg="MC_C20_dev1.cfg", inv="CacheUnobservable (KeyWithoutType)"),
                              dict(module="AttrCache", cfg="MC_C20_dev2.cfg", inv="CacheUnobservable (FirstIndexOnly)")]
