#!/bin/bash
# seedtest.sh <out-dir> <property> [tier]  -- confirm a seeded change and run the property's check against it
# out-dir holds patch.diff, demo_test.go, meta.json
# VERIF_REPO: the tree the patch is applied to and the check runs against (default /repo; the seed matrix uses scratch
# worktrees so that several seeds are checked side by side)
set -u
OUT=$(readlink -f $1); P=$2; TIER=${3:-quick}
R=${VERIF_REPO:-/repo}
V=${VERIF_DIR:-/verif}      # where the checks are run from (the seed matrix runs them from a snapshot)
LOG=${SEED_LOG:-/tmp/mut/v_check.log}
W=${SEED_W:-/tmp/mut/verify}
# SKIP_CONFIRM=1: the change was confirmed before (meta.json "confirmed"); only run the check against it
if [ "${SKIP_CONFIRM:-0}" = 1 ]; then
  git -C $R apply $OUT/patch.diff || { echo "RESULT $OUT apply-to-repo-failed"; exit 0; }
  (cd $V && VERIF_REPO=$R timeout 3000 ./check $P $TIER > $LOG 2>&1); RC=$?
  git -C $R checkout -- .
  tail -2 $LOG | cut -c1-300
  if [ $RC -eq 1 ]; then echo "RESULT $OUT DETECTED by $P $TIER"; elif [ $RC -eq 0 ]; then echo "RESULT $OUT MISSED by $P $TIER"; else echo "RESULT $OUT BROKEN rc=$RC"; fi
  exit 0
fi
export GOFLAGS=-mod=mod GOPROXY=off
if [ ! -d $W ]; then git -C /repo worktree add -q --detach $W HEAD; fi
git -C $W checkout -q --detach $(git -C /repo rev-parse HEAD) 2>/dev/null; git -C $W checkout -q -- . ; git -C $W clean -fdq
T=$(python3 -c "import json;print(json.load(open('$OUT/meta.json'))['demo_test'])")
cp $OUT/demo_test.go $W/zz_demo_test.go
(cd $W && go test -count=1 -vet=off -run "^$T\$" . >/tmp/mut/v_clean.log 2>&1); CLEAN=$?
if ! git -C $W apply $OUT/patch.diff 2>/tmp/mut/v_apply.log; then echo "RESULT $OUT apply-failed"; exit 0; fi
(cd $W && go test -count=1 -vet=off -run "^$T\$" . >/tmp/mut/v_mut.log 2>&1); MUT=$?
rm -f $W/zz_demo_test.go
(cd $W && go test -count=1 -vet=off . >/tmp/mut/v_suite.log 2>&1); SUITE=$?
git -C $W checkout -q -- .
echo "confirm: demo-on-clean=$CLEAN (want 0) demo-on-mutant=$MUT (want !=0) suite-on-mutant=$SUITE (want 0)"
if [ $CLEAN -ne 0 ] || [ $MUT -eq 0 ] || [ $SUITE -ne 0 ]; then echo "RESULT $OUT not-confirmed"; exit 0; fi
# run the check against the change applied to the tree, then undo
git -C $R apply $OUT/patch.diff || { echo "RESULT $OUT apply-to-repo-failed"; exit 0; }
(cd $V && VERIF_REPO=$R timeout 3000 ./check $P $TIER > $LOG 2>&1); RC=$?
git -C $R checkout -- .
tail -2 $LOG | cut -c1-300
if [ $RC -eq 1 ]; then echo "RESULT $OUT DETECTED by $P $TIER"; elif [ $RC -eq 0 ]; then echo "RESULT $OUT MISSED by $P $TIER"; else echo "RESULT $OUT BROKEN rc=$RC"; fi
