#!/usr/bin/env python3
"""./check <property> [quick|thorough] [--replay FILE] [--selftest] [--triage]

Generic driver for the spec->code (S2C) checks: TLC enumerates the property's
bounded model and emits one JSON case per state/behaviour with the expectation
computed by the reference semantics; the Go harness replays every case against a
build of /repo's current working tree.  Properties with their own flow (C01, C02,
C15, C20 ...) plug in through props.py.
"""
import hashlib
import json
import re
import os
import subprocess
import sys
import time

sys.path.insert(0, os.path.dirname(os.path.abspath(__file__)))
import vcore as V  # noqa: E402
import props as P  # noqa: E402


def confirm_alone(harness, scratch, case_line, limit="50s", cmd="replay"):
    """Re-runs one case alone in a fresh process (10x time budget)."""
    p = scratch.path("confirm.ndjson")
    with open(p, "w") as f:
        f.write(case_line if case_line.endswith("\n") else case_line + "\n")
    r = V.replay(harness, p, scratch.path("confirm.res"), nworkers=1, limit=limit, cmd=cmd)
    return r[0] if r else None


def check_pool_trace(scratch, pool_path, stage, selftest):
    """Validates the recorded pool traffic with Trace_Pool.tla.  Returns (info, rejected events: dicts with line, event,
    why, case digest)."""
    with open(pool_path) as f:
        lines = f.readlines()
    if not lines:
        raise V.Broken("no pool events were recorded in stage %s (hooks missing?)" % stage)
    consumed, rejected, tres = V.validate_trace(scratch, "Trace_Pool", "Trace_Pool.cfg", pool_path, sub="pool-" + stage, timeout=1200)
    if consumed != len(lines):
        raise V.Broken("Trace_Pool consumed %d of %d events" % (consumed, len(lines)))
    reasons = dict((int(a), b) for a, b in re.findall(r'<<(\d+),\s*"([^"]*)">>', tres["out"]))
    bad = []
    for ln in rejected[:50]:
        digest = ""
        for k in range(ln - 1, -1, -1):
            e = json.loads(lines[k])
            if e.get("ev") == "case":
                digest = e.get("pool")
                break
        bad.append(dict(line=ln, event=json.loads(lines[ln - 1]), why=reasons.get(ln, "?"), case=digest))
    if selftest:
        # binding self-test: an object given back twice must be rejected
        mut = scratch.path("pool-mut.ndjson")
        k = next(i for i, l in enumerate(lines) if '"ev":"put"' in l)
        with open(mut, "w") as f:
            f.writelines(lines[:k + 1] + [lines[k]] + lines[k + 1:2000])
        _, r2, _ = V.validate_trace(scratch, "Trace_Pool", "Trace_Pool.cfg", mut, sub="pool-self")
        if (k + 2) not in r2:
            raise V.Broken("binding self-test: a repeated put was accepted by Trace_Pool")
    return dict(events=len(lines), rejected=len(rejected), states=tres["states"]), bad


def confirm_in_context(harness, scratch, key, ctx, limit="50s", cmd="replay", extra_args=()):
    """A failure that does not show when the case runs alone may depend on what the process did before: re-runs, in one
    fresh process, the cases that preceded it in its worker. Returns (result of the case, context lines) or (None, None)."""
    if not ctx or len(ctx) < 2:
        return None, None
    # shorten: the failing case after the second half only, after the last quarter only ... as long as it still fails
    def run(lines):
        p = scratch.path("confirm-ctx.ndjson")
        with open(p, "w") as f:
            f.writelines(l if l.endswith("\n") else l + "\n" for l in lines)
        rs = V.replay(harness, p, scratch.path("confirm-ctx.res"), nworkers=1, limit=limit, cmd=cmd, extra_args=extra_args)
        for r in rs:
            if r.get("key") == key:
                return r
        return None
    r = run(ctx)
    if r is None or r["pass"]:
        return None, None
    last = ctx[-1]
    pre = ctx[:-1]
    while len(pre) > 1:
        half = pre[len(pre) // 2:]
        r2 = run(half + [last])
        if r2 is not None and not r2["pass"]:
            pre, r = half, r2
            continue
        half = pre[:len(pre) // 2]
        r2 = run(half + [last])
        if r2 is not None and not r2["pass"]:
            pre, r = half, r2
            continue
        break
    return r, pre + [last]


def mutate_expectation(case):
    """Binding self-test: flip the expectation so that a harness that compares
    anything at all must reject the case."""
    c = json.loads(json.dumps(case))
    if c.get("ops") is not None and "expect" not in c:
        # history cases (cachehist / attrhist): corrupt what the model says is observable after the last determined operation
        for op in reversed(c["ops"]):
            if isinstance(op.get("obs"), dict) and len(op["obs"].get("loads") or []) == 2:
                if op.get("anyserved"):
                    # (what this call serves is not compared: corrupt the cached names instead)
                    op["obs"]["cached"] = list(op["obs"].get("cached") or []) + ["zz"]
                    return c
                op["obs"]["served"] = op["obs"].get("served", 0) + 5
                return c
            if "want" in op and not op.get("any") and not op.get("flood"):
                op["want"] = list(op.get("want") or []) + [90, 81]
                return c
        return None
    e = c.get("expect", {})
    if e.get("anyoutcome"):
        # nothing is compared in such cases except "no panic / no hang / engine usable": simulate a panic
        cfg = dict(c.get("cfg") or {})
        cfg["selfpanic"] = True
        c["cfg"] = cfg
        return c
    if e.get("ok", True):
        e["out"] = list(e.get("out") or []) + [90, 90, 81]
        e["noout"] = False
        for r in c.get("runs", []):
            if r.get("out") is not None:
                r["out"] = list(r["out"]) + [90, 90, 81]
    else:
        e["ok"] = True
        e["out"] = [90]
    c["expect"] = e
    return c


def run_s2c(prop, tier, seed, opts):
    spec = P.PROPS[prop]
    t0 = time.time()
    scratch = V.Scratch()
    violations = []
    known_lines = []
    notes = []
    try:
        harness = V.build_harness(scratch)
        known = V.load_known(prop)
        # which listed findings still reproduce on this tree
        active = []
        for k in known:
            if "case" in k:
                r = confirm_alone(harness, scratch, json.dumps(k["case"]))
                if r is not None and not r["pass"]:
                    active.append(k)
                else:
                    notes.append("NOTE listed finding no longer reproduces: %s" % k.get("what"))
            else:
                active.append(k)
        hit = {}
        total_states = total_distinct = 0
        n_cases = n_runs = 0
        keys_nontrivial = set()
        samples = []
        stage_info = []
        all_failing = []
        trace_rejects = []
        pool_rejects = []
        case_lines_by_digest = {}
        for st in spec["stages"]:
            if st.get("c2s"):
                # code -> spec: a random Go driver runs the real engine far beyond TLC's exhaustive bounds;
                # what it did is recorded and validated by the TLC trace spec
                c2 = st["c2s"]
                genp = scratch.path("c2s-%s.ndjson" % st["name"])
                g = subprocess.run([harness, "gen", c2["gen"], "-seed", str(seed), "-n", str(c2["n"][tier]), "-len", str(c2.get("len", 60))],
                                   capture_output=True, text=True)
                if g.returncode != 0 or not g.stdout.strip():
                    raise V.Broken("generator %s failed: %s" % (c2["gen"], g.stderr[-1000:]))
                with open(genp, "w") as f:
                    f.write(g.stdout)
                obs_path = scratch.path("c2s-obs-%s.ndjson" % st["name"])
                results = V.replay(harness, genp, scratch.path("c2s-res-%s.ndjson" % st["name"]), nworkers=1, obs_path=obs_path, cmd=c2["cmd"])
                consumed, rejected, tres = V.validate_trace(scratch, c2["trace"]["module"], c2["trace"]["cfg"], obs_path,
                                                            sub="c2s-trace-" + st["name"], timeout=c2["trace"].get("timeout", 900))
                with open(obs_path) as f:
                    obs_lines = f.readlines()
                if consumed != len(obs_lines):
                    raise V.Broken("trace spec %s consumed %d of %d lines" % (c2["trace"]["module"], consumed, len(obs_lines)))
                import re as _re
                m = _re.search(r'"SKIPPED",\s*(\d+)', tres["out"])
                if m and int(m.group(1)) > 0:
                    raise V.Broken("random driver %s produced %s operations that are not enabled in the specification" % (c2["gen"], m.group(1)))
                total_states += tres["states"]
                total_distinct += tres["distinct"]
                n_cases += len(results)
                n_runs += len(obs_lines)
                for r in results:
                    keys_nontrivial.add(r.get("key"))
                    if not r["pass"]:
                        all_failing.append((r, None, c2["cmd"]))
                stage_info.append(dict(stage=st["name"], kind="code->spec trace validation", trace_spec=c2["trace"]["module"],
                                       traces=len(results), events=len(obs_lines), rejected=len(rejected)))
                samples.append({"stage": st["name"], "trace_head": [json.loads(x) for x in obs_lines[:3]]})
                trace_rejects.extend((dict(trace=c2["trace"]), json.loads(obs_lines[i - 1])) for i in rejected[:50])
                if opts.get("selftest") or tier == "thorough":
                    mut = scratch.path("c2s-mut.ndjson")
                    with open(mut, "w") as f:
                        for i, l in enumerate(obs_lines[:300]):
                            o = json.loads(l)
                            if i == 11 and isinstance(o.get("obs"), dict):
                                o["obs"]["served"] = 7
                            f.write(json.dumps(o) + "\n")
                    _, r2, _ = V.validate_trace(scratch, c2["trace"]["module"], c2["trace"]["cfg"], mut, sub="c2s-self")
                    if 12 not in r2:
                        raise V.Broken("binding self-test: corrupted trace line was accepted by %s" % c2["trace"]["module"])
                continue
            if tier not in st["cfg"]:
                continue
            files = {}
            if st.get("gen"):
                # random cases beyond TLC's enumeration bounds: the Go side draws ASTs,
                # TLC unparses them and computes the expectation
                genp = scratch.path("gen.ndjson")
                n = st["gen"][tier]
                g = subprocess.run([harness, "gen", st["gen"]["what"], "-seed", str(seed), "-n", str(n)],
                                   capture_output=True, text=True)
                if g.returncode != 0:
                    raise V.Broken("generator failed: " + g.stderr[-2000:])
                with open(genp, "w") as f:
                    f.write(g.stdout)
                files["gen.ndjson"] = genp
            extra = list(st.get("extra", {}).get(tier, []))
            if st.get("simulate"):
                extra += ["-simulate", "num=%d" % st["simulate"][tier], "-depth", str(st.get("depth", 1)), "-seed", str(seed)]
            res = V.run_tlc(scratch, st["module"], st["cfg"][tier], workers=st.get("workers", 16),
                            timeout=st.get("timeout", {}).get(tier, 1500), files=files, sub="tlc-" + st["name"], extra=extra)
            V.tlc_ok(res, st["module"] + "/" + st["cfg"][tier])
            if st.get("modelonly"):
                # a model whose ASSUME / invariants are the check; nothing to replay
                total_states += max(1, res["states"])
                total_distinct += max(1, res["distinct"])
                stage_info.append(dict(stage=st["name"], module=st["module"], cfg=st["cfg"][tier], kind="model only", tlc_wall_s=round(res["wall"], 1)))
                continue
            if res["emitted"] == 0:
                raise V.Broken("stage %s emitted no cases" % st["name"])
            if st.get("transform"):
                with open(res["cases"]) as f:
                    tl = st["transform"](f.readlines(), seed, tier)
                with open(res["cases"], "w") as f:
                    f.writelines(tl)
            total_states += res["states"]
            total_distinct += res["distinct"]
            obs_path = scratch.path("obs-%s.ndjson" % st["name"]) if st.get("trace") else None
            pool_path = scratch.path("pool-%s.ndjson" % st["name"]) if st.get("pooltrace", spec.get("pooltrace")) else None
            results = V.replay(harness, res["cases"], scratch.path("res-%s.ndjson" % st["name"]),
                               limit=st.get("limit", "5s"), obs_path=obs_path, cmd=st.get("cmd", "replay"),
                               extra_args=st.get("args", spec.get("args", ())), pool_path=pool_path)
            pool_info = None
            if pool_path:
                pool_info, pool_bad = check_pool_trace(scratch, pool_path, st["name"], opts.get("selftest") or tier == "thorough")
                total_states += pool_info["states"]
                total_distinct += pool_info["states"]
                pool_rejects.extend((st, b) for b in pool_bad)
            for r in results:
                if not r["pass"]:
                    r["_context"] = V.context_of(r.get("key"))      # what its process had run before (see confirm_in_context)
                    r["_args"] = st.get("args", spec.get("args", ()))
            trace_info = None
            if st.get("trace"):
                # code -> spec: TLC validates what the implementation produced
                consumed, rejected, tres = V.validate_trace(scratch, st["trace"]["module"], st["trace"]["cfg"], obs_path,
                                                            sub="trace-" + st["name"], timeout=st["trace"].get("timeout", 900))
                with open(obs_path) as f:
                    obs_lines = f.readlines()
                if consumed != len(obs_lines):
                    raise V.Broken("trace spec consumed %d of %d observation lines" % (consumed, len(obs_lines)))
                trace_info = dict(lines=len(obs_lines), rejected=len(rejected))
                total_states += tres["states"]
                total_distinct += tres["distinct"]
                trace_rejects.extend((st, json.loads(obs_lines[i - 1])) for i in rejected[:50])
                if opts.get("selftest") or tier == "thorough":
                    # binding self-test of the trace spec: corrupt one recorded field, expect a rejection
                    mut = scratch.path("obs-mut.ndjson")
                    with open(mut, "w") as f:
                        for i, l in enumerate(obs_lines[:200]):
                            o = json.loads(l)
                            if i == 7:
                                if st["trace"].get("mutate"):
                                    st["trace"]["mutate"](o)
                                else:
                                    o["out"] = (o.get("out") or []) + [60]
                            f.write(json.dumps(o) + "\n")
                    c2, r2, _ = V.validate_trace(scratch, st["trace"]["module"], st["trace"]["cfg"], mut, sub="trace-self")
                    if 8 not in r2:
                        raise V.Broken("binding self-test: corrupted observation line was accepted by %s" % st["trace"]["module"])
            if st.get("processes", 1) > 1:
                # the same cases in further sets of fresh processes: every case must give the same outcome
                base = {r.get("key"): r.get("digest") for r in results}
                for pi in range(1, st["processes"]):
                    again = V.replay(harness, res["cases"], scratch.path("res-%s-p%d.ndjson" % (st["name"], pi)),
                                     limit=st.get("limit", "5s"), cmd=st.get("cmd", "replay"), nworkers=max(1, V.NCPU - 3 * pi))
                    for r2 in again:
                        if base.get(r2.get("key")) != r2.get("digest"):
                            for r in results:
                                if r.get("key") == r2.get("key") and r["pass"]:
                                    r["pass"] = False
                                    r.setdefault("fails", []).append(dict(run="process-%d" % (pi + 1), why="differs-across-processes",
                                                                          got=r2.get("src"), want="", src=r2.get("src") or ""))
            with open(res["cases"]) as f:
                case_lines = {}
                for l in f:
                    c = json.loads(l)
                    case_lines[c.get("key")] = l
                    if pool_path:
                        case_lines_by_digest[hashlib.sha1((c.get("key") or "").encode()).hexdigest()[:16]] = l
            n_cases += len(results)
            n_runs += sum(r.get("runs", 1) for r in results)
            nt = spec.get("nontrivial", lambda r: True)
            for r in results:
                if nt(r):
                    keys_nontrivial.add(r.get("key"))
            for r in results[:: max(1, len(results) // 3)][:3]:
                samples.append({"stage": st["name"], "source": r.get("src"), "tags": r.get("tags"), "runs": r.get("runs")})
            failing = [r for r in results if not r["pass"]]
            stage_info.append(dict(stage=st["name"], module=st["module"], cfg=st["cfg"][tier], states=res["states"],
                                   distinct=res["distinct"], cases=len(results), failing=len(failing),
                                   tlc_wall_s=round(res["wall"], 1)))
            if trace_info:
                stage_info[-1]["trace"] = trace_info
            if pool_info:
                stage_info[-1]["pool_trace"] = pool_info
            for r in failing:
                all_failing.append((r, case_lines.get(r.get("key")), st.get("cmd", "replay")))
            # binding self-test on a sample of this stage
            if opts.get("selftest") or tier == "thorough":
                sample_lines = list(case_lines.values())[:40]
                mp = scratch.path("mut.ndjson")
                nmut = 0
                with open(mp, "w") as f:
                    for l in sample_lines:
                        mc = mutate_expectation(json.loads(l))
                        if mc is not None:
                            nmut += 1
                            f.write(json.dumps(mc) + "\n")
                if nmut == 0:
                    raise V.Broken("binding self-test: no case of stage %s could be corrupted" % st["name"])
                mres = V.replay(harness, mp, scratch.path("mut.res"), nworkers=4, cmd=st.get("cmd", "replay"), limit=st.get("limit", "5s"))
                if len(mres) != nmut or any(r["pass"] for r in mres):
                    raise V.Broken("binding self-test: a corrupted expectation was accepted in stage %s" % st["name"])
                stage_info[-1]["selftest_rejected"] = len(mres)
        # the specification sees each named defect class: with a deviation switched on TLC must find the counterexample
        # (vacuity guard); design-only modules are checked as they stand
        if opts.get("selftest") or tier == "thorough":
            for d in spec.get("design", []):
                res = V.run_tlc(scratch, d["module"], d["cfg"], workers=4, timeout=600, sub="design-" + d["cfg"])
                if "is violated" in res["out"] or "Model checking completed" not in res["out"]:
                    raise V.Broken("design module %s / %s does not hold" % (d["module"], d["cfg"]))
                stage_info.append(dict(stage="design:" + d["cfg"], module=d["module"], kind="model only", states=res["states"], distinct=res["distinct"]))
            for d in spec.get("deviations", []):
                res = V.run_tlc(scratch, d["module"], d["cfg"], workers=4, timeout=600, sub="dev-" + d["cfg"])
                if "is violated" not in res["out"]:
                    raise V.Broken("deviation config %s did not produce a counterexample" % d["cfg"])
                stage_info.append(dict(stage="deviation:" + d["cfg"], module=d["module"], kind="must violate " + d.get("inv", "an invariant"), violated=True))
        # triage
        unexplained = []
        for (r, line, cmd) in all_failing:
            k = V.attribute(r, active)
            if k is not None:
                hit.setdefault(k.get("what"), 0)
                hit[k.get("what")] += 1
            else:
                unexplained.append((r, line, cmd))
        if opts.get("triage"):
            for (r, line, cmd) in unexplained[:60]:
                f0 = r["fails"][0]
                print("TRIAGE %s | %s | %s | got=%r want=%r | tags=%s" % (
                    f0.get("run"), f0.get("src"), f0.get("why"), f0.get("got"), f0.get("want"), sorted(V.fail_tags(r))))
            print("TRIAGE total unexplained failing cases: %d" % len(unexplained))
        confirmed = 0
        attempts = in_context = 0
        t_conf = time.time()
        for (r, line, cmd) in unexplained:
            # (a hang costs its whole time limit again: one confirmed verdict is enough once five minutes have gone)
            if confirmed >= 10 or attempts >= 40 or (confirmed >= 1 and time.time() - t_conf > 300) or time.time() - t_conf > 1200:
                break
            if line is None:
                continue
            attempts += 1
            r2 = confirm_alone(harness, scratch, line, cmd=cmd)
            context = None
            if (r2 is None or r2["pass"]) and in_context >= 6:
                notes.append("NOTE failure not reproduced alone: %s" % r.get("src"))
                continue
            if r2 is None or r2["pass"]:
                in_context += 1
                # not a property of the case alone: does it follow from what ran in the same process before it?
                r2, context = confirm_in_context(harness, scratch, r.get("key"), r.get("_context"), cmd=cmd, extra_args=r.get("_args", ()))
                if r2 is None:
                    notes.append("NOTE failure not reproduced alone nor after its predecessors: %s" % r.get("src"))
                    continue
                V.log("  reproduced after %d earlier case(s) in the same process" % (len(context) - 1))
            if context is None and r2["fails"] and r2["fails"][0].get("why") == "crash":
                # a worker process that died: the verdict needs the death to repeat (alone, twice more) -- a single
                # death under memory pressure or a misattributed one is a note
                again = [confirm_alone(harness, scratch, line, cmd=cmd) for _ in range(2)]
                if not all(a is not None and not a["pass"] and a["fails"][0].get("why") == "crash" for a in again):
                    notes.append("NOTE a worker process died on this case and did not die again when it was re-run alone: %s | %s" % (
                        r.get("src"), (r2["fails"][0].get("got") or "")[:200].replace("\n", " / ")))
                    continue
            confirmed += 1
            path = V.save_replay(prop, line, r2, context)
            f0 = r2["fails"][0]
            violations.append("VIOLATION property=%s replay=%s" % (prop, path))
            V.log("  violating case: %s | %s | %s got=%r want=%r" % (f0.get("run"), f0.get("src"), f0.get("why"), f0.get("got"), f0.get("want")))
        # events of the render-context pools that break PoolDiscipline: the case they belong to (and the cases its
        # process ran before it) is the replayable witness
        for (st, b) in pool_rejects[:10]:
            line = case_lines_by_digest.get(b["case"])
            ctx = V.context_of(json.loads(line).get("key")) if line else None
            os.makedirs(V.REPLAYS, exist_ok=True)
            path = os.path.join(V.REPLAYS, "%s-pool-%s.json" % (prop, hashlib.sha1(json.dumps(b, sort_keys=True).encode()).hexdigest()[:12]))
            with open(path, "w") as f:
                json.dump({"property": prop, "pool_event": b, "trace_spec": "Trace_Pool", "case": json.loads(line) if line else None,
                           "context": [json.loads(x) for x in (ctx or [])]}, f)
            violations.append("VIOLATION property=%s replay=%s" % (prop, path))
            V.log("  pool discipline broken: %s (event %s of case %s)" % (b["why"], json.dumps(b["event"]), (json.loads(line).get("key") if line else "?")[:200]))
        for (st, o) in trace_rejects[:10]:
            os.makedirs(V.REPLAYS, exist_ok=True)
            path = os.path.join(V.REPLAYS, "%s-trace-%s.json" % (prop, hashlib.sha1(json.dumps(o, sort_keys=True).encode()).hexdigest()[:12]))
            with open(path, "w") as f:
                json.dump({"property": prop, "rejected_observation": o, "trace_spec": st["trace"]["module"]}, f)
            violations.append("VIOLATION property=%s replay=%s" % (prop, path))
            V.log("  rejected observation: %s" % json.dumps(o)[:300])
        for k in active:
            n = hit.get(k.get("what"), 0)
            known_lines.append("KNOWN-FINDING: property=%s %s (explains %d failing cases of this run)" % (prop, k.get("what"), n))
        wall = time.time() - t0
        cov = dict(states=max(1, total_distinct), transitions=max(1, total_states),
                   traces_validated_against_impl=n_runs, evaluations=n_runs,
                   distinct_nontrivial=len(keys_nontrivial), rule=spec.get("rule", ""),
                   samples=samples, stages=stage_info, cases=n_cases,
                   failing_cases=len(all_failing), unexplained_failing=len(unexplained),
                   known_findings_active=[k.get("what") for k in active],
                   exhaustive=all(not s.get("simulate") and not s.get("gen") for s in spec["stages"] if tier in s["cfg"]))
        V.write_evidence(prop, tier, seed, spec.get("level", "model_checking"), cov, wall, len(violations),
                         spec.get("assumptions", []))
        for n in notes:
            print(n)
        for l in known_lines:
            print(l)
        for v in violations:
            print(v)
        print("%s %s: %d cases / %d renders, %d failing, %d unexplained, %d violations, %.1fs" % (
            prop, tier, n_cases, n_runs, len(all_failing), len(unexplained), len(violations), wall))
        return 1 if violations else 0
    finally:
        scratch.cleanup()


def replay_file(prop, path):
    scratch = V.Scratch()
    try:
        harness = V.build_harness(scratch)
        with open(path) as f:
            d = json.load(f)
        case = d.get("case", d)
        if d.get("context"):
            p = scratch.path("replay-ctx.ndjson")
            with open(p, "w") as f:
                for c in d["context"]:
                    f.write(json.dumps(c) + "\n")
            rs = V.replay(harness, p, scratch.path("replay-ctx.res"), nworkers=1, limit="50s",
                          extra_args=P.PROPS.get(prop, {}).get("args", ()))
            r = next((x for x in rs if x.get("key") == case.get("key")), None)
        else:
            r = confirm_alone(harness, scratch, json.dumps(case))
        print(json.dumps(r, indent=1))
        if r is None:
            return 2
        if not r["pass"]:
            print("VIOLATION property=%s replay=%s" % (prop, path))
            return 1
        return 0
    finally:
        scratch.cleanup()


def main():
    args = sys.argv[1:]
    if not args:
        print(__doc__)
        return 2
    prop = args[0]
    tier = os.environ.get("VERIF_TIER", "quick")
    opts = {}
    i = 1
    replay = None
    while i < len(args):
        a = args[i]
        if a in ("quick", "thorough"):
            tier = a
        elif a == "--replay":
            replay = args[i + 1]
            i += 1
        elif a == "--selftest":
            opts["selftest"] = True
        elif a == "--triage":
            opts["triage"] = True
        i += 1
    seed = int(os.environ.get("VERIF_SEED", "1"))
    try:
        if replay:
            fn = P.PROPS.get(prop, {}).get("replay")
            return fn(prop, replay) if fn else replay_file(prop, replay)
        spec = P.PROPS.get(prop)
        if spec is None:
            print("unknown property", prop)
            return 2
        if "run" in spec:
            return spec["run"](prop, tier, seed, opts)
        return run_s2c(prop, tier, seed, opts)
    except V.Broken as e:
        print("CHECK-BROKEN property=%s: %s" % (prop, e))
        return 2


if __name__ == "__main__":
    sys.exit(main())
