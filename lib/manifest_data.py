HOOK_COMMITS = []
NOTES = ("Model-based verification with an explicit TLA+ specification (spec/). Properties not yet listed under checks "
         "are still being built; until their check is registered they are listed under not_applicable with that reason.")

CHECKS = {
    "C08": dict(
        level="model_checking",
        text="TLC enumerates every typed expression tree up to a bound, evaluates it with the reference semantics "
             "(TwigSem.tla) and prints it with the table-driven printer (TwigSyntax.tla); every tree is rendered by the "
             "real engine with minimal and full parentheses, three spacings and ten syntactic positions and compared "
             "byte-for-byte and by spy-call counts with the model's result.",
        ref="DESIGN.md section 6 C08",
        note="Trusted: TLC, the reference semantics, the Go harness (concatenates pieces, compares). Bounded: trees up to "
             "2 (quick) / 3 (thorough) binary operators over a fixed leaf set; integers within +-10^9.",
        technique="TLA+ reference semantics + TLC case enumeration, spec-to-code replay"),
}

_ALL = ["C%02d" % i for i in range(1, 21)]
NOT_APPLICABLE = {p: "check under construction in this session (specification module exists or is planned in DESIGN.md); not claimed until it runs green"
                  for p in _ALL if p not in CHECKS}
