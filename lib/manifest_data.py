HOOK_COMMITS = ["54b21b4", "8bce86c", "fb2c2cd", "16189f5", "c575742", "2c62729"]
NOTES = ("Model-based verification with an explicit TLA+ specification (spec/): TwigText/TwigValues/TwigSem/TwigSyntax are the "
         "reference semantics and printer; MC_Cxx are the bounded models TLC checks and enumerates; Trace_Cxx validate recorded "
         "behaviour of the implementation. Properties not yet listed under checks are still being built; until their check is "
         "registered they are listed under not_applicable with that reason.")

_S2C = ("TLC model-checks the bounded model (model-level invariants named in the module header) and emits every explored case with "
        "the expectation computed by the TLA+ reference semantics; the Go harness replays each case against /repo's working tree "
        "on a fresh engine and compares bytes, error identity and spy-call counts.")
_NOTE = ("Trusted: TLC, the reference semantics in spec/TwigSem.tla, the Go harness (concatenates source pieces, builds context "
         "values, compares). Bounded by the constants in the .cfg files; outside the fragment predicates nothing is claimed.")

def _c(text, technique, ref):
    return dict(level="model_checking", text=text + " " + _S2C, ref=ref, note=_NOTE, technique=technique)

CHECKS = {
    "C04": _c("Every admissible literal byte string around every tag kind, every short literal, comment and verbatim body.",
              "TLA+ model + TLC enumeration of byte contexts, spec-to-code replay", "DESIGN.md 6/C04"),
    "C06": _c("Position x route x policy enumeration; TLC checks Confined on the model; spies count invocations (forbidden spy count 0 whatever the outcome).",
              "TLA+ sandbox derivation-tree model (Confined) + TLC enumeration, spec-to-code replay with spies", "DESIGN.md 6/C06"),
    "C07": _c("Every short string over the HTML-special alphabet x 9 filter positions x escape/e; the engine's outputs are recorded and validated by the TLC trace spec Trace_C07 (ValidEscape).",
              "TLC exhaustive generation + TLC trace validation of recorded outputs (ValidEscape)", "DESIGN.md 6/C07"),
    "C08": _c("Every typed expression tree up to 2 (quick) / 3 (thorough) binary operators, minimal vs full parentheses, 3 spacings, 10 positions, short-circuit/conditional spy families.",
              "TLA+ reference semantics + operator table + TLC case enumeration, spec-to-code replay", "DESIGN.md 6/C08"),
    "C09": _c("if-chains over condition values of every type, loops over lists/strings/ranges with all 7 counters, nested loops, set programs.",
              "TLA+ big-step Exec + TLC program enumeration, spec-to-code replay", "DESIGN.md 6/C09"),
    "C10": _c("Extends chains up to 4 levels x per-level block definition kinds x 5 base layouts, dynamic parent.",
              "TLA+ block-chain semantics + TLC enumeration, spec-to-code replay", "DESIGN.md 6/C10"),
    "C11": _c("with/only/ignore missing x name forms x behaviours of the included template x placements; 2-run non-interference (include removed).",
              "TLA+ Exec + NonInterference invariant + TLC enumeration, two real renders per case", "DESIGN.md 6/C11"),
    "C12": _c("Arity x defaults x argument counts x body kinds x call sites, each in up to 5 call forms (FormsAgree checked on the model).",
              "TLA+ BindParams/CallMacro + TLC enumeration, metamorphic replay over call forms", "DESIGN.md 6/C12"),
    "C13": _c("Corpus covering every tag kind x dash sets x whitespace styles; dashed source vs hand-trimmed source, both rendered.",
              "TLA+ piece-level dash/hand-trim model + TLC enumeration, metamorphic replay", "DESIGN.md 6/C13"),
    "C14": _c("C13 corpus x pad positions x pad contents x lengths straddling 4096 bytes and up to 300 KB, three writers.",
              "TLA+ symbolic padding model + TLC enumeration, metamorphic replay with Go-side pad expansion", "DESIGN.md 6/C14"),
    "C01": dict(level="model_checking",
                text="EngineLife.tla models what a sequence of public calls does to the logical state of engines and makes rendering an "
                     "uninterpreted function of that state (key). TLC checks RenderPure / FailedOpsPure / NoStaleRender and enumerates every "
                     "operation history up to a bound; each history is replayed on real engines (histories back-to-back in worker processes) and "
                     "every render is compared with the pristine result of its key, computed by a fresh engine in a fresh OS process.",
                ref="DESIGN.md 6/C01", note=_NOTE + " The deviation config (RenderReleasesRoot) must produce TLC's counterexample (vacuity guard).",
                technique="TLA+ lifecycle state machine + TLC history enumeration, replay against real engines with a fresh-process oracle"),
    "C15": dict(level="model_checking",
                text="CacheLoaders.tla is the rule set of cache, auto-reload and loader order; TLC checks the property's six sentences as action "
                     "properties, enumerates every history of 4 operations plus random walks, and the harness compares the engine's observable "
                     "state (served version, per-loader Load counters, cached names) after every operation, also with the loaders as real "
                     "FileSystemLoader / CompiledLoader / ChainLoader (over counting loaders, a FileSystemLoader, an ArrayLoader with an empty source). Random Go-driven histories of 80 "
                     "operations are recorded and validated against the same state machine by the TLC trace spec Trace_C15.",
                ref="DESIGN.md 6/C15", note=_NOTE, technique="TLA+ state machine, TLC exhaustive + simulation, state-by-state replay, TLC trace validation of recorded histories"),
    "C19": _c("Every short string / list / typed slice / map x the filter chains of the property's equations; slice index rules exhaustively; "
              "TLC checks the equations (Laws) on the reference definitions.",
              "TLA+ reference filter definitions + Laws checked by TLC, spec-to-code replay through a value-dump filter", "DESIGN.md 6/C19"),
    "C20": dict(level="model_checking",
                text="AttrCache.tla has the memo explicitly (capacity, nondeterministic eviction victims, entries are resolutions re-applied to the "
                     "object); TLC checks CacheUnobservable (lookup through the memo = Member) for every lookup history and victim choice and must "
                     "find the counterexamples of the two named deviations. Histories are replayed against the real cache set to the model's "
                     "capacity through the verif hook, and at production capacity with floods of fresh (type, name) pairs.",
                ref="DESIGN.md 6/C20", note=_NOTE, technique="TLA+ memo model (CacheUnobservable) + TLC exhaustive/simulation, history replay at model capacity via hook"),
    "C02": dict(level="model_checking",
                text="Concurrency.tla models the calls as steps at the code's critical points with the location, access mode and lock of every step; "
                     "TLC checks NoConflictingAccess, TokensIntact, RelativeNameOwn, SerialEquivalent, SingleOwner on all interleavings of 3 "
                     "goroutines and must find the counterexample of each named deviation. Every complete schedule of 2 goroutines over the 5 "
                     "gates is replayed through the hooks against the real engine with the model's result per call (and the gates each goroutine "
                     "passes must be the model's steps). Ungated stress runs under the race detector with serial comparison; recorded "
                     "RegisterString||Render histories are checked for linearizability by the TLC trace spec Trace_C02.",
                ref="DESIGN.md 6/C02", note=_NOTE + " The race detector only sees executed interleavings; sync.Pool reuse is not controllable.",
                technique="TLA+ interleaving model + TLC schedule enumeration replayed through gate hooks, race-detector stress, TLC linearizability trace validation"),
    "C03": _c("Map-consuming programs classified by TLC as order-sensitive (reference output changes under a permutation of the key order), "
              "every short date format, values carrying addresses; 24 renders on fresh engines/context values + 8 with reversed insertion "
              "order, in 3 independent sets of processes, all byte-identical (no reference order assumed).",
              "TLA+ order-sensitivity classification + TLC enumeration, metamorphic replay (repeat / reinsertion / cross-process)", "DESIGN.md 6/C03"),
    "C16": _c("CompiledFmt.tla (byte layout, Decode o Encode = id, prefixes rejected, checked by TLC); names x sources x timestamps x contexts "
              "driven through Compile/Serialize/Deserialize/RegisterCompiled/LoadFromCompiledData/CompiledLoader on real engines; "
              "the serialised bytes are validated against the layout by the TLC trace spec Trace_C16.",
              "TLA+ format model + TLC enumeration, replay on real engines, TLC trace validation of written bytes", "DESIGN.md 6/C16"),
    "C18": dict(level="exploration",
                text="TLC enumerates filter chains, re-observations of intermediate values and scope writes over shared nested data and computes "
                     "what they print (values are immutable in the reference semantics); each case is rendered twice with the SAME context value "
                     "and a deep snapshot of the caller's data (incl. slice capacity windows) is compared before/after.",
                ref="DESIGN.md 6/C18", note=_NOTE + " The verdict on mutation is an observation of the real code (snapshot), hence exploration.",
                technique="TLC-enumerated programs with model expectations + deep snapshot of caller data around two shared renders"),
    "C05": dict(level="exploration",
                text="The specification supplies the input spaces (token-class sequences, context value shapes x skeleton templates, structured "
                     "corruptions of CompiledFmt encodings) and the contract (Ok or Err, engine usable afterwards); the harness observes the real "
                     "code: no panic, no hang, no process death, probe render still correct.",
                ref="DESIGN.md 6/C05", note=_NOTE + " Observational verdict, hence exploration.",
                technique="TLC-enumerated input spaces (tokens / value shapes / format corruptions) + crash, hang and usability observation"),
    "C17": _c("Corpus with a spy at every callback position; every single-fault placement, loader faults, unresolved names; 6 render variants.",
              "TLA+ Exec with fault schedule (Surfaces) + TLC fault enumeration, spec-to-code replay", "DESIGN.md 6/C17"),
}

_ALL = ["C%02d" % i for i in range(1, 21)]
NOT_APPLICABLE = {p: "check under construction (not claimed until it runs green)" for p in _ALL if p not in CHECKS}
