"""C02: concurrent use of one engine is safe and equals serial use (Concurrency.tla, Trace_C02.tla)."""
import hashlib
import json
import os
import re
import subprocess
import time

import vcore as V

SCHED_CFGS = {"quick": ["MC_C02_cold.cfg", "MC_C02_dirs.cfg", "MC_C02_regrender.cfg", "MC_C02_reload.cfg", "MC_C02_regcold.cfg"],
              "thorough": ["MC_C02_cold.cfg", "MC_C02_dirs.cfg", "MC_C02_regrender.cfg", "MC_C02_reload.cfg", "MC_C02_regcold.cfg"]}
INV_CFGS = {"quick": ["MC_C02_regrender3.cfg"], "thorough": ["MC_C02_cold3.cfg", "MC_C02_dirs3.cfg", "MC_C02_regrender3.cfg", "MC_C02_reload3.cfg", "MC_C02_regcold3.cfg"]}
DEVIATIONS = ["MC_C02_dev_early.cfg", "MC_C02_dev_paths.cfg", "MC_C02_dev_cur.cfg", "MC_C02_dev_blind.cfg"]


def twig_races(stderr_text):
    """Race-detector reports in which both accesses have a frame of the library."""
    out = []
    for block in stderr_text.split("=================="):
        if "WARNING: DATA RACE" not in block:
            continue
        parts = re.split(r"\n\s*\n", block.strip())
        accesses = [p for p in parts if re.match(r"\s*(WARNING: DATA RACE\s*)?(Read|Write|Previous read|Previous write|Atomic)", p.strip())]
        hits = [p for p in accesses[:2] if "github.com/semihalev/twig" in p]
        if len(hits) >= 2 or (len(accesses) < 2 and "github.com/semihalev/twig." in block):
            out.append(block.strip()[:3000])
    return out


def save(name, payload):
    os.makedirs(V.REPLAYS, exist_ok=True)
    path = os.path.join(V.REPLAYS, "C02-%s-%s.json" % (name, hashlib.sha1(json.dumps(payload, sort_keys=True).encode()).hexdigest()[:12]))
    with open(path, "w") as f:
        json.dump(payload, f)
    return path


def run(prop, tier, seed, opts):
    t0 = time.time()
    scratch = V.Scratch()
    violations, notes, stage_info, samples = [], [], [], []
    states = distinct = 0
    n_sched = n_events = n_calls = n_pool = 0
    try:
        harness = V.build_harness(scratch)
        race_harness = V.build_harness(scratch, race=True, name="harness-race")
        # 1. the model: invariants on all interleavings (3 goroutines, history hidden by a VIEW)
        for cfg in INV_CFGS[tier]:
            res = V.run_tlc(scratch, "Concurrency", cfg, workers=8, timeout=900, sub="inv-" + cfg)
            V.tlc_ok(res, "Concurrency/" + cfg)
            states += res["states"]
            distinct += res["distinct"]
            stage_info.append(dict(stage="invariants", cfg=cfg, states=res["states"], distinct=res["distinct"]))
        # 2. every complete schedule of 2 goroutines over the gates, replayed through the hooks
        for cfg in SCHED_CFGS[tier]:
            res = V.run_tlc(scratch, "Concurrency", cfg, workers=8, timeout=900, sub="sched-" + cfg)
            V.tlc_ok(res, "Concurrency/" + cfg)
            if res["emitted"] == 0:
                raise V.Broken("no schedules emitted by " + cfg)
            states += res["states"]
            distinct += res["distinct"]
            with open(res["cases"]) as f:
                lines = f.readlines()
            nw = 8
            procs = []
            for i in range(nw):
                share = lines[i::nw]
                if not share:
                    continue
                p = subprocess.Popen(["timeout", "600", harness, "sched"], stdin=subprocess.PIPE, stdout=subprocess.PIPE, stderr=subprocess.PIPE, text=True)
                procs.append((p, share))
            results = []
            for p, share in procs:
                out, err = p.communicate("".join(share))
                if p.returncode != 0:
                    raise V.Broken("schedule replay worker failed rc=%s: %s" % (p.returncode, err[-1500:]))
                got = [json.loads(l) for l in out.splitlines() if l.strip()]
                if len(got) != len(share):
                    raise V.Broken("schedule replay returned %d results for %d schedules" % (len(got), len(share)))
                results.extend(zip(got, share))
            n_sched += len(results)
            bad = [(r, l) for (r, l) in results if not r["pass"]]
            stage_info.append(dict(stage="schedule replay", cfg=cfg, schedules=len(results), failing=len(bad), states=res["states"]))
            samples.append({"schedule": results[len(results) // 2][0].get("src")})
            for (r, l) in bad[:5]:
                # confirm alone
                p = subprocess.run(["timeout", "120", harness, "sched"], input=l, capture_output=True, text=True)
                again = [json.loads(x) for x in p.stdout.splitlines() if x.strip()]
                if again and not again[0]["pass"]:
                    path = save("schedule", {"property": "C02", "schedule_case": json.loads(l), "observed": again[0]})
                    violations.append("VIOLATION property=C02 replay=%s" % path)
                    f0 = again[0]["fails"][0]
                    V.log("  violating schedule: %s | %s got=%r want=%r" % (again[0].get("src"), f0.get("why"), f0.get("got"), f0.get("want")))
                else:
                    notes.append("NOTE schedule failure not reproduced alone: %s" % r.get("src"))
        # 3. ungated stress under the race detector + serial comparison + linearizability of recorded histories
        modes = ["cacheon", "cacheoff", "autoreload", "smallattr", "debug"]
        rounds = 2 if tier == "quick" else 12
        deadlocked = False
        for rnd in range(rounds):
            if deadlocked:
                break
            for mode in modes:
                s = seed * 1000 + rnd
                obs = scratch.path("events-%s-%d.ndjson" % (mode, rnd))
                pool = scratch.path("pool-%s-%d.ndjson" % (mode, rnd))
                env = dict(os.environ, GORACE="halt_on_error=0")
                if rnd % 2 == 0:
                    # (every other round: the recording serialises the pool traffic, which hides races from the race detector)
                    env["VERIF_POOL_TRACE"] = pool
                p = subprocess.run(["timeout", "150", race_harness, "stress", "-seed", str(s), "-g", "8", "-k", "60" if tier == "quick" else "150",
                                    "-mode", mode, "-obs", obs], capture_output=True, text=True, env=env)
                summary = None
                for l in p.stdout.splitlines():
                    if l.startswith("{"):
                        summary = json.loads(l)
                races = twig_races(p.stderr)
                fatal = [l for l in p.stderr.splitlines() if l.startswith("fatal error:") or l.startswith("panic:")]
                if summary is None and not races and not fatal and p.returncode == 124:
                    # 480 (1200) calls that normally take a second or two did not come back within 150 s: some call waits for ever
                    path = save("deadlock", {"property": "C02", "mode": mode, "seed": s, "cmd": "harness(-race) stress -seed %d -mode %s" % (s, mode),
                                             "what": "the stress run did not terminate within 150 s"})
                    violations.append("VIOLATION property=C02 replay=%s" % path)
                    V.log("  stress run did not terminate (mode %s): calls wait for each other for ever" % mode)
                    deadlocked = True
                    break
                if summary is None and not races and not fatal:
                    raise V.Broken("stress run gave no summary (rc=%s): %s" % (p.returncode, p.stderr[-1500:]))
                if fatal:
                    path = save("fatal", {"property": "C02", "mode": mode, "seed": s, "stderr": p.stderr[-6000:]})
                    violations.append("VIOLATION property=C02 replay=%s" % path)
                    V.log("  fatal runtime error under concurrent use: %s" % fatal[0])
                if races:
                    path = save("race", {"property": "C02", "mode": mode, "seed": s, "cmd": "harness(-race) stress -seed %d -mode %s" % (s, mode), "reports": races[:5]})
                    violations.append("VIOLATION property=C02 replay=%s" % path)
                    V.log("  %d data race report(s) with library frames in both accesses (mode %s)" % (len(races), mode))
                if summary:
                    n_calls += summary["calls"]
                    if summary.get("mismatches"):
                        path = save("serial", {"property": "C02", "mode": mode, "seed": s, "mismatches": summary["mismatches"]})
                        violations.append("VIOLATION property=C02 replay=%s" % path)
                        m0 = summary["mismatches"][0]
                        V.log("  concurrent result differs from serial: %s -> %r, serial %r" % (m0["call"].get("op") + " " + m0["call"].get("name"), m0["call"].get("out"), m0["serial"]))
                # the traffic of the render-context pools under concurrent use, against PoolDiscipline
                if os.path.exists(pool) and os.path.getsize(pool) > 0 and not fatal:
                    import check as CK
                    pinfo, pbad = CK.check_pool_trace(scratch, pool, "stress-%s-%d" % (mode, rnd), False)
                    n_pool += pinfo["events"]
                    states += pinfo["states"]
                    distinct += pinfo["states"]
                    if pbad:
                        path = save("pool", {"property": "C02", "mode": mode, "seed": s, "pool_events": pbad[:10], "trace_spec": "Trace_Pool"})
                        violations.append("VIOLATION property=C02 replay=%s" % path)
                        V.log("  pool discipline broken under concurrent use: %s" % pbad[0]["why"])
                # linearizability of RegisterString || Render
                if os.path.exists(obs) and os.path.getsize(obs) > 0:
                    with open(obs) as f:
                        nev = len(f.readlines())
                    n_events += nev
                    res = V.run_tlc(scratch, "Trace_C02", "Trace_C02.cfg", workers=1, timeout=600, files={"trace.ndjson": obs}, sub="lin",
                                    java_opts="-Dtlc2.tool.queue.IStateQueue=StateDeque")
                    m = re.search(r'"LINEARIZED",\s*(\d+),\s*(\d+)', res["out"])
                    if not m:
                        raise V.Broken("Trace_C02 printed no verdict: " + res["out"][-1500:])
                    states += res["states"]
                    distinct += res["distinct"]
                    if int(m.group(1)) != int(m.group(2)):
                        with open(obs) as f:
                            evs = [json.loads(x) for x in f]
                        path = save("history", {"property": "C02", "mode": mode, "seed": s, "linearized": int(m.group(1)), "events": evs})
                        violations.append("VIOLATION property=C02 replay=%s" % path)
                        V.log("  recorded history is not linearizable: %s of %s events" % (m.group(1), m.group(2)))
                    if rnd == 0 and mode == "cacheon":
                        with open(obs) as f:
                            samples.append({"history_head": [json.loads(x) for x in f.readlines()[:4]]})
                if len(violations) >= 10:
                    break
            if len(violations) >= 10:
                break
        stage_info.append(dict(stage="stress under -race + serial comparison + linearizability", rounds=rounds, modes=modes, calls=n_calls, events=n_events, pool_events=n_pool))
        # 4. the model sees each defect class: every named deviation must violate an invariant (vacuity guard);
        #    binding self-test of the linearizability spec: a stale read must be rejected
        dev_info = None
        if tier == "thorough" or opts.get("selftest"):
            for cfg in DEVIATIONS:
                res = V.run_tlc(scratch, "Concurrency", cfg, workers=4, timeout=600, sub="dev-" + cfg)
                if "is violated" not in res["out"]:
                    raise V.Broken("deviation config %s did not produce a counterexample" % cfg)
            dev_info = "EarlyTokPut / UnguardedPaths / SharedCurrent / BlindInsert each violate an invariant (as intended)"
            bad = scratch.path("bad-history.ndjson")
            with open(bad, "w") as f:
                f.write(json.dumps({"g": 1, "op": "register", "n": "v1", "ver": 1, "got": 0, "call": 1, "ret": 2, "ok": True}) + "\n")
                f.write(json.dumps({"g": 2, "op": "render", "n": "v1", "ver": 0, "got": 0, "call": 3, "ret": 4, "ok": True}) + "\n")
            res = V.run_tlc(scratch, "Trace_C02", "Trace_C02.cfg", workers=1, timeout=300, files={"trace.ndjson": bad}, sub="lin-self",
                            java_opts="-Dtlc2.tool.queue.IStateQueue=StateDeque")
            m = re.search(r'"LINEARIZED",\s*(\d+),\s*(\d+)', res["out"])
            if not m or int(m.group(1)) == int(m.group(2)):
                raise V.Broken("binding self-test: a stale read was accepted by Trace_C02")
        wall = time.time() - t0
        cov = dict(states=max(1, distinct), transitions=max(1, states), traces_validated_against_impl=n_sched + n_events,
                   evaluations=n_sched + n_calls, distinct_nontrivial=n_sched,
                   rule="every complete schedule of 2 goroutines over the 6 gates (lookup, tokget, readtokens, tokput, insert, render) for 4 workloads "
                        "(cold cache same name; two directories with relative includes; RegisterString || Render; auto-reload of a stale cached "
                        "copy) replayed through the hooks with "
                        "the model's result per call; all interleavings of 3 goroutines model-checked; ungated stress of 8 goroutines in 3 "
                        "cache modes under the race detector with serial comparison; recorded RegisterString||Render histories checked for "
                        "linearizability by Trace_C02; every schedule has 2 goroutines interleaved (non-trivial)",
                   samples=samples, stages=stage_info, deviation_check=dev_info, exhaustive=False)
        V.write_evidence(prop, tier, seed, "model_checking", cov, wall, len(violations),
                         ["Concurrency.tla: steps, locations and locks as in the code; TLC checks NoConflictingAccess, TokensIntact, "
                          "RelativeNameOwn, SerialEquivalent, SingleOwner", "gates add happens-before edges, hence the separate ungated run "
                          "under the race detector; the detector only sees executed interleavings",
                          "goroutine identity in the hook is taken from runtime.Stack"])
        for n in notes:
            print(n)
        for v in violations[:10]:
            print(v)
        print("C02 %s: %d schedules replayed, %d stress calls, %d history events, %d violations, %.1fs" % (
            tier, n_sched, n_calls, n_events, len(violations), wall))
        return 1 if violations else 0
    finally:
        scratch.cleanup()


def replay(prop, path):
    scratch = V.Scratch()
    try:
        with open(path) as f:
            d = json.load(f)
        if "schedule_case" in d:
            harness = V.build_harness(scratch)
            p = subprocess.run(["timeout", "120", harness, "sched"], input=json.dumps(d["schedule_case"]) + "\n", capture_output=True, text=True)
            print(p.stdout)
            r = [json.loads(x) for x in p.stdout.splitlines() if x.strip()]
            if r and not r[0]["pass"]:
                print("VIOLATION property=%s replay=%s" % (prop, path))
                return 1
            return 0
        race_harness = V.build_harness(scratch, race=True, name="harness-race")
        p = subprocess.run(["timeout", "300", race_harness, "stress", "-seed", str(d.get("seed", 1)), "-mode", d.get("mode", "cacheon")],
                           capture_output=True, text=True, env=dict(os.environ, GORACE="halt_on_error=0"))
        print(p.stdout[-2000:])
        races = twig_races(p.stderr)
        bad = bool(races) or '"mismatches":[' in p.stdout
        if bad:
            print("VIOLATION property=%s replay=%s" % (prop, path))
            return 1
        return 0
    finally:
        scratch.cleanup()
