#!/usr/bin/env python3
"""Writes /verif/MANIFEST.json from the table below (kept in one place so the file is always valid)."""
import json, os, sys
sys.path.insert(0, os.path.dirname(os.path.abspath(__file__)))
import manifest_data as D

checks = []
for pid in sorted(D.CHECKS):
    c = D.CHECKS[pid]
    checks.append(dict(
        property_id=pid,
        quick_cmd="./check %s quick" % pid,
        thorough_cmd="./check %s thorough" % pid,
        evidence_file="evidence/%s.json" % pid,
        replay_cmd_template="./check %s --replay {path}" % pid,
        engine="tlc+go-harness",
        level_claimed=dict(category=c["level"], text=c["text"], design_ref=c["ref"]),
        level_note=c["note"],
        technique=c["technique"],
    ))
m = dict(
    version=1,
    setup_cmd="./setup.sh",
    hooks=dict(guard="verif", enable="go build -tags verif (the harness is always built with it)",
               baseline_off_cmd="cd /repo && GOFLAGS=-mod=mod GOPROXY=off go test -count=1 -vet=off ./...",
               source_commits=D.HOOK_COMMITS, add_only=True),
    engines=[dict(name="tlc+go-harness", path="spec/ + harness/ + lib/",
                  serves_properties=sorted(D.CHECKS),
                  kind_free_text="TLA+ specification checked and enumerated by TLC; cases/behaviours replayed by a Go harness against /repo; recorded traces validated by TLC trace specs")],
    checks=checks,
    notes=D.NOTES,
    not_applicable=[dict(property_id=k, reason=v) for k, v in sorted(D.NOT_APPLICABLE.items())],
)
json.dump(m, open(os.path.join(os.path.dirname(os.path.dirname(os.path.abspath(__file__))), "MANIFEST.json"), "w"), indent=1)
print("MANIFEST.json written:", len(checks), "checks,", len(D.NOT_APPLICABLE), "not applicable")
