#!/bin/bash
# seedpack.sh <id> <batch> <demo_test_name> <what> <needs>: packs an agent worktree /tmp/wt/<id> (uncommitted change + seed_demo_test.go) into
# seeded/<id>/, confirms it (lib/seedtest.sh) and runs the property check against it from a snapshot /tmp/mut/snap of /verif
# (rsync -a --exclude .git --exclude replays --exclude seeded /verif/ /tmp/mut/snap/ first)
# pack.sh <id> <batch> <demo_test_name> <what> <needs>
id=$1; B=$2; P=${id%-*}; d=/verif/seeded/$id; wt=/tmp/wt/$id
mkdir -p $d
git -C $wt diff > $d/patch.diff
cp $wt/seed_demo_test.go $d/demo_test.go
files=$(git -C $wt diff --name-only | python3 -c "import sys,json; print(json.dumps(sys.stdin.read().split()))")
python3 - "$d" "$P" "$3" "$4" "$5" "$files" "$B" <<'PY'
import json,sys,subprocess
d,P,t,what,needs,files,B=sys.argv[1:8]
head=subprocess.check_output(['git','-C','/repo','rev-parse','--short','HEAD']).decode().strip()
json.dump({"property":P,"what":what,"needs":needs,"demo_test":t,"files":json.loads(files),
 "confirmed":{"how":"scratch worktree of /repo HEAD; demo test passes on the clean tree, fails with the patch; the full existing suite passes with the patch","base_commit":head},
 "batch":int(B),"results":[]},open(d+'/meta.json','w'),indent=1)
PY
git -C $wt checkout -q -- . ; rm -f $wt/seed_demo_test.go
mkdir -p /tmp/mut/$id
(cd /verif && VERIF_DIR=/tmp/mut/snap SEED_W=/tmp/mut/$id/verify VERIF_REPO=$wt SEED_LOG=/tmp/mut/$id/check.log lib/seedtest.sh seeded/$id $P ${TIER:-quick}) 2>&1 | tee /tmp/mut/$id/result.txt
git -C /repo worktree remove --force /tmp/mut/$id/verify 2>/dev/null
