#!/usr/bin/env python3
"""Shared machinery of the twig verification checks.

  TLC (spec -> cases)  --ndjson-->  Go harness (real engine)  --results-->  triage

Exit codes of a check:  0 property held on everything explored (known findings
are printed as KNOWN-FINDING lines), 1 a VIOLATION line was printed, 2 the check
itself is broken (tool crash, timeout, dead driver) -- never a verdict.
"""
import hashlib
import json
import os
import re
import shutil
import subprocess
import sys
import tempfile
import time

VERIF = os.path.dirname(os.path.dirname(os.path.abspath(__file__)))
REPO = os.environ.get("VERIF_REPO", "/repo")
SPEC = os.path.join(VERIF, "spec")
HARNESS = os.path.join(VERIF, "harness")
EVIDENCE = os.path.join(VERIF, "evidence")
REPLAYS = os.path.join(VERIF, "replays")
KNOWN = os.path.join(VERIF, "known-findings.jsonl")
NCPU = min(16, os.cpu_count() or 4)


class Broken(Exception):
    """The check could not do its job (exit 2)."""


def goenv():
    e = dict(os.environ)
    e.update(GOFLAGS="-mod=mod", GOPROXY="off", GOSUMDB="off", GOTOOLCHAIN="local")
    return e


def log(*a):
    print(*a, file=sys.stderr, flush=True)


class Scratch:
    def __init__(self):
        self.dir = tempfile.mkdtemp(prefix="verif-")
        # everything the child processes (go build, harness, TLC) put into their temporary directory goes with the
        # scratch directory, also when a child dies half-way
        tmp = os.path.join(self.dir, "tmp")
        os.makedirs(tmp, exist_ok=True)
        os.environ["TMPDIR"] = tmp
        jto = os.environ.get("JAVA_TOOL_OPTIONS", "")
        if "java.io.tmpdir" not in jto:
            os.environ["JAVA_TOOL_OPTIONS"] = (jto + " -Djava.io.tmpdir=" + tmp).strip()

    def path(self, *p):
        return os.path.join(self.dir, *p)

    def cleanup(self):
        if os.environ.get("VERIF_KEEP_SCRATCH"):
            log("scratch kept: %s" % self.dir)
            return
        shutil.rmtree(self.dir, ignore_errors=True)


# --------------------------------------------------------------------------- build
def build_harness(scratch, race=False, tags="verif", name="harness"):
    """Builds the harness against /repo's current working tree."""
    out = scratch.path(name)
    src = HARNESS
    if REPO != "/repo":
        # (seed matrix: several trees are checked side by side, each from its own copy of the harness module)
        src = scratch.path("harness-src-" + name)
        shutil.copytree(HARNESS, src, dirs_exist_ok=True)
        with open(os.path.join(src, "go.mod")) as f:
            gm = f.read().replace("=> /repo", "=> " + REPO)
        with open(os.path.join(src, "go.mod"), "w") as f:
            f.write(gm)
    gosum = os.path.join(REPO, "go.sum")
    if os.path.exists(gosum):
        shutil.copy(gosum, os.path.join(src, "go.sum"))
    cmd = ["go1.26", "build", "-tags", tags, "-o", out]
    if race:
        cmd.append("-race")
    cmd.append("./cmd/harness")
    p = subprocess.run(cmd, cwd=src, env=goenv(), capture_output=True, text=True)
    if p.returncode != 0:
        raise Broken("harness build failed:\n" + p.stdout + p.stderr)
    return out


# --------------------------------------------------------------------------- TLC
TLC_STACK = "-Xss256m"
STATS_RE = re.compile(r"(\d+) states generated, (\d+) distinct states found")


def run_tlc(scratch, module, cfg, workers=8, timeout=900, extra=(), files=None, sub="tlc", java_opts=None):
    """Runs TLC on spec/<module>.tla with spec/<cfg> in a scratch copy.
    Returns dict(states, distinct, cases=<path of emitted ndjson>, log=<path>, out=<text of non-case lines>).
    Emitted cases are the stdout lines starting with "{ (a TLA+-quoted JSON string)."""
    d = scratch.path(sub)
    if os.path.exists(d):
        shutil.rmtree(d)
    os.makedirs(d)
    for f in os.listdir(SPEC):
        if f.endswith(".tla") or f.endswith(".cfg"):
            shutil.copy(os.path.join(SPEC, f), d)
    for name, src in (files or {}).items():
        if os.path.abspath(src) != os.path.abspath(os.path.join(d, name)):
            shutil.copy(src, os.path.join(d, name))
    cases = os.path.join(d, "cases.ndjson")
    logp = os.path.join(d, "tlc.log")
    cmd = ["timeout", str(timeout), "tlc", "-workers", str(workers), "-metadir", os.path.join(d, "meta"),
           "-config", cfg] + list(extra) + [module + ".tla"]
    env = dict(os.environ)
    if java_opts:
        env["JAVA_TOOL_OPTIONS"] = (env.get("JAVA_TOOL_OPTIONS", "") + " " + java_opts).strip()
    if "-Xss" not in env.get("JAVA_TOOL_OPTIONS", "") + env.get("JDK_JAVA_OPTIONS", ""):
        # The recursive operators of TwigSem (evaluation, printing, structural comparison over the longest data values
        # and the deepest nestings) go a few thousand Java frames deep.  How many bytes that takes is decided by the JIT
        # at run time: under C1-compiled (tier 1-3) frames the C18 quick model needs ~2 MB, under C2 or the interpreter
        # < 400 KB, so with the JVM's default 1 MB stacks the same model passes or dies with a StackOverflowError
        # depending on when the compiler threads get there (seen on a freshly restored sandbox; reproduced with
        # -XX:TieredStopAtLevel=1).  Two places need the room: TLC's worker threads (created after JAVA_TOOL_OPTIONS
        # is read, so -Xss there reaches them) and the main thread, which computes the initial states -- where the
        # enumerating models do their evaluation -- and is created by the `java` launcher before the JVM reads
        # JAVA_TOOL_OPTIONS; only a launcher-level -Xss (JDK_JAVA_OPTIONS, JDK 9+) reaches it.  The space is only
        # reserved, not committed.
        env["JDK_JAVA_OPTIONS"] = (env.get("JDK_JAVA_OPTIONS", "") + " " + TLC_STACK).strip()
        env["JAVA_TOOL_OPTIONS"] = (env.get("JAVA_TOOL_OPTIONS", "") + " " + TLC_STACK).strip()
    t0 = time.time()
    rest = []
    n = 0
    with open(cases, "w") as fc:
        p = subprocess.Popen(cmd, cwd=d, stdout=subprocess.PIPE, stderr=subprocess.STDOUT, text=True, env=env,
                             errors="replace")
        for line in p.stdout:
            if line.startswith('"{'):
                try:
                    fc.write(json.loads(line) + "\n")
                    n += 1
                except Exception:
                    rest.append(line)
            else:
                rest.append(line)
        p.wait()
    text = "".join(rest)
    with open(logp, "w") as fl:
        fl.write(text)
    m = None
    for m in STATS_RE.finditer(text):
        pass
    res = dict(cases=cases, log=logp, out=text, emitted=n, wall=time.time() - t0,
               states=int(m.group(1)) if m else 0, distinct=int(m.group(2)) if m else 0, rc=p.returncode)
    return res


def tlc_ok(res, what):
    """A model run must finish without error; anything else is a broken check."""
    if res["rc"] != 0 or "Model checking completed. No error has been found." not in res["out"] \
            and "Finished in" not in res["out"]:
        tail = "\n".join(res["out"].splitlines()[-40:])
        raise Broken("TLC failed on %s (rc=%s):\n%s" % (what, res["rc"], tail))
    if "Error:" in res["out"] or "is violated" in res["out"]:
        tail = "\n".join([l for l in res["out"].splitlines() if not l.startswith(("Parsing", "Semantic", "Linting"))][-60:])
        raise Broken("TLC reported an error on %s:\n%s" % (what, tail))


# --------------------------------------------------------------------------- replay
LAST_CONTEXT = {}


def context_of(key):
    """The case lines that ran in one process up to and including the case with this key (last replay that had it)."""
    c = LAST_CONTEXT.get(key)
    if c is None:
        return None
    share, pos = c
    return share[:pos + 1]


def replay(harness, cases_path, results_path, nworkers=NCPU, limit="5s", extra_args=(), obs_path=None, cmd="replay", pool_path=None):
    """Feeds the cases to nworkers single-goroutine harness processes (round robin).
    A worker that meets a hang exits with 3 after reporting it; the remaining cases of
    its share are given to a fresh worker."""
    with open(cases_path) as f:
        lines = [l for l in f if l.strip()]
    shares = [lines[i::nworkers] for i in range(nworkers)]
    out_files = []
    pending = []
    for i, share in enumerate(shares):
        if share:
            pending.append((i, share, 0))
    round_no = 0
    results = []
    while pending:
        procs = []
        for (i, share, done) in pending:
            inp = results_path + ".in.%d.%d" % (i, round_no)
            outp = results_path + ".out.%d.%d" % (i, round_no)
            with open(inp, "w") as f:
                f.writelines(share)
            fo = open(outp, "w")
            obs_args = ["-obs", outp + ".obs"] if obs_path else []
            env = dict(os.environ)
            if pool_path:
                # the traffic of the engine's render-context pools, one recording per worker process (Trace_Pool.tla)
                env["VERIF_POOL_TRACE"] = outp + ".pool"
            p = subprocess.Popen([harness, cmd, "-limit", limit] + obs_args + list(extra_args), stdin=open(inp),
                                 stdout=fo, stderr=subprocess.PIPE, env=env)
            procs.append((i, share, p, fo, inp, outp))
        pending = []
        for (i, share, p, fo, inp, outp) in procs:
            _, err = p.communicate()
            fo.close()
            with open(outp) as f:
                got = [json.loads(l) for l in f if l.strip()]
            # what ran in the same process before each case (to reproduce a failure that depends on it)
            for pos, g in enumerate(got):
                LAST_CONTEXT[g.get("key")] = (share, pos)
            results.extend(got)
            os.unlink(inp)
            os.unlink(outp)
            if pool_path and os.path.exists(outp + ".pool"):
                with open(outp + ".pool") as fsrc, open(pool_path, "a") as fdst:
                    shutil.copyfileobj(fsrc, fdst)
                os.unlink(outp + ".pool")
            if obs_path and os.path.exists(outp + ".obs"):
                with open(outp + ".obs") as fsrc, open(obs_path, "a") as fdst:
                    shutil.copyfileobj(fsrc, fdst)
                os.unlink(outp + ".obs")
            if p.returncode == 3:
                rest = share[len(got):]
                if rest:
                    pending.append((i, rest, 0))
            elif p.returncode != 0 and len(got) < len(share) and b"harness:" not in err[:200]:
                # the process died inside the engine (fatal runtime error: stack overflow, concurrent map
                # writes, out of memory ...): the case it was working on is a failing case; go on with the rest
                crashed = json.loads(share[len(got)])
                msg = err.decode(errors="replace")
                head = "\n".join(msg.splitlines()[:6])
                # (the frames that tell where the engine was: kept next to the results for the triage)
                with open(results_path + ".crash%d.txt" % i, "w") as cf:
                    cf.write(msg[:20000])
                results.append(dict(prop=crashed.get("prop"), key=crashed.get("key"), tags=crashed.get("tags"), **{"pass": False},
                                    runs=len(crashed.get("runs") or []), src="(process died)",
                                    fails=[dict(run="", why="crash", got=head[:600], want="", src="")]))
                rest = share[len(got) + 1:]
                if rest:
                    pending.append((i, rest, 0))
            elif p.returncode != 0:
                raise Broken("harness replay worker died rc=%s: %s" % (p.returncode, err.decode(errors="replace")[-2000:]))
            elif len(got) != len(share):
                raise Broken("harness replay worker returned %d results for %d cases" % (len(got), len(share)))
        round_no += 1
        if round_no > 50:
            raise Broken("too many worker restarts")
    with open(results_path, "w") as f:
        for r in results:
            f.write(json.dumps(r) + "\n")
    return results


# --------------------------------------------------------------------------- findings
def load_known(prop):
    out = []
    if os.path.exists(KNOWN):
        with open(KNOWN) as f:
            for l in f:
                l = l.strip()
                if not l or l.startswith("#") or l.startswith("fixed:"):
                    continue
                k = json.loads(l)
                if k.get("property") == prop:
                    out.append(k)
    return out


def fail_tags(res):
    """Tags of a failing result: the case's tags plus the labels of the failing runs."""
    tags = set(res.get("tags") or [])
    for f in res.get("fails", []):
        for i, part in enumerate((f.get("run") or "").split("/")):
            if part:
                tags.add("run%d:%s" % (i, part))
        tags.add("why:" + f.get("why", "").split(":")[0])
    return tags


def attribute(res, known_active):
    """Returns the known finding explaining a failing result, or None."""
    tags = fail_tags(res)
    for k in known_active:
        if k.get("key") and k["key"] == res.get("key"):
            return k
        kt = set(k.get("tags") or [])
        if kt and kt <= tags:
            return k
    return None


def save_replay(prop, case_line, res, context=None):
    os.makedirs(REPLAYS, exist_ok=True)
    h = hashlib.sha1(case_line.encode()).hexdigest()[:12]
    p = os.path.join(REPLAYS, "%s-%s.json" % (prop, h))
    d = {"property": prop, "case": json.loads(case_line), "observed": res}
    if context:
        # the cases that have to run in the same process before it
        d["context"] = [json.loads(l) for l in context]
    with open(p, "w") as f:
        json.dump(d, f)
    return p


# --------------------------------------------------------------------------- evidence
def write_evidence(prop, tier, seed, level, coverage, wall, violations, assumptions):
    os.makedirs(EVIDENCE, exist_ok=True)
    ev = dict(property_id=prop, tier=tier, seed=seed, level=level, coverage=coverage,
              assumptions=assumptions, wall_s=round(wall, 2), violations=violations)
    with open(os.path.join(EVIDENCE, prop + ".json"), "w") as f:
        json.dump(ev, f, indent=1)


# --------------------------------------------------------------------------- trace validation
REJ_RE = re.compile(r"REJECTED[^{<]*[{<]+([^}>]*)[}>]+")


def validate_trace(scratch, module, cfg, trace_path, trace_name="trace.ndjson", timeout=900, sub="trace", java_opts=None):
    """Runs a TLC trace spec over a recorded ndjson trace.  The trace spec consumes one line
    per step, accumulates the numbers of the lines it rejects and prints them through
    POSTCONDITION as  <<"REJECTED", {..}>>  and  <<"CONSUMED", n>>.
    Returns (consumed, rejected line numbers, tlc result)."""
    res = run_tlc(scratch, module, cfg, workers=1, timeout=timeout, files={trace_name: trace_path}, sub=sub,
                  java_opts=java_opts)
    out = res["out"]
    if res["rc"] != 0 and "REJECTED" not in out:
        tail = "\n".join([l for l in out.splitlines() if not l.startswith(("Parsing", "Semantic", "Linting"))][-40:])
        raise Broken("trace validation failed to run (%s rc=%s):\n%s" % (module, res["rc"], tail))
    m = re.search(r'"CONSUMED",\s*(\d+)', out)
    consumed = int(m.group(1)) if m else -1
    # TLC pretty-prints a long set over several lines:  << "REJECTED",\n  {1, 2, ...} >>
    m = re.search(r'"REJECTED",\s*\{([^}]*)\}', out, re.S)
    if not m:
        raise Broken("trace spec %s printed no parsable verdict" % module)
    rejected = [int(x) for x in re.findall(r"\d+", m.group(1))]
    return consumed, rejected, res
