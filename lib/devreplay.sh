#!/bin/bash
# dev helper: devreplay.sh <tlcdev dir> [max lines]  -- build harness, replay out.txt, summarise failures by tag family
set -e
D=$1; N=${2:-25}
export GOFLAGS=-mod=mod GOPROXY=off GOSUMDB=off GOTOOLCHAIN=local
(cd /verif/harness && go1.26 build -tags verif -o /tmp/harness ./cmd/harness)
grep '^"{' $D/out.txt | /tmp/harness replay > $D/res.ndjson || echo "harness rc=$?"
python3 - $D $N <<'PY'
import json,sys,collections
d,n=sys.argv[1],int(sys.argv[2])
rs=[json.loads(l) for l in open(d+'/res.ndjson')]
bad=[r for r in rs if not r['pass']]
print(len(rs),'cases',len(bad),'failing')
fam=collections.Counter()
for r in bad:
    fam[(tuple(sorted(t for t in r['tags'] if t.startswith('fam:'))), r['fails'][0]['why'])]+=1
for k,v in fam.most_common(): print('  ',k,v)
import random
random.seed(3)
for r in random.sample(bad,min(n,len(bad))):
    f=r['fails'][0]
    print('-',f['run'],'|',f['src'][:260],'|',f['why'],'| got',repr(f.get('got',''))[:140],'| want',repr(f.get('want'))[:140])
PY
