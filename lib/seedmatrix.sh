#!/bin/bash
# seedmatrix.sh [tier] [jobs]  -- runs every seeded change against its property's check (and the extra checks listed in
# seeded/also.json) and records the outcome in seeded/<id>/meta.json.  The seeds are spread over <jobs> scratch worktrees
# of /repo (outside /repo and /verif), each checked through VERIF_REPO; /repo itself is not touched.
TIER=${1:-quick}; JOBS=${2:-4}
cd /verif
HEAD=$(git -C /repo rev-parse --short HEAD)
TMP=$(mktemp -d /tmp/seedmatrix.XXXXXX)
ls -d seeded/C*-* > $TMP/all
# the checks run from a snapshot of /verif, so that work on the models can go on while the matrix runs
rsync -a --exclude .git --exclude replays --exclude seeded /verif/ $TMP/verif/
for j in $(seq 1 $JOBS); do
  git -C /repo worktree add -q --detach $TMP/wt$j HEAD || exit 2
  ( awk -v j=$j -v n=$JOBS 'NR % n == j % n' $TMP/all | while read d; do
      s=$(basename $d); p=${s%-*}
      checks="$p $(python3 -c "import json;print(' '.join(json.load(open('seeded/also.json')).get('$s',[])))")"
      res=()
      for c in $checks; do
        out=$(VERIF_DIR=$TMP/verif VERIF_REPO=$TMP/wt$j SEED_LOG=$TMP/log$j SKIP_CONFIRM=${SKIP_CONFIRM:-1} lib/seedtest.sh $d $c $TIER 2>&1 | grep RESULT)
        case "$out" in *DETECTED*) res+=("$c:detected");; *MISSED*) res+=("$c:missed");; *) res+=("$c:${out##* }");; esac
      done
      python3 - "$d" "$TIER" "$HEAD" "${res[@]}" <<'PY'
import json,sys
d,tier,head=sys.argv[1],sys.argv[2],sys.argv[3]
m=json.load(open(d+'/meta.json'))
m['results']=[{'check':r.split(':')[0],'tier':tier,'outcome':r.split(':',1)[1],'repo_head':head} for r in sys.argv[4:]]
json.dump(m,open(d+'/meta.json','w'),indent=1)
print(d, [(r['check'],r['outcome']) for r in m['results']])
PY
    done ) &
done
wait
for j in $(seq 1 $JOBS); do git -C /repo worktree remove --force $TMP/wt$j; done
rm -rf $TMP
