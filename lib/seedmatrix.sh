#!/bin/bash
# seedmatrix.sh [tier]  -- runs every seeded change against its property's check (and the extra checks listed in
# seeded/also.json) and records the outcome in seeded/<id>/meta.json
TIER=${1:-quick}
cd /verif
for d in seeded/C*-*; do
  s=$(basename $d); p=${s%-*}
  checks="$p $(python3 -c "import json;print(' '.join(json.load(open('seeded/also.json')).get('$s',[])))")"
  res=()
  for c in $checks; do
    out=$(SKIP_CONFIRM=${SKIP_CONFIRM:-1} lib/seedtest.sh $d $c $TIER 2>&1 | grep RESULT)
    case "$out" in *DETECTED*) res+=("$c:detected");; *MISSED*) res+=("$c:missed");; *) res+=("$c:${out##* }");; esac
  done
  python3 - "$d" "$TIER" "${res[@]}" <<'PY'
import json,sys,subprocess
d,tier=sys.argv[1],sys.argv[2]
m=json.load(open(d+'/meta.json'))
head=subprocess.run(['git','-C','/repo','rev-parse','--short','HEAD'],capture_output=True,text=True).stdout.strip()
m['results']=[{'check':r.split(':')[0],'tier':tier,'outcome':r.split(':',1)[1],'repo_head':head} for r in sys.argv[3:]]
json.dump(m,open(d+'/meta.json','w'),indent=1)
print(d, m['results'])
PY
done
