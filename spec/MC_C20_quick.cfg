SPECIFICATION Spec
CONSTANTS
  Cap = 2
  MaxLen = 2
  KeyWithoutType = FALSE
  FirstIndexOnly = FALSE
  NameSet = {"X", "Y", "Z", "W", "Q", "K", "Name", "PName", "AName", "ARename", "hidden", "nosuch", "x", "name", "Cust", "V", "U", "Uelan", "uelan"}
INVARIANTS
  CacheUnobservable
  Bounded
  Emit
VIEW View
CHECK_DEADLOCK FALSE
