SPECIFICATION Spec
CONSTANTS
  Cap = 2
  MaxLen = 2
  KeyWithoutType = FALSE
  FirstIndexOnly = FALSE
  ShapeSet = {"S1", "S2", "S3", "S4", "S5", "S6", "S7", "S9", "S10", "S11", "S12", "S13", "S14", "any", "mss", "msi", "mii", "mnk"}
  NameSet = {"X", "Y", "Z", "W", "Q", "K", "Name", "PName", "AName", "ARename", "hidden", "nosuch", "x", "name", "Cust", "V", "U", "Uelan", "uelan", "Uviet", "Uvietm"}
INVARIANTS
  CacheUnobservable
  Bounded
  Emit
VIEW View
CHECK_DEADLOCK FALSE
