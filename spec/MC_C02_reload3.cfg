SPECIFICATION Spec
CONSTANTS
  NG = 3
  Workload = "reload"
  EarlyTokPut = FALSE
  UnguardedPaths = FALSE
  SharedCurrent = FALSE
INVARIANTS
  NoConflictingAccess
  TokensIntact
  RelativeNameOwn
  SerialEquivalent
  SingleOwner
CHECK_DEADLOCK FALSE
VIEW View
