------------------------------- MODULE MC_C09 -------------------------------
(***************************************************************************)
(* C09: if / for / set have their defined control-flow meaning.            *)
(* Families of programs enumerated by TLC and executed by Exec:            *)
(*   ifc   if/elseif/else chains over condition values of every type       *)
(*   loop  for over lists, strings (code points), ranges; all 7 counters   *)
(*   nest  nested loops, outer counters printed before and after the inner *)
(*   kv    key, value form                                                 *)
(*   setp  straight-line programs mixing set / print / if / for           *)
(* Model-level invariants: the loop-counter identities.                    *)
(***************************************************************************)
EXTENDS TwigSyntax, Json

CONSTANTS MaxConds, MaxList, MaxSetLen, MaxStr
VARIABLE cs

ch(c) == <<c>>
T1(c) == Text(<<c>>)

\* ---- condition values -----------------------------------------------------------
CondVals ==
    [ c00 |-> VB(FALSE), c01 |-> VB(TRUE), c02 |-> VI(0), c03 |-> VI(1), c04 |-> VI(-1),
      c05 |-> VS(<<>>), c06 |-> VS(<<97>>), c07 |-> VS(<<32>>), c08 |-> Null,
      c09 |-> VL(<<>>), c10 |-> VL(<<VI(0)>>), c11 |-> VM(<<>>, <<>>),
      c12 |-> VM(<<VS(<<107>>)>>, <<VI(0)>>), c13 |-> VS(<<102, 97, 108, 115, 101>>) ]   \* "false" the string
CondNames == DOMAIN CondVals \cup {"undef"}
CondCtx == [n \in DOMAIN CondVals |-> CondVals[n]]

Marks == <<65, 66, 67>>           \* A B C
\* the same chains with an empty body in one branch (an empty branch still ends the chain)
IfProgEmpty(conds, hasEl, k) ==
    <<If([i \in 1..Len(conds) |-> Var(conds[i])], [i \in 1..Len(conds) |-> IF i = k THEN <<>> ELSE <<T1(Marks[i])>>],
         IF hasEl THEN <<T1(69)>> ELSE <<>>, hasEl), T1(46)>>
IfProg(conds, hasEl) ==
    <<If([i \in 1..Len(conds) |-> Var(conds[i])], [i \in 1..Len(conds) |-> <<T1(Marks[i])>>],
         IF hasEl THEN <<T1(69)>> ELSE <<>>, hasEl), T1(46)>>

CondSeqs == UNION {[1..n -> CondNames] : n \in 1..MaxConds}
IfCases == {[fam |-> "ifc", prog |-> IfProg(cq, el), ctx |-> CondCtx,
             tags |-> {"if", "conds:" \o ToString(Len(cq))} \cup (IF el THEN {"else"} ELSE {})
                      \cup {"cond:" \o CondVals[cq[i]].t : i \in {j \in 1..Len(cq) : cq[j] # "undef"}}]
            : cq \in CondSeqs, el \in BOOLEAN}

EmptyBranchCases == UNION {{[fam |-> "ifc", prog |-> IfProgEmpty(cq, el, k), ctx |-> CondCtx,
                              tags |-> {"if", "emptybranch", "conds:" \o ToString(Len(cq))} \cup (IF el THEN {"else"} ELSE {})]
                             : k \in 1..Len(cq)} : cq \in UNION {[1..n -> {"c00", "c01", "c02", "c06"}] : n \in 1..MaxConds}, el \in BOOLEAN}
\* exactly one branch: the conditions behind the first truthy one are not evaluated (callbacks in them are not invoked, what
\* would fail in them does not fail the render) -- the guard idiom {% if n == 0 %}..{% elseif total / n > 2 %}
GuardConds == {"c00", "c01", "c02", "c03", "c05", "c06"}
GuardCases == {[fam |-> "guard", prog |-> <<If(<<Spy("sp", "s1", Var(c1)), Spy("sp", "s2", Var(c2)), lastc>>, <<<<T1(65)>>, <<T1(66)>>, <<T1(67)>>>>, <<T1(69)>>, TRUE), T1(46)>>,
                 ctx |-> CondCtx, tags |-> {"if", "guard"}, spies |-> TRUE]
               : c1 \in GuardConds, c2 \in GuardConds,
                 lastc \in {Spy("sp", "s3", LB(TRUE)), Call("nosuchfn", <<>>), Filt("nosuchfilter", Var("c01"), <<>>), Spy("sp", "s3", Call("nosuchfn", <<>>))}}
              \cup {[fam |-> "guard", prog |-> <<If(<<Bin("==", Var("n"), LI(0)), Bin(">", Bin("/", LI(6), Var("n")), LI(2)), Bin("==", Bin("%", LI(12), Var("n")), LI(0))>>,
                                                     <<<<T1(65)>>, <<T1(66)>>, <<T1(67)>>>>, <<T1(69)>>, TRUE), T1(46)>>,
                      ctx |-> ("n" :> VI(n)), tags |-> {"if", "guard", "divide"}, spies |-> FALSE] : n \in {0, 1, 2, 3, 6}}
\* an if whose whole body is another if (no text between the tags), with and without else branches on either
NestedIfCases == {[fam |-> "nestedif", prog |-> <<If(<<Var(c1)>>, <<<<If(<<Var(c2)>>, <<<<T1(65)>>>>, IF e2 THEN <<T1(66)>> ELSE <<>>, e2)>>>>, IF e1 THEN <<T1(67)>> ELSE <<>>, e1), T1(46)>>,
                    ctx |-> CondCtx, tags |-> {"if", "nestedif"}]
                  : c1 \in GuardConds, c2 \in GuardConds, e1 \in BOOLEAN, e2 \in BOOLEAN}
                 \cup {[fam |-> "nestedif", prog |-> <<If(<<Var(c1)>>, <<<<If(<<Var(c2), Var(c3)>>, <<<<T1(65)>>, <<T1(68)>>>>, <<T1(66)>>, TRUE)>>>>, <<>>, FALSE), T1(46)>>,
                    ctx |-> CondCtx, tags |-> {"if", "nestedif"}] : c1 \in {"c00", "c01"}, c2 \in {"c00", "c01"}, c3 \in {"c00", "c01"}}
                 \cup {[fam |-> "nestedif", prog |-> <<If(<<Var(c1)>>, <<<<For1("i", Lit(VL(<<VI(1)>>)), <<T1(65)>>)>>>>, <<>>, FALSE),
                                                       If(<<Var(c1)>>, <<<<If(<<Var(c2)>>, <<<<Set("z", LI(1))>>>>, <<Set("z", LI(2))>>, TRUE)>>>>, <<>>, FALSE), PrintS(Var("z")), T1(46)>>,
                    ctx |-> CondCtx, tags |-> {"if", "nestedif"}] : c1 \in {"c00", "c01"}, c2 \in {"c00", "c01"}}
\* literal conditions too (no context): the same values written in the template
LitConds == {LB(FALSE), LB(TRUE), LI(0), LI(1), LS(<<>>), LS(<<97>>), Lit(Null), Arr(<<>>), Arr(<<LI(0)>>),
             Hash(<<>>, <<>>), Hash(<<LS(<<107>>)>>, <<LI(0)>>)}
\* computed condition values (arithmetic results, lengths): zero is falsy however it was obtained
CompConds == {Bin("-", LI(1), LI(1)), Bin("-", Var("c03"), Var("c03")), Bin("*", LI(3), LI(0)), Bin("+", Var("c04"), LI(1)),
              Bin("-", LI(2), LI(1)), Filt("length", Var("c05"), <<>>), Filt("length", Var("c06"), <<>>), Filt("length", Var("c09"), <<>>),
              Bin("%", LI(4), LI(2)), Bin("/", LI(0), LI(3)), Un("-", LI(0)), Bin("~", LS(<<>>), LS(<<>>)), Filt("abs", Var("c02"), <<>>)}
CompIfCases == {[fam |-> "ifcomp", prog |-> <<IfElse(c, <<T1(65)>>, <<T1(69)>>)>>, ctx |-> CondCtx, tags |-> {"if", "compcond"}] : c \in CompConds}
                \cup {[fam |-> "ifcomp", prog |-> <<Set("z", c), IfElse(Var("z"), <<T1(65)>>, <<T1(69)>>), PrintS(Cond(Var("z"), LI(1), LI(2)))>>,
                        ctx |-> CondCtx, tags |-> {"if", "compcond", "viaset"}] : c \in CompConds}
                \cup {[fam |-> "ifcomp", prog |-> <<IfElse(Un("not", c), <<T1(65)>>, <<T1(69)>>), IfElse(Bin("and", c, LB(TRUE)), <<T1(65)>>, <<T1(69)>>)>>,
                        ctx |-> CondCtx, tags |-> {"if", "compcond", "not"}] : c \in CompConds}
LitIfCases == {[fam |-> "ifl", prog |-> <<IfElse(c, <<T1(65)>>, <<T1(69)>>)>>, ctx |-> EmptyFn,
                tags |-> {"if", "litcond:" \o c.k}] : c \in LitConds}

\* ---- loops -------------------------------------------------------------------------
\* the probe prints every counter through print tags (ints) and if tags (booleans)
Probe(x) ==
    <<PrintS(Attr(Var("loop"), "index")), T1(58), PrintS(Attr(Var("loop"), "index0")), T1(58),
      PrintS(Attr(Var("loop"), "revindex")), T1(58), PrintS(Attr(Var("loop"), "revindex0")), T1(58),
      If1(Attr(Var("loop"), "first"), <<T1(102)>>), If1(Attr(Var("loop"), "last"), <<T1(108)>>), T1(58),
      PrintS(Attr(Var("loop"), "length")), T1(61), PrintS(Var(x)), T1(59)>>

IntList(n) == VL([i \in 1..n |-> VI(10 * i)])
StrList(n) == VLg([i \in 1..n |-> VS(<<96 + i>>)], "strs")
IntsTyped(n) == VLg([i \in 1..n |-> VI(10 * i)], "ints")
Strings == {<<>>, <<104>>, <<104, 233>>, <<104, 233, 121>>, <<233>>, <<8364, 97>>, <<32, 32>>}   \* "", h, hé, héy, é, €a, 2 spaces

\* longer strings (6 .. MaxStr code points): letters with one two-byte (e-acute) or three-byte (euro sign) character at every
\* position, and letters only -- a string is walked by code point whatever its length and wherever its wide characters stand
LongStrings == UNION {{[i \in 1..n |-> IF i = p THEN wide ELSE 97 + ((i - 1) % 26)] : p \in 0..n, wide \in {233, 8364}} : n \in 6..MaxStr}

LoopProg(seqE, hasEl) == <<For("x", "", seqE, Probe("x"), IF hasEl THEN <<T1(69)>> ELSE <<>>, hasEl), T1(46)>>

SeqSources ==
    {[e |-> Var("xs"), ctx |-> ("xs" :> IntList(n)), tag |-> "list"] : n \in 0..MaxList}
    \cup {[e |-> Var("xs"), ctx |-> ("xs" :> StrList(n)), tag |-> "strs"] : n \in 0..MaxList}
    \cup {[e |-> Var("xs"), ctx |-> ("xs" :> IntsTyped(n)), tag |-> "ints"] : n \in 0..MaxList}
    \* Go arrays: of ints, of untyped values; a list of pairs (arrays of two untyped values) walked by a loop in a loop
    \cup {[e |-> Var("xs"), ctx |-> ("xs" :> VLg(IntList(n).xs, "arrany")), tag |-> "array"] : n \in 1..MaxList}
    \cup {[e |-> Var("xs"), ctx |-> ("xs" :> VLg(IntList(3).xs, "arr3")), tag |-> "array"]}
    \cup {[e |-> Lit(IntList(n)), ctx |-> EmptyFn, tag |-> "listlit"] : n \in 0..MaxList}
    \cup {[e |-> Var("s"), ctx |-> ("s" :> VS(s)), tag |-> "str"] : s \in Strings}
    \cup {[e |-> LS(s), ctx |-> EmptyFn, tag |-> "strlit"] : s \in Strings \ {<<>>}}
    \cup {[e |-> Var("s"), ctx |-> ("s" :> VS(s)), tag |-> "longstr"] : s \in LongStrings}
    \cup {[e |-> Call("range", <<LI(a), LI(b)>>), ctx |-> EmptyFn, tag |-> "range2"] : a \in 0..3, b \in 0..3}
    \cup {[e |-> Call("range", <<Var("a"), Var("b"), Var("c")>>), ctx |-> ("a" :> VI(a)) @@ ("b" :> VI(b)) @@ ("c" :> VI(c)),
           tag |-> "range3"] : a \in -2..3, b \in -2..3, c \in {-2, -1, 1, 2}}
    \* a sequence that a filter makes out of nothing: the filter is applied whatever its subject is
    \cup {[e |-> Filt("default", b, <<Lit(IntList(2))>>), ctx |-> EmptyFn, tag |-> "defaulted"] : b \in {Var("u"), Lit(Null), Attr(Var("u"), "k")}}
    \cup {[e |-> Filt("upper", Filt("default", Var("u"), <<LS(<<97, 98>>)>>), <<>>), ctx |-> EmptyFn, tag |-> "defaulted"],
          [e |-> Filt("merge", Filt("default", Var("u"), <<Arr(<<>>)>>), <<Arr(<<LI(1)>>)>>), ctx |-> EmptyFn, tag |-> "defaulted"],
          [e |-> Filt("default", Var("u"), <<Arr(<<>>)>>), ctx |-> EmptyFn, tag |-> "defaulted"],
          [e |-> Filt("default", Cond(Var("u"), LI(1), Lit(Null)), <<LS(<<120>>)>>), ctx |-> EmptyFn, tag |-> "defaulted"]}
    \cup {[e |-> Var("u"), ctx |-> EmptyFn, tag |-> "undefined"], [e |-> Var("u"), ctx |-> ("u" :> Null), tag |-> "null"]}

LoopCases == {[fam |-> "loop", prog |-> LoopProg(q.e, el), ctx |-> q.ctx,
               tags |-> {"for", "seq:" \o q.tag} \cup (IF el THEN {"else"} ELSE {})]
              : q \in SeqSources, el \in BOOLEAN}

\* key, value form over lists: key = index
KvCases == {[fam |-> "kv", prog |-> <<For("v", "k", Var("xs"), <<PrintS(Var("k")), T1(61), PrintS(Var("v")), T1(59)>>, <<T1(69)>>, TRUE)>>,
             ctx |-> ("xs" :> l), tags |-> {"for", "kv"}] : l \in {IntList(n) : n \in 0..MaxList} \cup {StrList(2)}}
           \cup {[fam |-> "kv", prog |-> <<For("v", "k", Var("m"), <<PrintS(Var("k")), T1(61), PrintS(Var("v")), T1(59)>>, <<T1(69)>>, TRUE)>>,
             ctx |-> ("m" :> mm), tags |-> {"for", "kv", "map"}]
             : mm \in {VM(<<>>, <<>>), VM(<<VS(<<107>>)>>, <<VI(5)>>), VMg(<<VS(<<107>>)>>, <<VI(5)>>, "msi")}}

\* nested loops: the outer counters are printed before and after the inner loop
OuterProbe == <<PrintS(Attr(Var("loop"), "index")), T1(47), PrintS(Attr(Var("loop"), "revindex")), T1(47),
                PrintS(Attr(Var("loop"), "length")), If1(Attr(Var("loop"), "last"), <<T1(108)>>)>>
NestProg(no, ni, innerSeq) ==
    <<For1("x", Lit(IntList(no)),
           <<T1(60)>> \o OuterProbe \o <<T1(91)>>
           \o <<For1("y", innerSeq, <<PrintS(Attr(Var("loop"), "index")), T1(45), PrintS(Attr(Var("loop"), "revindex0")), T1(44)>>)>>
           \o <<T1(93)>> \o OuterProbe \o <<T1(62)>>)>>
NestCases == {[fam |-> "nest", prog |-> NestProg(no, ni, Lit(IntList(ni))), ctx |-> EmptyFn, tags |-> {"for", "nested"}]
              : no \in 0..MaxList, ni \in 0..MaxList}
             \cup {[fam |-> "nest", prog |-> NestProg(no, 2, LS(<<104, 233>>)), ctx |-> EmptyFn, tags |-> {"for", "nested", "seq:strlit"}]
              : no \in 1..2}
\* three levels
Nest3 == {[fam |-> "nest", ctx |-> EmptyFn, tags |-> {"for", "nested", "depth3"},
           prog |-> <<For1("x", Lit(IntList(a)),
                      <<PrintS(Attr(Var("loop"), "index")),
                        For1("y", Lit(IntList(b)),
                             <<PrintS(Attr(Var("loop"), "index")),
                               For1("z", Lit(IntList(c)), <<PrintS(Attr(Var("loop"), "revindex"))>>),
                               PrintS(Attr(Var("loop"), "revindex"))>>),
                        PrintS(Attr(Var("loop"), "revindex")), T1(59)>>)>>] : a \in 1..2, b \in 1..2, c \in 0..2}

\* ---- set programs -----------------------------------------------------------------------
XP1 == Bin("+", Var("x"), LI(1))
SetAlphabet ==
    { Set("x", LI(5)), Set("x", XP1), PrintS(Var("x")), Set("y", Var("x")), PrintS(Var("y")),
      If1(Bin(">", Var("x"), LI(1)), <<Set("x", LI(0)), T1(105)>>),
      IfElse(Bin("==", Var("x"), LI(2)), <<Set("y", LI(7))>>, <<Set("y", LI(8))>>),
      For1("i", Lit(IntList(2)), <<Set("x", Bin("+", Var("x"), Var("i"))), PrintS(Var("x")), T1(44)>>),
      For1("i", Lit(IntList(2)), <<PrintS(Var("x")), Set("x", XP1)>>),
      For("i", "", Lit(IntList(0)), <<Set("x", LI(9))>>, <<Set("x", LI(3))>>, TRUE) }
SetProgs == UNION {[1..n -> SetAlphabet] : n \in 1..MaxSetLen}
\* x and y are defined before anything else, so that every reading is determined
SetCases == {[fam |-> "setp", prog |-> <<Set("x", LI(1)), Set("y", LI(0))>> \o p \o <<T1(124), PrintS(Var("x")), T1(44), PrintS(Var("y"))>>,
              ctx |-> EmptyFn, tags |-> {"set"} \cup {p[i].k : i \in 1..Len(p)}] : p \in SetProgs}

\* null is a value like any other: assigning it replaces the previous value, iterating over it binds it
NullCases ==
    {[fam |-> "setp", ctx |-> ("v" :> VI(4)), tags |-> {"set", "null"},
      prog |-> <<Set("x", LI(1)), Set("x", nul), T1(91), PrintS(Var("x")), T1(93), IfElse(Test(Var("x"), "null", <<>>, FALSE), <<T1(110)>>, <<T1(118)>>)>>]
        : nul \in {Lit(Null), Var("undefinedvar")}}
    \cup {[fam |-> "loop", ctx |-> ("xs" :> VL(<<VI(1), Null, VI(3)>>)), tags |-> {"for", "null-element"},
            prog |-> <<For1("x", Var("xs"), <<T1(91), PrintS(Var("x")), T1(93)>>)>>]}
    \cup {[fam |-> "loop", ctx |-> EmptyFn, tags |-> {"for", "null-element", "reset-in-body"},
            prog |-> <<For1("i", Lit(VL(<<VI(1), VI(2), VI(3)>>)),
                           <<Set("hit", Lit(Null)), If1(Bin("==", Var("i"), LI(2)), <<Set("hit", Var("i"))>>), T1(91), PrintS(Var("hit")), T1(93)>>)>>]}
    \cup {[fam |-> "setp", ctx |-> ("v" :> VI(4)), tags |-> {"set", "null", "ctxvar"},
            prog |-> <<Set("v", Lit(Null)), T1(91), PrintS(Var("v")), T1(93)>>]}
\* ---- values of defined and sized Go types as conditions -----------------------------------
NamedVals == [ d0 |-> VN(VB(FALSE), "def"), d1 |-> VN(VB(TRUE), "def"), d2 |-> VN(VI(0), "def"), d3 |-> VN(VI(3), "def"),
               d4 |-> VN(VD(0, 0), "def"), d5 |-> VN(VD(5, 1), "def"), d6 |-> VN(VS(<<>>), "def"), d7 |-> VN(VS(<<97>>), "def"),
               d8 |-> VN(VI(0), "i8"), d9 |-> VN(VI(-1), "i8"), e0 |-> VN(VI(0), "i64"), e1 |-> VN(VI(0), "u16"), e2 |-> VN(VI(7), "u64"),
               e3 |-> VN(VI(0), "f32"), e4 |-> VN(VI(2), "f32"), e5 |-> VN(VI(0), "u64") ]
NamedCtx == [n \in DOMAIN NamedVals |-> NamedVals[n]] @@ ("np" :> [t |-> "nilptr"])
NamedCases == {[fam |-> "ifnamed", prog |-> <<IfElse(Var(n), <<T1(65)>>, <<T1(69)>>), If(<<LB(FALSE), Var(n)>>, <<<<T1(66)>>, <<T1(67)>>>>, <<T1(68)>>, TRUE),
                                             IfElse(Un("not", Var(n)), <<T1(78)>>, <<T1(89)>>), PrintS(Cond(Var(n), LI(1), LI(2)))>>,
                 ctx |-> NamedCtx, tags |-> {"if", "named", "kind:" \o NamedVals[n].kind, "under:" \o NamedVals[n].u.t}] : n \in DOMAIN NamedVals}
              \cup {[fam |-> "ifnamed", prog |-> <<IfElse(Var("np"), <<T1(65)>>, <<T1(69)>>), IfElse(Un("not", Var("np")), <<T1(78)>>, <<T1(89)>>), PrintS(Cond(Var("np"), LI(1), LI(2)))>>,
                     ctx |-> NamedCtx, tags |-> {"if", "named", "nilpointer"}]}
              \cup {[fam |-> "ifnamed", prog |-> <<For1("x", Var("xs"), <<IfElse(Var("x"), <<T1(65)>>, <<T1(69)>>)>>)>>,
                     ctx |-> ("xs" :> VL(<<NamedVals.d0, NamedVals.d1, NamedVals.d2, NamedVals.d6, NamedVals.d7, NamedVals.e3>>)), tags |-> {"if", "named", "inloop"}]}

\* ---- the same for tag active several times at once (recursive include, recursive macro) ----
Trees == {VL(<<VL(<<>>), VL(<<VL(<<>>), VL(<<>>)>>), VL(<<>>)>>), VL(<<VL(<<VL(<<>>)>>)>>),
          VL(<<VL(<<VL(<<>>), VL(<<>>), VL(<<>>)>>), VL(<<>>)>>), VL(<<>>), VL(<<VL(<<>>)>>)}
RecBody(inner) == <<For1("c", Var("n"), <<PrintS(Attr(Var("loop"), "index")), T1(40)>> \o inner \o <<T1(41)>> \o OuterProbe
                                         \o <<If1(Attr(Var("loop"), "first"), <<T1(102)>>), PrintS(Attr(Var("loop"), "index0")), T1(59)>>)>>
RecCases == {[fam |-> "rec", prog |-> <<Inc(LS(NT.t1))>>, ctx |-> ("n" :> tr), tags |-> {"for", "recursive", "include"},
              tps |-> ("t1" :> RecBody(<<Include(LS(NT.t1), Hash(<<LS(NT.n)>>, <<Var("c")>>), TRUE, FALSE, FALSE, FALSE)>>))] : tr \in Trees}
            \cup {[fam |-> "rec", ctx |-> ("n" :> tr), tags |-> {"for", "recursive", "macro"}, tps |-> EmptyFn,
                    prog |-> <<Macro("m1", <<Param("n")>>, RecBody(<<PrintS(MCall("_self", "m1", <<Var("c")>>))>>)),
                               PrintS(MCall("_self", "m1", <<Var("n")>>))>>] : tr \in Trees}

\* ---- set and loop variables win over engine globals of the same name ----------------------
GlobalProgs == {<<PrintS(Var("g")), T1(124), Set("g", LI(5)), PrintS(Var("g")), T1(124), IfElse(Bin("==", Var("g"), LI(5)), <<T1(65)>>, <<T1(69)>>),
                  Set("g", Bin("+", Var("g"), LI(1))), PrintS(Var("g"))>>,
                <<For1("g", Lit(IntList(2)), <<PrintS(Var("g")), T1(44)>>)>>,
                <<For1("i", Lit(IntList(2)), <<Set("g", Var("i")), PrintS(Var("g")), T1(44)>>), PrintS(Var("g"))>>,
                <<Set("g", Lit(Null)), T1(91), PrintS(Var("g")), T1(93)>>,
                <<PrintS(Var("g")), T1(124), PrintS(Var("h"))>>}
GlobalCases == {[fam |-> "global", prog |-> p, ctx |-> cx, globals |-> ("g" :> VI(77)) @@ ("h" :> VS(<<104>>)), tags |-> {"set", "global"}]
                : p \in GlobalProgs, cx \in {EmptyFn, ("h" :> VI(3))}}

\* ---- a macro of the same name does not hide what set, a loop or a parameter binds; a child's top-level set ----
NameClashCases ==
    {[fam |-> "clash", ctx |-> EmptyFn, tags |-> {"set", "macroname"}, tps |-> EmptyFn,
      prog |-> <<Macro("m1", <<>>, <<T1(77)>>), Set("m1", LI(1)), T1(91), PrintS(Var("m1")), T1(93), IfElse(Bin("==", Var("m1"), LI(1)), <<T1(111)>>, <<T1(120)>>),
                 For1("m1", Lit(IntList(2)), <<PrintS(Var("m1")), T1(44)>>), PrintS(MCall("_self", "m1", <<>>))>>],
     [fam |-> "clash", ctx |-> EmptyFn, tags |-> {"set", "macroname", "param"}, tps |-> EmptyFn,
      prog |-> <<Macro("m1", <<Param("m1"), Param("m2")>>, <<T1(40), PrintS(Var("m1")), PrintS(Var("m2")), T1(41)>>), Macro("m2", <<>>, <<T1(78)>>),
                 PrintS(MCall("_self", "m1", <<LI(5), LI(6)>>))>>],
     [fam |-> "clash", ctx |-> ("x" :> VI(0)), tags |-> {"set", "childset"},
      tps |-> ("t1" :> <<T1(91), Block("b1", <<T1(80)>>), PrintS(Var("x")), T1(93)>>),
      prog |-> <<Extends(LS(NT.t1)), Set("x", LI(1)), Set("y", Bin("+", Var("x"), LI(1))), Block("b1", <<PrintS(Var("x")), T1(44), PrintS(Var("y"))>>), T1(106)>>],
     [fam |-> "clash", ctx |-> ("x" :> VI(0)), tags |-> {"set", "childset", "chain3"},
      tps |-> ("t1" :> <<Extends(LS(NT.t2)), Set("y", LI(5)), Block("b1", <<PrintS(Var("x")), PrintS(Var("y")), PrintS(Call("parent", <<>>))>>)>>)
              @@ ("t2" :> <<T1(91), Block("b1", <<T1(80), PrintS(Var("y"))>>), Block("b2", <<PrintS(Var("x"))>>), T1(93)>>),
      prog |-> <<Extends(LS(NT.t1)), Set("x", LI(1)), Block("b2", <<T1(60), PrintS(Var("x")), PrintS(Var("y")), T1(62)>>)>>]}

\* a loop whose sequence depends on the enclosing loop's variable (a range with that step; a slice from that index); pairs
DepCtx == ("ps" :> VL(<<VLg(<<VI(1), VS(<<97>>)>>, "arrany"), VLg(<<VI(2), VS(<<98>>)>>, "arrany")>>))
DepProgs == { <<For1("s", Arr(<<LI(1), LI(2), LI(5)>>), <<For("i", "", Call("range", <<LI(0), LI(10), Var("s")>>), <<PrintS(Var("i")), T1(44)>>, <<T1(69)>>, TRUE), T1(59)>>)>>,
              <<For1("s", Arr(<<LI(3), LI(4)>>), <<For("i", "", Call("range", <<LI(9), LI(0), Un("-", Var("s"))>>), <<PrintS(Var("i")), T1(44)>>, <<T1(69)>>, TRUE), T1(59)>>)>>,
              <<For1("s", Arr(<<LI(2), LI(3)>>), <<For1("i", Call("range", <<LI(1), Var("s")>>), <<PrintS(Var("i"))>>), T1(59), For1("i", Call("range", <<Var("s"), LI(4)>>), <<PrintS(Var("i"))>>), T1(59)>>)>>,
              <<For1("p", Var("ps"), <<For1("v", Var("p"), <<PrintS(Var("v")), T1(46)>>), T1(59)>>)>> }
DepCases == {[fam |-> "dep", ctx |-> DepCtx, tags |-> {"for", "nested", "dependent"}, prog |-> p] : p \in DepProgs}
AllCases == DepCases \cup NestedIfCases \cup GuardCases \cup NameClashCases \cup NamedCases \cup RecCases \cup GlobalCases \cup IfCases \cup EmptyBranchCases \cup NullCases \cup CompIfCases \cup LitIfCases \cup LoopCases \cup KvCases \cup NestCases \cup Nest3 \cup SetCases

Tps(c) == ("main" :> c.prog) @@ (IF "tps" \in DOMAIN c THEN c.tps ELSE EmptyFn)
World(c) == MkW(Tps(c), {}, {}, NoFault)
\* globals are the outermost scope: the context wins over them, and so does everything the template binds
Ref(c) == Render(IF "globals" \in DOMAIN c THEN WithGlobals(World(c), c.globals) ELSE World(c), "main", c.ctx)

CaseOf(c) ==
    LET ref == Ref(c) IN
    [prop |-> "C09", key |-> ToJson([p |-> c.prog, c |-> c.ctx]), tags |-> c.tags \cup {"fam:" \o c.fam},
     entry |-> "main", ctx |-> c.ctx,
     runs |-> {[label |-> c.fam, tp |-> Sources(Tps(c), LMin), xcalls |-> [id \in {} |-> 0]]},
     cfg |-> [globals |-> IF "globals" \in DOMAIN c THEN c.globals ELSE EmptyFn],
     expect |-> [ok |-> ref.ok, out |-> ref.out, err |-> ref.err,
                 calls |-> IF "spies" \in DOMAIN c /\ c.spies THEN [id \in {"s1", "s2", "s3"} |-> CountOf(ref.calls, id)] ELSE [id \in {} |-> 0]]]

\* ---- long loops: the body runs once per element however many there are ------------------------------------------------------
\* (the expectation is written down: the reference semantics agrees with it for a short loop of the same form, LongAgrees)
LongNs == {50, 3000, 12000, 40000}
LongForms == {"lastonly", "count", "nested", "attr"}
LongCases == {[long |-> n, form |-> f] : n \in LongNs, f \in LongForms}
LongProg(f, n) ==
    CASE f = "lastonly" -> <<For1("i", Call("range", <<LI(1), LI(n)>>), <<If1(Bin("==", Var("i"), LI(n)), <<PrintS(Var("i")), Text(<<120>>)>>)>>)>>
      [] f = "count"    -> <<Set("c", LI(0)), For1("i", Call("range", <<LI(1), LI(n)>>), <<Set("c", Bin("+", Var("c"), LI(1)))>>), PrintS(Var("c")), Text(<<120>>)>>
      [] f = "nested"   -> <<Set("c", LI(0)), For1("i", Call("range", <<LI(1), LI(n \div 50)>>), <<For1("j", Call("range", <<LI(1), LI(50)>>), <<Set("c", Bin("+", Var("c"), LI(1)))>>)>>),
                             PrintS(Var("c")), Text(<<120>>)>>
      [] f = "attr"     -> <<For1("i", Call("range", <<LI(1), LI(n)>>), <<If1(Attr(Var("loop"), "last"), <<PrintS(Attr(Var("loop"), "index")), Text(<<120>>)>>)>>)>>
LongOut(n) == NatDigits(n) \o <<120>>
CaseOfLong(c) ==
    [prop |-> "C09", key |-> ToJson(c), tags |-> {"fam:long", "form:" \o c.form}, entry |-> "main", ctx |-> EmptyFn,
     runs |-> {[label |-> "long", tp |-> Sources(("main" :> LongProg(c.form, c.long)), LMin), xcalls |-> [id \in {} |-> 0]]},
     cfg |-> [globals |-> EmptyFn],
     expect |-> [ok |-> TRUE, out |-> LongOut(c.long), err |-> "", calls |-> [id \in {} |-> 0]]]
LongAgrees == \A f \in LongForms : LET r == Render(MkW(("main" :> LongProg(f, 50)), {}, {}, NoFault), "main", EmptyFn) IN r.ok /\ r.out = LongOut(50)
ASSUME LongAgrees

Init == cs \in LongCases \cup {c \in AllCases : Ref(c).err # "frag"}
Next == UNCHANGED cs
Spec == Init /\ [][Next]_cs

\* loop-counter identities on the model
CounterIdentities ==
    \A n \in 0..5 : \A i \in 0..(n - 1) :
        LET lp == [t |-> "loop", index0 |-> i, length |-> n] IN
        /\ LoopAttr(lp, "index").i + LoopAttr(lp, "revindex0").i = n
        /\ LoopAttr(lp, "index0").i + LoopAttr(lp, "revindex").i = n
        /\ LoopAttr(lp, "first").b = (i = 0)
        /\ LoopAttr(lp, "last").b = (LoopAttr(lp, "revindex0").i = 0)
ASSUME CounterIdentities

Emit == PrintT(ToJson(IF "long" \in DOMAIN cs THEN CaseOfLong(cs) ELSE CaseOf(cs)))
=============================================================================
