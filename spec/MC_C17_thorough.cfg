SPECIFICATION Spec
INVARIANTS
  ModelOK
  Emit
CHECK_DEADLOCK FALSE
