SPECIFICATION Spec
CONSTANTS
  FmtLen = 2
INVARIANTS
  InsensitiveOK
  Emit
CHECK_DEADLOCK FALSE
