SPECIFICATION Spec
CONSTANTS
  AllSubsetsUpTo = 10
INVARIANTS
  ModelOK
  Emit
CHECK_DEADLOCK FALSE
