SPECIFICATION Spec
CONSTANTS
  Side = 1
  Alone = 3
  BodyLen = 2
INVARIANTS
  ModelOK
  Emit
CHECK_DEADLOCK FALSE
