SPECIFICATION Spec
CONSTANTS
  MaxLen = 3
  MaxLenPrint = 4
INVARIANTS
  RefEscapeOK
  Emit
CHECK_DEADLOCK FALSE
