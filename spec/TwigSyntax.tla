----------------------------- MODULE TwigSyntax -----------------------------
(***************************************************************************)
(* The printer: AST -> sequence of source pieces.  A piece is              *)
(*    [w |-> STRING]      a word / operator / delimiter, copied verbatim   *)
(*    [c |-> Seq(Int)]    literal characters (TwigText encoding)           *)
(* The Go side only concatenates pieces.  Parenthesisation uses only the   *)
(* operator table Prec of TwigSem; lexical gaps are decided here.          *)
(*                                                                         *)
(* Layout L = [par |-> "min" | "full", sp |-> "normal" | "tight" | "wide"] *)
(***************************************************************************)
EXTENDS TwigSem

W(s) == [w |-> s]
C(s) == [c |-> s]

LMin  == [par |-> "min",  sp |-> "normal"]
LFull == [par |-> "full", sp |-> "normal"]

WordOps == {"or", "and", "in", "not in", "matches", "starts with", "ends with"}

\* the gap around a binary operator
Gap(op, L) ==
    CASE L.sp = "wide" -> <<W("  ")>>
      [] L.sp = "tight" /\ op \notin WordOps -> <<>>
      [] OTHER -> <<W(" ")>>
Sp(L) == IF L.sp = "wide" THEN <<W("  ")>> ELSE <<W(" ")>>
\* after a comma / colon
Sep(L) == IF L.sp = "tight" THEN <<>> ELSE <<W(" ")>>

\* all binary operators group from the left; a sign (unary - / +) binds tighter than any
\* binary operator, so a signed left operand needs no parentheses (except under ^,
\* where conventions differ and the property is silent)
NeedsParens(child, parentOp, side) ==
    \/ child.k \in {"cond", "test"}
    \/ child.k = "un" /\ ~(child.op \in {"-", "+"} /\ parentOp # "^")
    \/ child.k = "bin" /\ ( Prec(child.op) < Prec(parentOp)
                          \/ (Prec(child.op) = Prec(parentOp) /\ side = "right") )

Paren(ps) == <<W("(")>> \o ps \o <<W(")")>>

RECURSIVE UE(_, _), UEList(_, _), UHashBody(_, _, _)

\* operand of a binary operator
UOperand(child, parentOp, side, L) ==
    IF child.k \in {"lit", "var", "spy", "call", "mcall", "arr", "hash", "attr", "item"} THEN
         (IF L.par = "full" /\ child.k \notin {"lit", "var"} THEN Paren(UE(child, L)) ELSE UE(child, L))
    ELSE IF child.k = "filt" THEN (IF L.par = "full" THEN Paren(UE(child, L)) ELSE UE(child, L))
    ELSE IF L.par = "full" \/ NeedsParens(child, parentOp, side) THEN Paren(UE(child, L))
    ELSE UE(child, L)

\* operand of a postfix construct (filter, attribute, index, test)
UPostfixBase(e, L) ==
    IF e.k \in {"bin", "un", "cond", "test"} THEN Paren(UE(e, L))
    ELSE IF e.k = "lit" /\ e.v.t = "int" /\ e.v.i < 0 THEN Paren(UE(e, L))
    ELSE UE(e, L)

\* operand of the conditional operator and of unary operators
UAtomish(e, L) == IF e.k \in {"cond", "un"} \/ (L.par = "full" /\ e.k \in {"bin", "test", "filt"})
                  THEN Paren(UE(e, L)) ELSE UE(e, L)

\* a string literal is written between single quotes; a quote or a backslash inside it is written with a backslash before it
SrcStr(s) == Flatten([i \in 1..Len(s) |-> IF s[i] \in {39, 92} THEN <<92, s[i]>> ELSE <<s[i]>>])
RECURSIVE ULit(_)
ULit(v) ==
    CASE v.t = "int"  -> IF v.i < 0 THEN <<W("-"), C(NatDigits(-v.i))>> ELSE <<C(NatDigits(v.i))>>
      [] v.t = "str"  -> <<W("'"), C(SrcStr(v.s)), W("'")>>
      [] v.t = "bool" -> <<W(IF v.b THEN "true" ELSE "false")>>
      [] v.t = "null" -> <<W("null")>>
      [] v.t = "id"   -> <<W("'"), W(v.id), W("'")>>
      [] v.t = "list" -> <<W("[")>> \o
                         Flatten([i \in 1..Len(v.xs) |->
                                   (IF i > 1 THEN <<W(","), W(" ")>> ELSE <<>>) \o ULit(v.xs[i])]) \o <<W("]")>>
      [] OTHER        -> <<W("?unprintable?")>>

UEList(es, L) ==
    IF es = <<>> THEN <<>>
    ELSE IF Len(es) = 1 THEN UE(es[1], L)
    ELSE UE(es[1], L) \o <<W(",")>> \o Sep(L) \o UEList(Tail(es), L)

UHashBody(ks, vs, L) ==
    IF ks = <<>> THEN <<>>
    ELSE UE(ks[1], L) \o <<W(":")>> \o Sep(L) \o UE(vs[1], L)
         \o (IF Len(ks) > 1 THEN <<W(",")>> \o Sep(L) \o UHashBody(Tail(ks), Tail(vs), L) ELSE <<>>)

UE(e, L) ==
    CASE e.k = "lit" -> (IF "raw" \in DOMAIN e THEN <<W(e.raw)>> ELSE ULit(e.v))     \* raw: the literal as it is spelled (010, 007)
      [] e.k = "var" -> <<W(e.n)>>
      [] e.k = "bin" -> UOperand(e.l, e.op, "left", L) \o Gap(e.op, L) \o <<W(e.op)>> \o Gap(e.op, L)
                        \o UOperand(e.r, e.op, "right", L)
      \* the operand of a sign or of "not" carries its own suffixes ([index], .attr, |filter bind tighter than the
      \* operator): with the fewest parentheses they are written without any
      [] e.k = "un"  -> LET bare == IF L.par = "full" THEN {"lit", "var", "spy"}
                                    ELSE {"lit", "var", "spy", "call", "mcall", "arr", "hash", "attr", "item", "filt"}
                            operand == IF e.e.k \in bare THEN UE(e.e, L) ELSE Paren(UE(e.e, L))
                        IN IF e.op = "not" THEN <<W("not"), W(" ")>> \o operand ELSE <<W(e.op)>> \o operand
      [] e.k = "cond" -> UAtomish(e.c, L) \o Sp(L) \o <<W("?")>> \o Sp(L) \o UAtomish(e.a, L)
                         \* (a conditional in the false branch needs no parentheses: a ? b : c ? d : e groups to the right)
                         \o Sp(L) \o <<W(":")>> \o Sp(L) \o (IF L.par = "min" /\ e.b.k = "cond" THEN UE(e.b, L) ELSE UAtomish(e.b, L))
      [] e.k = "spy" -> <<W(e.fn), W("("), W("'"), W(e.id), W("'"), W(",")>> \o Sep(L) \o UE(e.e, L) \o <<W(")")>>
      [] e.k = "filt" -> UPostfixBase(e.e, L) \o <<W("|"), W(e.f)>> \o
                         (IF e.args = <<>> THEN <<>> ELSE <<W("(")>> \o UEList(e.args, L) \o <<W(")")>>)
      [] e.k = "attr" -> UPostfixBase(e.e, L) \o <<W("."), W(e.n)>>
      [] e.k = "item" -> UPostfixBase(e.e, L) \o <<W("[")>> \o UE(e.i, L) \o <<W("]")>>
      [] e.k = "arr"  -> <<W("[")>> \o UEList(e.es, L) \o <<W("]")>>
      [] e.k = "hash" -> <<W("{")>> \o UHashBody(e.ks, e.vs, L) \o <<W("}")>>
      [] e.k = "test" -> UPostfixBase(e.e, L) \o <<W(" "), W("is"), W(" ")>> \o
                         (IF e.neg THEN <<W("not"), W(" ")>> ELSE <<>>) \o <<W(e.tn)>> \o
                         (IF e.args = <<>> THEN <<>> ELSE <<W("(")>> \o UEList(e.args, L) \o <<W(")")>>)
      [] e.k = "call" -> <<W(e.f), W("(")>> \o UEList(e.args, L) \o <<W(")")>>
      [] e.k = "mcall" -> <<W(e.al), W("."), W(e.f), W("(")>> \o UEList(e.args, L) \o <<W(")")>>

\* ---------------------------------------------------------------------------
\* statements.  Delimiters are emitted as [o |-> "{%"] / [cl |-> "%}"] pieces so
\* that a layout pass can put dashes on them; Finish turns them into words.
\* ---------------------------------------------------------------------------
BO == [o |-> "{%"]   BC == [cl |-> "%}"]
VO == [o |-> "{{"]   VC == [cl |-> "}}"]
Tag(ps) == <<BO, W(" ")>> \o ps \o <<W(" "), BC>>

RECURSIVE US(_, _), UBody(_, _), UParams(_, _)
UBody(body, L) == IF body = <<>> THEN <<>> ELSE US(Head(body), L) \o UBody(Tail(body), L)

UParams(ps, L) ==
    IF ps = <<>> THEN <<>>
    ELSE <<W(ps[1].n)>> \o (IF ps[1].hasD THEN <<W("=")>> \o UE(ps[1].d, L) ELSE <<>>)
         \o (IF Len(ps) > 1 THEN <<W(","), W(" ")>> \o UParams(Tail(ps), L) ELSE <<>>)

UNames(names, als) ==
    Flatten([i \in 1..Len(names) |->
              (IF i > 1 THEN <<W(","), W(" ")>> ELSE <<>>) \o <<W(names[i])>> \o
              (IF als[i] # names[i] THEN <<W(" "), W("as"), W(" "), W(als[i])>> ELSE <<>>)])

US(s, L) ==
    CASE s.k = "text" -> <<C(s.c)>>
      [] s.k = "print" -> <<VO, W(" ")>> \o UE(s.e, L) \o <<W(" "), VC>>
      \* (written as plain pieces: the dashes of C13 are those of print and block tags)
      [] s.k = "comment" -> <<W("{#"), C(s.c), W("#}")>>
      [] s.k = "raw" -> s.ps
      [] s.k = "verbatim" -> Tag(<<W("verbatim")>>) \o <<C(s.c)>> \o Tag(<<W("endverbatim")>>)
      [] s.k = "do" -> Tag(<<W("do"), W(" ")>> \o UE(s.e, L))
      [] s.k = "set" -> Tag(<<W("set"), W(" "), W(s.n), W(" "), W("="), W(" ")>> \o UE(s.e, L))
      [] s.k = "if" ->
           Flatten([i \in 1..Len(s.cs) |->
                     Tag(<<W(IF i = 1 THEN "if" ELSE "elseif"), W(" ")>> \o UE(s.cs[i], L)) \o UBody(s.bs[i], L)])
           \o (IF s.hasEl THEN Tag(<<W("else")>>) \o UBody(s.el, L) ELSE <<>>)
           \o Tag(<<W("endif")>>)
      [] s.k = "for" ->
           Tag(<<W("for"), W(" ")>> \o (IF s.kv = "" THEN <<>> ELSE <<W(s.kv), W(","), W(" ")>>)
               \o <<W(s.v), W(" "), W("in"), W(" ")>> \o UE(s.seq, L))
           \o UBody(s.body, L)
           \o (IF s.hasEl THEN Tag(<<W("else")>>) \o UBody(s.el, L) ELSE <<>>)
           \o Tag(<<W("endfor")>>)
      \* ("nm": the end tag repeats the name, {% endblock name %})
      [] s.k = "block" -> Tag(<<W("block"), W(" "), W(s.n)>>) \o UBody(s.body, L)
                          \o Tag(<<W("endblock")>> \o (IF "nm" \in DOMAIN s THEN <<W(" "), W(s.n)>> ELSE <<>>))
      [] s.k = "extends" -> Tag(<<W("extends"), W(" ")>> \o UE(s.e, L))
      [] s.k = "macro" -> Tag(<<W("macro"), W(" "), W(s.n), W("(")>> \o UParams(s.ps, L) \o <<W(")")>>)
                          \o UBody(s.body, L) \o Tag(<<W("endmacro")>>)
      [] s.k = "import" -> Tag(<<W("import"), W(" ")>> \o UE(s.e, L) \o <<W(" "), W("as"), W(" "), W(s.al)>>)
      [] s.k = "from" -> Tag(<<W("from"), W(" ")>> \o UE(s.e, L) \o <<W(" "), W("import"), W(" ")>> \o UNames(s.names, s.als))
      [] s.k = "include" ->
           Tag(<<W("include"), W(" ")>> \o UE(s.e, L)
               \o (IF s.ign THEN <<W(" "), W("ignore missing")>> ELSE <<>>)
               \o (IF s.hasWith THEN <<W(" "), W("with"), W(" ")>> \o UE(s.with, L) ELSE <<>>)
               \o (IF s.only THEN <<W(" "), W("only")>> ELSE <<>>)
               \o (IF s.sbx THEN <<W(" "), W("sandboxed")>> ELSE <<>>))
      [] s.k = "spaceless" -> Tag(<<W("spaceless")>>) \o UBody(s.body, L) \o Tag(<<W("endspaceless")>>)
      [] s.k = "apply" ->
           Tag(<<W("apply"), W(" "), W(s.f)>> \o
               (IF s.args = <<>> THEN <<>> ELSE <<W("(")>> \o UEList(s.args, L) \o <<W(")")>>))
           \o UBody(s.body, L) \o Tag(<<W("endapply")>>)

\* plain layout: no dashes
Finish(ps) == [i \in 1..Len(ps) |->
                 IF "o" \in DOMAIN ps[i] THEN W(ps[i].o)
                 ELSE IF "cl" \in DOMAIN ps[i] THEN W(ps[i].cl) ELSE ps[i]]

Source(body, L) == Finish(UBody(body, L))
Sources(tp, L) == [n \in DOMAIN tp |-> Source(tp[n], L)]

=============================================================================
