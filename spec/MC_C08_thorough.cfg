SPECIFICATION Spec
CONSTANTS
  MaxOps = 3
  PosOps = 1
INVARIANTS
  ModelOK
  Emit
CHECK_DEADLOCK FALSE
