SPECIFICATION Spec
CONSTANTS
  RichLeaves = FALSE
  MaxOps = 3
  PosOps = 1
INVARIANTS
  ModelOK
  TableSound
  Emit
CHECK_DEADLOCK FALSE
