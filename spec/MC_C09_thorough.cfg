SPECIFICATION Spec
CONSTANTS
  MaxConds = 3
  MaxList = 4
  MaxSetLen = 3
INVARIANTS
  Emit
CHECK_DEADLOCK FALSE
