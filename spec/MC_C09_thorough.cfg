SPECIFICATION Spec
CONSTANTS
  MaxConds = 3
  MaxList = 4
  MaxStr = 34
  MaxSetLen = 3
INVARIANTS
  Emit
CHECK_DEADLOCK FALSE
