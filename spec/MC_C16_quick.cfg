SPECIFICATION Spec
CONSTANTS
  Big = FALSE
INVARIANTS
  Emit
CHECK_DEADLOCK FALSE
