SPECIFICATION Spec
CONSTANTS
  SweepLens <- SweepQuick
  Big = FALSE
INVARIANTS
  Emit
CHECK_DEADLOCK FALSE
