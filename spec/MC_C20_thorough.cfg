SPECIFICATION Spec
CONSTANTS
  Cap = 2
  MaxLen = 3
  KeyWithoutType = FALSE
  FirstIndexOnly = FALSE
  ShapeSet = {"S4", "S6", "S9", "S12", "S14", "any", "mii", "mnk", "S13"}
  NameSet = {"X", "Name", "AName", "nosuch", "Cust", "W", "Uviet"}
INVARIANTS
  CacheUnobservable
  Bounded
  Emit
VIEW View
CHECK_DEADLOCK FALSE
