SPECIFICATION Spec
CONSTANTS
  Cap = 2
  MaxLen = 3
  KeyWithoutType = FALSE
  FirstIndexOnly = FALSE
  ShapeSet = {"S4", "S6", "S9", "S12", "S14", "any", "mii"}
  NameSet = {"X", "Name", "AName", "nosuch", "Cust", "W", "Uelan"}
INVARIANTS
  CacheUnobservable
  Bounded
  Emit
VIEW View
CHECK_DEADLOCK FALSE
