SPECIFICATION Spec
CONSTANTS
  Cap = 2
  MaxLen = 3
  KeyWithoutType = FALSE
  FirstIndexOnly = FALSE
  NameSet = {"X", "Y", "W", "Name", "nosuch", "x", "name"}
INVARIANTS
  CacheUnobservable
  Bounded
  Emit
VIEW View
CHECK_DEADLOCK FALSE
