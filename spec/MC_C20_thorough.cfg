SPECIFICATION Spec
CONSTANTS
  Cap = 2
  MaxLen = 3
  KeyWithoutType = FALSE
  FirstIndexOnly = FALSE
  NameSet = {"X", "W", "Name", "AName", "nosuch", "x", "Cust", "V", "Uelan"}
INVARIANTS
  CacheUnobservable
  Bounded
  Emit
VIEW View
CHECK_DEADLOCK FALSE
