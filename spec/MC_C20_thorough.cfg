SPECIFICATION Spec
CONSTANTS
  Cap = 2
  MaxLen = 3
  KeyWithoutType = FALSE
  FirstIndexOnly = FALSE
  NameSet = {"X", "Y", "W", "Name", "nosuch"}
INVARIANTS
  CacheUnobservable
  Bounded
  Emit
VIEW View
CHECK_DEADLOCK FALSE
