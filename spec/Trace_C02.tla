------------------------------ MODULE Trace_C02 ------------------------------
(***************************************************************************)
(* Code -> spec: linearizability of recorded concurrent histories.         *)
(* The trace holds the call/return events of RegisterString(n, v) and      *)
(* Render(n) calls made by several goroutines on one engine (global        *)
(* tickets taken before the call and after the return give the real-time   *)
(* order; per-goroutine order is implied).  The sequential specification   *)
(* is a register per name: a render returns the version most recently      *)
(* registered.  The history is accepted iff there is a total order that    *)
(* respects real time (ret(a) < call(b) => a before b) in which every      *)
(* render returns the then-current version -- i.e. "every call returns     *)
(* exactly what it would return if the calls ran one after another".        *)
(* TLC searches the linearization; the high-water mark of linearized        *)
(* events is printed by the POSTCONDITION.                                  *)
(***************************************************************************)
EXTENDS Integers, Sequences, FiniteSets, TLC, Json

Trace == ndJsonDeserialize("trace.ndjson")
N == Len(Trace)
VARIABLES done, ver
Names == {Trace[i].n : i \in 1..N}

Init == done = {} /\ ver = [n \in Names |-> 0] /\ TLCSet(1, 0)
\* an event may be linearized next iff everything that returned before it was called is linearized
Ready(i) == i \notin done /\ \A j \in 1..N : Trace[j].ret < Trace[i].call => j \in done
Lin(i) ==
    /\ Ready(i)
    /\ IF Trace[i].op = "register"
       THEN ver' = [ver EXCEPT ![Trace[i].n] = Trace[i].ver]
       ELSE Trace[i].ok /\ Trace[i].got = ver[Trace[i].n] /\ UNCHANGED ver
    /\ done' = done \cup {i}
    /\ (IF Cardinality(done') > TLCGet(1) THEN TLCSet(1, Cardinality(done')) ELSE TRUE)
Next == \E i \in 1..N : Lin(i)
Spec == Init /\ [][Next]_<<done, ver>>
Post == PrintT(<<"LINEARIZED", TLCGet(1), N>>)
=============================================================================
