---------------------------- MODULE CacheLoaders ----------------------------
(***************************************************************************)
(* C15: the template cache and the loaders always serve the source the     *)
(* configuration calls for.  State machine of one engine with two loaders   *)
(* (L1 plain, L2 timestamp-aware), a cache, and the flags cache / auto-     *)
(* reload (SetDevelopmentMode sets both).  Load(n) is one action whose      *)
(* disjuncts are the rule set; every step records, in hist, the observation *)
(* the implementation must show: the version served (or not-found), the     *)
(* number of Load calls each loader has seen per name, the cached names.    *)
(*                                                                         *)
(* The property's sentences as action properties:                           *)
(*   P1 most recently registered source is used                             *)
(*   P2 cache off => every call reads the loaders                           *)
(*   P3 auto-reload: a newer timestamp is seen by the next call, an          *)
(*      unchanged template is not re-read                                   *)
(*   P4 no auto-reload: a cached template stays as it was, no reads          *)
(*   P5 loaders are consulted in registration order, the first that has     *)
(*      the name wins                                                        *)
(*   P6 no loader has the name => not-found, cache unchanged                 *)
(* Names: r1 only ever registered; l1, l2 only in loaders; m1 both          *)
(* (registered names are rendered only while the cache is on: what a        *)
(* registered string means with the cache off is not determined).           *)
(***************************************************************************)
EXTENDS Integers, Sequences, FiniteSets, TLC, Json

CONSTANTS MaxLen,
          TwoPaths,    \* TRUE: the timestamp-aware loader is a file-system loader with two search paths (slots 2 and 3)
          NamesUsed,   \* the names the operations range over (a subset of Names: focused configurations)
          InitAuto,    \* auto-reload at the start
          Broken       \* TRUE: a loader may also hold a source that does not parse (version 9); no flag toggles
VARIABLES content,     \* content[i][n] : version held by loader i / by search path i of the file-system loader (0 = absent)
          mtime,       \* mtime[i][n] : modification time of n in slot i (timestamp-aware slots)
          loads,       \* loads[i][n] : Load calls loader i has seen for n
          cache,       \* cache[n] : [ver, from, lastMod] ; ver = 0 : not cached
          cacheOn, autoReload,
          clock,       \* engine-side time stamp source for registered strings (only compared with itself)
          remembered,  \* remembered[n] : the search path (slot) in which the file-system loader found n last (0: none)
          hist
vars == <<content, mtime, loads, cache, cacheOn, autoReload, clock, remembered, hist>>

\* slot 1: the plain loader; slot 2: the timestamp-aware loader (its first search path); slot 3: its second search path
Slots == IF TwoPaths THEN {1, 2, 3} ELSE {1, 2}
Loaders == {1, 2}                       \* what the engine sees (Load-call counters are per loader)
LoaderOf(i) == IF i = 1 THEN 1 ELSE 2
TsAware(i) == i \in {2, 3}
RegNames == {"r1", "m1"}
LoaderNamesOf(i) == IF i = 1 THEN {"l1", "m1"} ELSE IF i = 2 THEN {"l1", "l2", "m1"} ELSE {"l2", "m1"}
Names == {"r1", "l1", "l2", "m1"}
Vers == {1, 2}
BrokenVer == 9
PutVers == Vers \cup (IF Broken THEN {BrokenVer} ELSE {})
\* what a render shows of a version: a source that does not parse is an error of its own (-3), neither output nor not-found
ServedOf(v) == IF v = BrokenVer THEN -3 ELSE v
NoEntry == [ver |-> 0, from |-> 0, lastMod |-> 0]

Init == /\ content = [i \in Slots |-> [n \in Names |-> 0]]
        /\ mtime = [i \in Slots |-> [n \in Names |-> -1]]      \* no stamp yet: the first one a name gets is 0 (a loader may count from 0)
        /\ loads = [i \in Loaders |-> [n \in Names |-> 0]]
        /\ cache = [n \in Names |-> NoEntry]
        /\ cacheOn = TRUE /\ autoReload = InitAuto /\ clock = 1
        /\ remembered = [n \in Names |-> 0]
        /\ hist = <<>>

\* what the implementation must show after a step
Observation(served, cache2, loads2) ==
    [served |-> served, loads |-> loads2, cached |-> {n \in Names : cache2[n].ver # 0}]

\* first slot in registration / search-path order that has n (0: none)
FirstWith(n) == IF content[1][n] # 0 THEN 1 ELSE IF content[2][n] # 0 THEN 2 ELSE IF TwoPaths /\ content[3][n] # 0 THEN 3 ELSE 0
\* Load calls made while looking for n: every loader up to and including the winner's
ReadsFor(n) == LET w == FirstWith(n) IN
               [i \in Loaders |-> [m \in Names |-> loads[i][m] + (IF m = n /\ (w = 0 \/ i <= LoaderOf(w)) THEN 1 ELSE 0)]]

\* does the cached entry have to be reloaded?
Stale(n) == /\ autoReload
            /\ cache[n].from # 0 /\ TsAware(cache[n].from)
            /\ (content[cache[n].from][n] = 0 \/ mtime[cache[n].from][n] > cache[n].lastMod)

Render(n) ==
    /\ (n \in RegNames /\ FirstWith(n) = 0 => cacheOn)          \* see header: registered-only names need the cache
    /\ (~cacheOn => ~(cache[n].ver # 0 /\ cache[n].from = 0))  \* ... and so does a name whose current source was registered
    /\ IF cacheOn /\ cache[n].ver # 0 /\ ~Stale(n)
       THEN \* P4 / P3b / P1: served from the cache, no loader is read
            /\ hist' = Append(hist, [op |-> "render", n |-> n, obs |-> Observation(cache[n].ver, cache, loads)])
            /\ UNCHANGED <<content, mtime, loads, cache, cacheOn, autoReload, clock, remembered>>
       ELSE LET w == FirstWith(n)
                rd == ReadsFor(n)
            IN IF w = 0
               THEN \* P6: not found, cache unchanged
                    /\ loads' = rd
                    /\ remembered' = [remembered EXCEPT ![n] = 0]
                    /\ hist' = Append(hist, [op |-> "render", n |-> n, obs |-> Observation(0, cache, rd)])
                    /\ UNCHANGED <<content, mtime, cache, cacheOn, autoReload, clock>>
               ELSE IF content[w][n] = BrokenVer
               THEN \* the source the configuration calls for does not parse: that is what the call reports, every time it is
                    \* read; the cache keeps what it had (the comparison leaves the name's cache entry open until it is served again)
                    /\ loads' = rd
                    /\ remembered' = IF w = 1 THEN remembered ELSE [remembered EXCEPT ![n] = w]
                    /\ hist' = Append(hist, [op |-> "render", n |-> n, obs |-> Observation(-3, cache, rd)])
                    /\ UNCHANGED <<content, mtime, cache, cacheOn, autoReload, clock>>
               ELSE \* P2 / P3a / P5: (re)load from the first loader that has it
                    LET entry == [ver |-> content[w][n], from |-> w, lastMod |-> IF TsAware(w) THEN mtime[w][n] ELSE 0]
                        c2 == IF cacheOn THEN [cache EXCEPT ![n] = entry] ELSE cache
                    IN /\ loads' = rd
                       /\ remembered' = IF w = 1 THEN remembered ELSE [remembered EXCEPT ![n] = w]
                       /\ cache' = c2
                       /\ hist' = Append(hist, [op |-> "render", n |-> n, obs |-> Observation(content[w][n], c2, rd)])
                       /\ UNCHANGED <<content, mtime, cacheOn, autoReload, clock>>

\* the cache is off and the name's current source was registered: what such a call serves is not determined (the registration has
\* no loader to be re-read from) -- but it reads the loaders like every call without a cache, and the registration is still there when
\* the cache is switched on again
RenderOffReg(n) ==
    /\ ~cacheOn /\ cache[n].ver # 0 /\ cache[n].from = 0 /\ ~Broken
    /\ LET w == FirstWith(n)
           rd == ReadsFor(n)
       IN /\ loads' = rd
          /\ remembered' = IF w \in {2, 3} THEN [remembered EXCEPT ![n] = w] ELSE IF w = 0 THEN [remembered EXCEPT ![n] = 0] ELSE remembered
          /\ hist' = Append(hist, [op |-> "render", n |-> n, anyserved |-> TRUE, obs |-> Observation(IF w = 0 THEN 0 ELSE content[w][n], cache, rd)])
          /\ UNCHANGED <<content, mtime, cache, cacheOn, autoReload, clock>>

Register(n, v) ==
    /\ n \in RegNames /\ cacheOn
    /\ cache' = [cache EXCEPT ![n] = [ver |-> v + 10, from |-> 0, lastMod |-> clock]]     \* registered versions are 11, 12
    /\ clock' = clock + 1
    /\ hist' = Append(hist, [op |-> "register", n |-> n, v |-> v + 10, obs |-> Observation(-1, cache', loads)])
    /\ UNCHANGED <<content, mtime, loads, cacheOn, autoReload, remembered>>

\* the text registered is byte for byte what the cache already holds for the name from a loader: still a registration --
\* from now on the name means that text, whatever the loaders come to hold
RegSame(n) ==
    /\ n \in RegNames /\ cacheOn /\ cache[n].ver \in Vers /\ cache[n].from # 0
    /\ cache' = [cache EXCEPT ![n] = [ver |-> cache[n].ver, from |-> 0, lastMod |-> clock]]
    /\ clock' = clock + 1
    /\ hist' = Append(hist, [op |-> "register", n |-> n, v |-> cache[n].ver, obs |-> Observation(-1, cache', loads)])
    /\ UNCHANGED <<content, mtime, loads, cacheOn, autoReload, remembered>>

\* registering a compiled template is a registration like any other: it replaces what the name had, whatever time
\* stamp the compiled form carries (old: 0, new: far in the future); versions 21, 22
RegCompiled(n, v, old) ==
    /\ n \in RegNames /\ cacheOn
    /\ cache' = [cache EXCEPT ![n] = [ver |-> v + 20, from |-> 0, lastMod |-> IF old THEN 0 ELSE 1000000]]
    /\ hist' = Append(hist, [op |-> "regcompiled", n |-> n, v |-> v + 20, b |-> old, obs |-> Observation(-1, cache', loads)])
    /\ UNCHANGED <<content, mtime, loads, cacheOn, autoReload, clock, remembered>>

\* a template object the engine has loaded under name n is registered under a second name a (Load + RegisterTemplate): that is
\* a registration like any other -- a then means that version (31, 32), whatever the flags are and whatever happens to n later
RegAlias(a, n) ==
    /\ a \in RegNames /\ n \notin RegNames /\ cacheOn
    /\ cache[n].ver \in Vers /\ ~Stale(n)                       \* (Load(n) is served from the cache: no loader is read)
    /\ cache' = [cache EXCEPT ![a] = [ver |-> cache[n].ver + 30, from |-> 0, lastMod |-> cache[n].lastMod]]
    /\ hist' = Append(hist, [op |-> "regalias", n |-> a, of |-> n, v |-> cache[n].ver + 30, obs |-> Observation(-1, cache', loads)])
    /\ UNCHANGED <<content, mtime, loads, cacheOn, autoReload, clock, remembered>>

\* a content change always raises the time stamp (a change with an equal stamp is undetectable by design)
\* every write to a file gets a time stamp newer than every stamp the name has had.  A file may be put into the first
\* search path, or back into the second, only if that does not leave the loader with files in both paths while it
\* remembers the back one: which copy a file-system loader that has already served the back copy prefers when a front
\* copy appears later is not stated anywhere.
NewestStamp(n) == LET S == {mtime[j][n] : j \in Slots \ {1}} IN CHOOSE m \in S : \A x \in S : x <= m
Put(i, n, v) ==
    /\ i \in Slots /\ n \in LoaderNamesOf(i) /\ content[i][n] # v
    /\ ~(TwoPaths /\ remembered[n] = 3 /\ ((i = 2 /\ content[3][n] # 0) \/ (i = 3 /\ content[2][n] # 0)))
    /\ content' = [content EXCEPT ![i][n] = v]
    /\ mtime' = IF TsAware(i) THEN [mtime EXCEPT ![i][n] = NewestStamp(n) + 1] ELSE mtime
    /\ hist' = Append(hist, [op |-> "put", i |-> i, n |-> n, v |-> v, mt |-> mtime'[i][n], obs |-> Observation(-1, cache, loads)])
    /\ UNCHANGED <<loads, cache, cacheOn, autoReload, clock, remembered>>
\* a deletion is a change like any other: with auto-reload on the next call sees it (and serves what the loaders
\* then have, or reports not-found and leaves the cache alone)
Delete(i, n) ==
    /\ i \in Slots /\ content[i][n] # 0
    /\ content' = [content EXCEPT ![i][n] = 0]
    /\ hist' = Append(hist, [op |-> "delete", i |-> i, n |-> n, obs |-> Observation(-1, cache, loads)])
    /\ UNCHANGED <<mtime, loads, cache, cacheOn, autoReload, clock, remembered>>
\* the file changes while the engine is reading it: the loader has handed out the old source and the new version (with a newer
\* stamp) is in place before the call returns.  Which of the two this call serves is open (alt); the NEXT call sees the change like
\* any other -- the entry must not be left with the old content under the new stamp.  Sequentially: Render(n), then Put(w, n, v).
RenderPut(n, v) ==
    LET w == FirstWith(n) IN
    /\ w # 0 /\ TsAware(w) /\ v \in Vers /\ content[w][n] \in Vers /\ content[w][n] # v
    /\ ~(cacheOn /\ cache[n].ver # 0 /\ ~Stale(n))                  \* the call reads the loaders
    /\ (~cacheOn => ~(cache[n].ver # 0 /\ cache[n].from = 0))
    /\ ~(TwoPaths /\ remembered[n] = 3 /\ ((w = 2 /\ content[3][n] # 0) \/ (w = 3 /\ content[2][n] # 0)))
    /\ LET entry == [ver |-> content[w][n], from |-> w, lastMod |-> mtime[w][n]]
           c2 == IF cacheOn THEN [cache EXCEPT ![n] = entry] ELSE cache
           rd == ReadsFor(n)
           mt2 == NewestStamp(n) + 1
       IN /\ loads' = rd /\ cache' = c2
          /\ remembered' = [remembered EXCEPT ![n] = w]
          /\ content' = [content EXCEPT ![w][n] = v]
          /\ mtime' = [mtime EXCEPT ![w][n] = mt2]
          /\ hist' = Append(hist, [op |-> "renderput", n |-> n, i |-> w, v |-> v, mt |-> mt2, alt |-> v, obs |-> Observation(content[w][n], c2, rd)])
          /\ UNCHANGED <<cacheOn, autoReload, clock>>

SetCache(b) ==
    /\ cacheOn # b
    /\ cacheOn' = b
    /\ hist' = Append(hist, [op |-> "setcache", b |-> b, obs |-> Observation(-1, cache, loads)])
    /\ UNCHANGED <<content, mtime, loads, cache, autoReload, clock, remembered>>
SetAutoReload(b) ==
    /\ autoReload # b
    /\ autoReload' = b
    /\ hist' = Append(hist, [op |-> "setautoreload", b |-> b, obs |-> Observation(-1, cache, loads)])
    /\ UNCHANGED <<content, mtime, loads, cache, cacheOn, clock, remembered>>
SetDevMode(b) ==
    /\ autoReload' = b /\ cacheOn' = ~b
    /\ hist' = Append(hist, [op |-> "setdevmode", b |-> b, obs |-> Observation(-1, cache, loads)])
    /\ UNCHANGED <<content, mtime, loads, cache, clock, remembered>>

Next ==
    /\ Len(hist) < MaxLen
    /\ \/ \E n \in NamesUsed : Render(n)
       \/ \E n \in NamesUsed : RenderOffReg(n)
       \/ \E n \in NamesUsed : \E v \in Vers : RenderPut(n, v)
       \/ \E n \in RegNames \cap NamesUsed : \E v \in Vers : Register(n, v)
       \/ \E n \in RegNames \cap NamesUsed : RegSame(n)
       \/ \E n \in RegNames \cap NamesUsed : \E old \in BOOLEAN : RegCompiled(n, 1, old)
       \/ \E a \in RegNames \cap NamesUsed : \E n \in NamesUsed : RegAlias(a, n)
       \/ \E i \in Slots : \E n \in NamesUsed : \E v \in PutVers : Put(i, n, v)
       \/ \E i \in Slots : \E n \in NamesUsed : Delete(i, n)
       \/ (~Broken /\ \E b \in BOOLEAN : SetCache(b) \/ SetAutoReload(b) \/ SetDevMode(b))
Spec == Init /\ [][Next]_vars

\* ---- the property's sentences over steps ------------------------------------------------------
Last == hist'[Len(hist')]
IsRender == hist' # hist /\ Last.op = "render" /\ "anyserved" \notin DOMAIN Last
TotalLoads(l, n) == l[1][n] + l[2][n]
P2 == [][IsRender /\ ~cacheOn => TotalLoads(loads', Last.n) > TotalLoads(loads, Last.n)]_vars
P3unchanged == [][IsRender /\ cacheOn /\ autoReload /\ cache[Last.n].ver # 0 /\ ~Stale(Last.n) => loads' = loads]_vars
P3changed == [][IsRender /\ cacheOn /\ Stale(Last.n) /\ FirstWith(Last.n) # 0 => Last.obs.served = ServedOf(content[FirstWith(Last.n)][Last.n])]_vars
P4 == [][IsRender /\ cacheOn /\ ~autoReload /\ cache[Last.n].ver # 0 => (Last.obs.served = cache[Last.n].ver /\ loads' = loads)]_vars
P5 == [][IsRender /\ ~cacheOn /\ content[1][Last.n] # 0 => Last.obs.served = ServedOf(content[1][Last.n])]_vars
\* a source that does not parse is never papered over with an older one while auto-reload is on
P3broken == [][IsRender /\ cacheOn /\ autoReload /\ FirstWith(Last.n) # 0 /\ content[FirstWith(Last.n)][Last.n] = BrokenVer
                 /\ (cache[Last.n].ver = 0 \/ Stale(Last.n)) => Last.obs.served = -3]_vars
P6 == [][IsRender /\ Last.obs.served = 0 => cache' = cache]_vars
P1 == [][(hist' # hist /\ Last.op \in {"register", "regcompiled", "regalias"}) => cache'[Last.n].ver = Last.v]_vars
TypeOK == \A n \in Names : cache[n].ver # 0 => (cache[n].from = 0 \/ cache[n].from \in Slots)

Complete == Len(hist) = MaxLen /\ hist[MaxLen].op = "render"
OpTags == {hist[i].op : i \in 1..Len(hist)}
Emit == Complete => PrintT(ToJson([prop |-> "C15", key |-> ToJson([i \in 1..Len(hist) |-> [o \in (DOMAIN hist[i]) \ {"obs"} |-> hist[i][o]]]),
                                   tags |-> {"op:" \o o : o \in OpTags} \cup (IF TwoPaths THEN {"twopaths", "fsloader"} ELSE {}) \cup (IF Broken THEN {"broken-source"} ELSE {}), ops |-> hist,
                                   fs |-> TwoPaths, auto |-> InitAuto]))
=============================================================================
