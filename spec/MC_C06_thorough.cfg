SPECIFICATION Spec
CONSTANTS
  Depth2 = TRUE
INVARIANTS
  ModelOK
  Emit
CHECK_DEADLOCK FALSE
