------------------------------- MODULE MC_C14 -------------------------------
(***************************************************************************)
(* C14: template length and tag position do not change how a template is   *)
(* read.  Every template of the C13 corpus (with and without dashes) gets   *)
(* symbolic pad tokens in the middle of its text pieces; a pad is expanded  *)
(* by the Go side to literal text / text with lone braces / a comment /     *)
(* empty print tags of a given length.  The expectation is metamorphic and  *)
(* a theorem of the reference semantics: Exec copies text to the output, so *)
(*     Out(padded) = Out(unpadded) with the same pad tokens in it           *)
(* (a comment pad and an empty-print pad expand to nothing on the output    *)
(* side).  Lengths straddle the engine's size thresholds: the template is   *)
(* made exactly 4095 / 4096 / 4097 bytes long, and 20 KB, 100 KB, 300 KB.   *)
(***************************************************************************)
EXTENDS MC_C13

CONSTANTS Big,         \* TRUE: include the 100 KB / 300 KB runs
          Quick,       \* TRUE: fewer dash sets / whitespace styles / writers
          Only         \* "all", or "dashsweep": only the dashed token-count sweeps (run for C13: a dash works at every template size)

\* (q: comments with unpaired quotes / braces in their bodies and text between them; i: closed if-blocks that render nothing)
PadStyles == {"p", "b", "c", "e", "q", "i"}

NSyms(name) == Cardinality({i \in 1..Len(MainPieces(name)) : IsSymPiece(MainPieces(name)[i])})
MaxSym == 5

PadSets(name) ==
    LET n == NSyms(name) IN {{k} : k \in 1..n} \cup {1..n}

Dashes14(name) ==
    LET n == NDelims(MainPieces(name)) IN {{}, 1..n} \cup (IF Quick THEN {} ELSE {{d} : d \in 1..n})

Cases14 == UNION {{[s |-> name, D |-> D, style |-> style, padAt |-> P, ps |-> pst]
                    : D \in Dashes14(name), style \in (IF Quick THEN {"sp", "none", "bsl"} ELSE {"sp", "lf", "none", "ctl2", "bsl", "nonascii"}), P \in PadSets(name), pst \in PadStyles}
                  : name \in DOMAIN Corpus}

\* the length plans: one run each; "total" plans need a single pad
Lens == {0, 1, 200, 4000, 20480} \cup (IF Big THEN {102400, 300000} ELSE {})
Totals == {4095, 4096, 4097, 4098, 8192}
\* pad lengths that bring the end of a text run (letter, pad, letter, white space before a dashed tag) to every offset around
\* 64 KiB (and, in the thorough tier, around 128 KiB): white space that a dash removes may lie anywhere in a text of any length
EdgeLens == 65522..65537 \cup (IF Big THEN 131058..131073 ELSE {})
PadTable(c, len, total) ==
    [k \in 1..MaxSym |-> IF k \in c.padAt THEN [len |-> len, style |-> c.ps, total |-> total]
                         ELSE [len |-> 0, style |-> "p", total |-> 0]]

Runs14(c) ==
    {[label |-> "len" \o ToString(l) \o "/" \o w, tp |-> SourcesOf(c, FALSE), xcalls |-> [id \in {} |-> 0],
      pads |-> PadTable(c, l, 0), writer |-> w] : l \in Lens, w \in (IF Quick THEN {""} ELSE {"", "buffer", "plain"})}
    \* (the same templates handed over as compiled bytes: the size classes of that route)
    \cup {[label |-> "len" \o ToString(l) \o "/compiled", tp |-> SourcesOf(c, FALSE), xcalls |-> [id \in {} |-> 0],
           pads |-> PadTable(c, l, 0), writer |-> "", via |-> "compiled"] : l \in Lens \cup {70000}}
    \cup (IF Cardinality(c.padAt) = 1 /\ c.ps = "p" /\ c.D # {}
          THEN {[label |-> "edge" \o ToString(l) \o "/", tp |-> SourcesOf(c, FALSE), xcalls |-> [id \in {} |-> 0],
                 pads |-> PadTable(c, l, 0), writer |-> ""] : l \in EdgeLens}
          ELSE {})
    \cup (IF Cardinality(c.padAt) = 1 /\ c.ps \notin {"e", "q", "i"}
          THEN {[label |-> "total" \o ToString(t) \o "/", tp |-> SourcesOf(c, FALSE), xcalls |-> [id \in {} |-> 0],
                 pads |-> PadTable(c, 0, t), writer |-> ""] : t \in Totals}
          ELSE {})

\* token-count sweep: k dashed empty print tags (5 tokens each) in one pad, a plain pad that lifts the
\* template over the large-template threshold; k sweeps so that the token count passes through every
\* residue and the buffer-capacity steps of the tokenizer
SweepKs == IF Quick THEN {k \in 70..260 : k % 3 = 0} ELSE 40..420
SweepRuns(c) ==
    {[label |-> "sweep" \o ToString(k) \o "/" \o st, tp |-> SourcesOf(c, FALSE), xcalls |-> [id \in {} |-> 0], writer |-> "",
      pads |-> [i \in 1..MaxSym |-> IF i = 1 THEN [len |-> (IF st = "d" THEN 14 ELSE 6) * k, style |-> st, total |-> 0]
                                    ELSE IF i = 2 THEN [len |-> 4200, style |-> "p", total |-> 0]
                                    ELSE [len |-> 0, style |-> "p", total |-> 0]]] : k \in SweepKs, st \in {"d", "e"}}
\* the same below the large-template threshold (the other tokenizer): the token count b + 3k + 4j (+1) passes through every
\* value up to ~1100, hence through every capacity step of the pooled token buffer, whatever it has grown to
SmallKs == IF Quick THEN 60..350 ELSE 1..640
SmallSweepRuns(c) ==
    {[label |-> "small" \o ToString(k) \o "+" \o ToString(j), tp |-> SourcesOf(c, FALSE), xcalls |-> [id \in {} |-> 0], writer |-> "",
      pads |-> [i \in 1..MaxSym |-> IF i = 1 THEN [len |-> 6 * k, style |-> "e", total |-> 0]
                                    ELSE IF i = 2 THEN [len |-> 14 * j, style |-> "d", total |-> 0]
                                    ELSE [len |-> 0, style |-> "p", total |-> 0]]] : k \in SmallKs, j \in 0..2}
SweepCases == UNION {{[s |-> name, D |-> D, style |-> st, padAt |-> {1, 2}, ps |-> "sweepsmall"]
                        : D \in {{}, 1..NDelims(MainPieces(name))}, st \in {"sp", "none"}} : name \in {"print2", "ifelse"}}
              \cup UNION {{[s |-> name, D |-> D, style |-> st, padAt |-> {1, 2}, ps |-> "sweep"]
                        : D \in {{}, 1..NDelims(MainPieces(name))}, st \in {"sp", "none"}} : name \in {"print2", "ifelse"}}
\* history: a template whose first dash comes late (40 plain print tags, then a dashed one) is parsed first; then a fully dashed
\* template of about 3 KB (below the large-template threshold, beyond ten times the token buffer of the tokenizer that has just
\* been used).  The runs are a sequence: they are made in this order in one process.
LatePieces == [i \in 1..40 |-> W("{{ x }}")] \o <<C(<<32, 10>>), W("{{- x -}}"), C(<<32, 10>>)>>
LateOut == [i \in 1..41 |-> 51]
HistRuns(c) ==
    <<[label |-> "late", tp |-> ("main" :> LatePieces), xcalls |-> [id \in {} |-> 0], writer |-> "", out |-> LateOut,
       pads |-> [i \in 1..MaxSym |-> [len |-> 0, style |-> "p", total |-> 0]]],
      [label |-> "early", tp |-> SourcesOf(c, FALSE), xcalls |-> [id \in {} |-> 0], writer |-> "",
       pads |-> [i \in 1..MaxSym |-> IF i = 1 THEN [len |-> 3000, style |-> "p", total |-> 0] ELSE [len |-> 0, style |-> "p", total |-> 0]]],
      [label |-> "late2", tp |-> ("main" :> LatePieces), xcalls |-> [id \in {} |-> 0], writer |-> "", out |-> LateOut,
       pads |-> [i \in 1..MaxSym |-> [len |-> 0, style |-> "p", total |-> 0]]],
      [label |-> "early2", tp |-> SourcesOf(c, FALSE), xcalls |-> [id \in {} |-> 0], writer |-> "",
       pads |-> [i \in 1..MaxSym |-> IF i = 1 THEN [len |-> 3600, style |-> "b", total |-> 0] ELSE [len |-> 0, style |-> "p", total |-> 0]]]>>
HistCases == UNION {{[s |-> name, D |-> 1..NDelims(MainPieces(name)), style |-> st, padAt |-> {1}, ps |-> "hist"] : st \in {"sp", "mix"}} : name \in {"print2", "ifelse", "forloop"}}
CaseOf14(c) ==
    [prop |-> IF Only = "dashsweep" THEN "C13" ELSE "C14", key |-> ToJson(c),
     tags |-> {"s:" \o c.s, "style:" \o c.style, "ndash:" \o ToString(Cardinality(c.D)), "pad:" \o c.ps,
               "npads:" \o ToString(Cardinality(c.padAt))},
     entry |-> "main", ctx |-> Ctx,
     runs |-> IF c.ps = "sweep" THEN SweepRuns(c) ELSE IF c.ps = "sweepsmall" THEN SmallSweepRuns(c) ELSE IF c.ps = "hist" THEN HistRuns(c) ELSE Runs14(c),
     expect |-> [ok |-> TRUE, out |-> Expected(c), err |-> "", calls |-> [id \in {} |-> 0]]]

\* runs of several white-space characters next to fully dashed tags, one plain pad: with the edge lengths the white space
\* that a dash removes lies across every offset around 64 KiB of its text
EdgeCases == UNION {{[s |-> name, D |-> 1..NDelims(MainPieces(name)), style |-> "mix", padAt |-> {k}, ps |-> "p"]
                       : k \in 1..NSyms(name)} : name \in {"print2", "ifelse", "forloop"}}
Init14 == cs \in IF Only = "dashsweep" THEN {c \in SweepCases \cup HistCases : c.D # {}} ELSE Cases14 \cup SweepCases \cup HistCases \cup EdgeCases
Spec14 == Init14 /\ [][UNCHANGED cs]_cs
Emit14 == PrintT(ToJson(CaseOf14(cs)))

\* model-level: removing the pad tokens from the padded expectation gives the unpadded one
PadOnlyAddsPad ==
    LET NoPad(s) == SelectSeq(s, LAMBDA ch : ~(IsPad(ch) /\ ~IsSym(ch)))
        \* the pad stands between two copies of the letter: drop one copy next to each pad
        unp == Expected([cs EXCEPT !.padAt = {}])
    IN Len(NoPad(Expected(cs))) >= Len(unp)
ModelOK14 == Ref(cs).ok /\ PadOnlyAddsPad
=============================================================================
