------------------------------ MODULE Trace_C07 ------------------------------
(***************************************************************************)
(* Code -> spec: validates the outputs the engine produced for the C07     *)
(* cases.  One line of trace.ndjson per render: [ok, out, aux = [in, pre,  *)
(* post, isd]].  A line is accepted iff the render succeeded and            *)
(*    out = pre \o mid \o post  with  ValidEscape(in, mid)                  *)
(* (every special character replaced by one of its accepted references,    *)
(* every other byte unchanged, hence decoding gives back the input), or     *)
(* the whole value was replaced by default('d').  Rejected line numbers are *)
(* accumulated and printed by the POSTCONDITION.                            *)
(***************************************************************************)
EXTENDS TwigText, Json

Trace == ndJsonDeserialize("trace.ndjson")
VARIABLES l, rej

\* (mayfail: a construct the engine may refuse; if it accepts it, the output is judged like any other)
Accept(o) ==
  ("mayfail" \in DOMAIN o.aux /\ o.aux.mayfail /\ ~o.ok) \/
  (
    /\ o.ok
    /\ Len(o.out) >= Len(o.aux.pre) + Len(o.aux.post)
    /\ IsPrefixOf(o.aux.pre, o.out) /\ IsSuffixOf(o.aux.post, o.out)
    /\ LET mid == SubSeq(o.out, Len(o.aux.pre) + 1, Len(o.out) - Len(o.aux.post)) IN
       IF o.aux.isd THEN mid = <<100>>
       ELSE IF "twice" \in DOMAIN o.aux /\ o.aux.twice THEN ValidEscape2(o.aux.in, mid)      \* the filter applied to its own output
       ELSE ValidEscape(o.aux.in, mid)
  )

Init == l = 1 /\ rej = {} /\ TLCSet(1, {}) /\ TLCSet(2, 0)
Next == /\ l <= Len(Trace)
        /\ l' = l + 1
        /\ rej' = IF Accept(Trace[l]) THEN rej ELSE rej \cup {l}
        /\ TLCSet(1, rej') /\ TLCSet(2, l)
Spec == Init /\ [][Next]_<<l, rej>>
Post == PrintT(<<"CONSUMED", TLCGet(2)>>) /\ PrintT(<<"REJECTED", TLCGet(1)>>)
=============================================================================
