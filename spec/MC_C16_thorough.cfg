SPECIFICATION Spec
CONSTANTS
  Big = TRUE
INVARIANTS
  Emit
CHECK_DEADLOCK FALSE
