SPECIFICATION Spec
CONSTANTS
  SweepLens <- SweepThorough
  Big = TRUE
INVARIANTS
  Emit
CHECK_DEADLOCK FALSE
