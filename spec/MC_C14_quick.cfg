SPECIFICATION Spec14
CONSTANTS
  Only = "all"
  AllSubsetsUpTo = 4
  Big = FALSE
  Quick = TRUE
INVARIANTS
  ModelOK14
  Emit14
CHECK_DEADLOCK FALSE
