------------------------------- MODULE MC_C19 -------------------------------
(***************************************************************************)
(* C19: built-in filters satisfy their defining equations for every input. *)
(* The reference definitions of the filters live in TwigSem (ApplyBuiltin, *)
(* SliceBounds, SortVals, ...).  TLC (a) checks the property's equations   *)
(* on the reference itself over the whole bounded input space (Laws), and  *)
(* (b) emits, for every input and filter chain, the value the reference    *)
(* gives; the real engine's value leaves the template through the harness' *)
(* vdump filter (a serialisation of the Go value) and is compared.         *)
(***************************************************************************)
EXTENDS TwigSyntax, Json

CONSTANTS MaxStr, MaxList, SliceRange
VARIABLE cs

F(f, e) == Filt(f, e, <<>>)
FA(f, e, args) == Filt(f, e, args)
Obs(e) == <<PrintS(F("vdump", e))>>
X == Var("x")

StrAlphabet == {97, 66, 32, 233, 10}             \* a B SP é LF
Strs(n) == UNION {[1..k -> StrAlphabet] : k \in 0..n}
IntLists(n) == UNION {[1..k -> {VI(10), VI(9), VI(2), VI(-3)}] : k \in 0..n}
StrLists(n) == UNION {[1..k -> {VS(<<98>>), VS(<<97>>), VS(<<97, 98>>), VS(<<99>>)}] : k \in 0..n}    \* b a ab c: any sensible string order agrees

\* ---- families ------------------------------------------------------------------------------
\* string filters: F and F o F (idempotence), reverse o reverse, length, first, last
StrCases ==
    {[fam |-> "str", x |-> VS(s), e |-> e] : s \in Strs(MaxStr),
        e \in {F("reverse", F("reverse", X)), F("length", X), F("length", F("reverse", X)),
               F("first", X), F("last", X)}}
\* strings that are not valid UTF-8 (negative code: that byte): reverse is still an involution that keeps the length
RawStrs == {t \in UNION {[1..k -> {97, -255, -128, 233}] : k \in 1..3} : \E i \in 1..Len(t) : t[i] < 0}
RawStrCases == {[fam |-> "str", x |-> VS(s), e |-> e] : s \in RawStrs, e \in {F("reverse", F("reverse", X)), F("length", X), F("length", F("reverse", X))}}
\* upper / lower / trim / capitalize: the property states idempotence only, so the check
\* is the relation F(F(x)) = F(x) between two real renders (no reference value)
\* (letters whose other case is encoded in fewer or more bytes: Kelvin sign -> k, U+023A <-> U+2C65, long s -> S, dotless i -> I)
OddCaseAlphabet == {8490, 570, 11365, 383, 305, 97, 66, 32}
OddStrs == UNION {[1..k -> OddCaseAlphabet] : k \in 1..3}
IdemCases == {[fam |-> "idem", x |-> VS(s), e |-> F(f, X)] : s \in Strs(MaxStr), f \in {"upper", "lower", "trim", "capitalize"}}
             \cup {[fam |-> "idem", x |-> VS(s), e |-> F(f, X)] : s \in OddStrs, f \in {"upper", "lower", "trim", "capitalize"}}
\* reverse of a string: involution and length-preservation only (stated above); the value
\* itself is compared for ASCII strings, where byte- and character-wise reversal agree
RevCases == {[fam |-> "str", x |-> VS(s), e |-> F("reverse", X)] : s \in {t \in Strs(MaxStr) : \A i \in 1..Len(t) : t[i] < 128}}
\* list filters on untyped and typed lists
ListVals(n) == {VL(l) : l \in IntLists(n)} \cup {VLg(l, "ints") : l \in IntLists(n)}
               \cup {VL(l) : l \in StrLists(n)} \cup {VLg(l, "strs") : l \in StrLists(n)}
ListCases ==
    {[fam |-> "list", x |-> v, e |-> e] : v \in ListVals(MaxList),
        e \in {F("reverse", X), F("reverse", F("reverse", X)), F("length", X), F("length", F("reverse", X)),
               F("sort", X), F("sort", F("sort", X)), F("length", F("sort", X)), F("first", X), F("last", X),
               F("first", F("sort", X)), F("last", F("reverse", X)),
               FA("join", X, <<LS(<<44>>)>>), FA("split", FA("join", X, <<LS(<<44>>)>>), <<LS(<<44>>)>>),
               FA("split", FA("join", X, <<LS(<<45, 45>>)>>), <<LS(<<45, 45>>)>>),       \* multi-character separator
               FA("merge", X, <<Arr(<<LI(7)>>)>>), FA("merge", X, <<X>>), F("length", FA("merge", X, <<X>>))}}
K(s) == VS(s)
Maps == {VM(<<>>, <<>>), VM(<<K(<<97>>)>>, <<VI(1)>>), VM(<<K(<<97>>), K(<<98>>)>>, <<VI(1), VI(2)>>),
         VMg(<<K(<<97>>), K(<<98>>)>>, <<VI(6), VI(5)>>, "msi"), VMg(<<K(<<97>>)>>, <<VS(<<120>>)>>, "mss")}
\* length == number of loop iterations == elements seen
CountLoopE(e) == <<Set("n", LI(0)), For1("i", e, <<Set("n", Bin("+", Var("n"), LI(1)))>>), PrintS(Var("n")), Text(<<47>>), PrintS(F("length", e))>>
\* the loop sequence is itself a filter chain (the for tag evaluates such chains on its own path)
LoopSeqs == {X, F("reverse", X), F("sort", X), FA("slice", X, <<LI(1)>>), FA("merge", X, <<Arr(<<LI(7)>>)>>),
             FA("default", X, <<Arr(<<LI(7), LI(8)>>)>>), F("reverse", FA("default", X, <<Arr(<<LI(7), LI(8)>>)>>)),
             FA("default", F("reverse", X), <<Arr(<<LI(7), LI(8)>>)>>)}
LoopCases == {[fam |-> "loopcount", x |-> v, e |-> X] : v \in ListVals(MaxList) \cup {VS(s) : s \in Strs(MaxStr)} \cup Maps}
             \cup {[fam |-> "loopcount", x |-> v, e |-> e] : v \in {VL(l) : l \in IntLists(MaxList)} \cup {VLg(l, "ints") : l \in IntLists(2)} \cup {Null}, e \in LoopSeqs}
             \cup {[fam |-> "loopcount", x |-> Null, e |-> FA("default", Var("undefinedvar"), <<Arr(<<LI(7), LI(8)>>)>>)],
                   [fam |-> "loopcount", x |-> Null, e |-> F("reverse", FA("default", Var("undefinedvar"), <<Arr(<<LI(7), LI(8)>>)>>))],
                   [fam |-> "loopcount", x |-> VM(<<K(<<97>>), K(<<98>>)>>, <<VI(1), VI(2)>>), e |-> F("keys", X)]}
\* join then split with the same separator restores a list of separator-free strings (empty strings, other white space)
JSElems == {VS(<<>>), VS(<<97>>), VS(<<120, 9, 121>>), VS(<<233>>), VS(<<10>>)}
JSLists == UNION {[1..k -> JSElems] : k \in 1..MaxList}
JoinSplitCases == {[fam |-> "joinsplit", x |-> VL(l), e |-> FA("split", FA("join", X, <<LS(sep)>>), <<LS(sep)>>)] :
                     l \in JSLists, sep \in {<<32>>, <<44>>, <<124>>}}
                  \* (a separator that is not a string: whatever join makes of it, split with the same one undoes it)
                  \cup {[fam |-> "joinsplit", x |-> VL(l), e |-> FA("split", FA("join", X, <<sep>>), <<sep>>)] : l \in JSLists, sep \in {LI(0), LI(7), LB(TRUE)}}
\* slice on strings and lists: every start / length incl. omitted
SliceArgs == {<<LI(a)>> : a \in (-SliceRange)..SliceRange} \cup {<<LI(a), LI(b)>> : a \in (-SliceRange)..SliceRange, b \in (-SliceRange)..SliceRange}
SliceSubjects == {VS(<<104, 233, 108, 108, 111>>), VS(<<97>>), VS(<<>>), VL(<<VI(1), VI(2), VI(3), VI(4)>>), VL(<<>>),
                  VLg(<<VS(<<97>>), VS(<<98>>), VS(<<99>>)>>, "strs"), VLg(<<VI(1), VI(2), VI(3)>>, "ints")}
SliceCases == {[fam |-> "slice", x |-> v, e |-> FA("slice", X, a)] : v \in SliceSubjects, a \in SliceArgs}
                \cup {[fam |-> "slice", x |-> v, e |-> F("length", FA("slice", X, a))] : v \in SliceSubjects, a \in {<<LI(1)>>, <<LI(-2)>>, <<LI(1), LI(2)>>}}
\* default replaces exactly the empty and undefined values
DefaultSubjects == {Null, VS(<<>>), VS(<<97>>), VS(<<32>>), VI(5), VI(-1), VB(TRUE), VL(<<>>), VL(<<VI(0)>>), VM(<<>>, <<>>),
                    VM(<<VS(<<107>>)>>, <<VI(1)>>),
                    \* lists that are not empty although every element is zero / empty (typed arrays and slices)
                    VLg(<<VI(0), VI(0), VI(0)>>, "arr3"), VLg(<<VI(0), VI(0)>>, "ints"), VLg(<<VS(<<>>), VS(<<>>)>>, "strs"), VL(<<VI(0), VI(0)>>)}
DefaultCases == {[fam |-> "default", x |-> v, e |-> FA("default", X, <<LS(<<100>>)>>)] : v \in DefaultSubjects}

                \cup {[fam |-> "default", x |-> Null, e |-> FA("default", Var("undefinedvar"), <<LI(3)>>)]}
\* merge on maps (later maps win), keys, first / last / loop count (model maps carry their keys in the order they are walked: sorted)
MapCases == {[fam |-> "map", x |-> m, e |-> e] : m \in Maps,
               e \in {F("length", X), F("length", F("keys", X)), F("sort", F("keys", X)), F("first", X), F("last", X),
                      FA("merge", X, <<Hash(<<LS(<<97>>)>>, <<LI(9)>>)>>), FA("merge", X, <<Hash(<<LS(<<122>>)>>, <<LI(9)>>)>>),
                      F("length", FA("merge", X, <<X>>)), FA("merge", Hash(<<LS(<<97>>)>>, <<LI(9)>>), <<X>>),
                      \* a later map wins also where its value is null: the key stays (keys, length), bound to null
                      F("keys", FA("merge", X, <<Hash(<<LS(<<97>>)>>, <<Lit(Null)>>)>>)), F("length", FA("merge", X, <<Hash(<<LS(<<97>>)>>, <<Lit(Null)>>)>>)),
                      F("length", FA("merge", X, <<Hash(<<LS(<<122>>)>>, <<Lit(Null)>>)>>)),
                      F("keys", FA("merge", Hash(<<LS(<<97>>), LS(<<98>>)>>, <<LI(1), LI(2)>>), <<Hash(<<LS(<<97>>)>>, <<Lit(Null)>>), X>>))}}
\* abs on ints
NumCases == {[fam |-> "num", x |-> VI(n), e |-> e] : n \in {-12, -1, 0, 1, 7}, e \in {F("abs", X), F("abs", F("abs", X))}}

\* exact decimals: multiples of 1/8 (exactly representable in binary), printed directly
Eighths == {VD(k * 125, 3) : k \in -20..20}
RoundArgs == {<<>>, <<LI(0)>>, <<LI(1)>>, <<LI(2)>>, <<LI(1), LS(<<102, 108, 111, 111, 114>>)>>, <<LI(1), LS(<<99, 101, 105, 108>>)>>,
              <<LI(0), LS(<<102, 108, 111, 111, 114>>)>>, <<LI(0), LS(<<99, 101, 105, 108>>)>>, <<LI(2), LS(<<99, 111, 109, 109, 111, 110>>)>>}
DecCases == {[fam |-> "dec", x |-> d, e |-> FA("round", X, a)] : d \in Eighths, a \in RoundArgs}
            \cup {[fam |-> "dec", x |-> d, e |-> F("abs", X)] : d \in Eighths}
            \cup {[fam |-> "dec", x |-> d, e |-> FA("round", F("abs", X), <<LI(1)>>)] : d \in Eighths}
            \cup {[fam |-> "dec", x |-> VI(n), e |-> FA("round", X, <<LI(p)>>)] : n \in {-25, -15, -4, 0, 5, 14, 15, 25, 149, 150}, p \in {-1, -2, 0, 1}}
\* number_format: exact decimals (multiples of 1/8 and of 1/4 around the group boundaries 1000, 10^6), integers,
\* every number of decimals 0..3, default and explicit separators (multi-character, empty)
NumFmtSubjects == Eighths \cup {VD(k * 25, 2) : k \in {3996, 3997, 3998, 3999, 4000, 4001, -3999, -3998, 39999, 40001, 399999}}
                  \cup {VD(9996, 1), VD(9994, 1), VD(-9996, 1), VD(99996, 2), VD(99994, 2), VD(9999996, 1), VD(123456789, 2), VD(-123456789, 3)}
                  \cup {VI(n) : n \in {0, 7, -7, 999, 1000, -1000, 12345, 999999, 1000000, -1234567}}
NumFmtArgs == {<<>>, <<LI(0)>>, <<LI(1)>>, <<LI(2)>>, <<LI(3)>>, <<LI(2), LS(<<44>>)>>, <<LI(1), LS(<<44>>), LS(<<46>>)>>,
               <<LI(2), LS(<<46>>), LS(<<>>)>>, <<LI(0), LS(<<46>>), LS(<<32>>)>>, <<LI(2), LS(<<100, 112>>), LS(<<116, 115>>)>>}
NumFmtCases == {[fam |-> "numfmt", x |-> d, e |-> FA("number_format", X, a)] : d \in NumFmtSubjects, a \in NumFmtArgs}
\* numbers of every Go kind: sort orders them by value; whether zero is "empty" for default is not stated, but it cannot
\* depend on the Go type that carries the zero (all kinds must agree with each other)
NumKinds == {"i8", "i64", "u16", "u64", "f32", "def"}
KindLists == {VL(<<VN(VI(3), k), VN(VI(20), k), VN(VI(1), k)>>) : k \in NumKinds}
             \cup {VLg(<<VI(3), VI(20), VI(1)>>, g) : g \in {"i64s", "f32s", "f64s", "ints"}} \cup {VL(<<VI(3), VI(20), VI(1)>>), VL(<<VI(3), VN(VI(20), "u16"), VN(VI(1), "i8")>>)}
Zeros == {VI(0), VD(0, 0), VN(VD(0, 0), "def")} \cup {VN(VI(0), k) : k \in NumKinds}
\* fractions that share their integer part, in lists of float element types
FracList == <<VD(25, 1), VD(225, 2), VD(-5, 1), VD(75, 2), VD(-25, 2)>>
FracLists == {VLg(FracList, g) : g \in {"f32s", "f64s"}} \cup {VL(FracList), VL([i \in 1..Len(FracList) |-> VN(FracList[i], "f32")])}
KindCases == {[fam |-> "kinds", what |-> w] : w \in {"sort", "sortfrac", "sortbig", "bigint", "nonstrsep", "zero", "zerocomputed"}}
KindCaseOf(c) ==
    IF c.what = "sort" THEN
        [prop |-> "C19", key |-> ToJson(c), tags |-> {"fam:kinds", "f:sort"}, entry |-> "main", ctx |-> EmptyFn,
         runs |-> {[label |-> ToJson(v), tp |-> ("main" :> Source(<<PrintS(FA("join", F("sort", X), <<LS(<<44>>)>>)), Text(<<124>>), PrintS(F("first", F("sort", X))),
                                                                     Text(<<124>>), PrintS(F("last", F("sort", X)))>>, LMin)),
                    xcalls |-> [id \in {} |-> 0], ctx |-> ("x" :> v)] : v \in KindLists},
         expect |-> [ok |-> TRUE, out |-> <<49, 44, 51, 44, 50, 48, 124, 49, 124, 50, 48>>, err |-> "", calls |-> [id \in {} |-> 0]]]
    ELSE IF c.what = "bigint" THEN
        \* integers beyond 2^53 (what a float64 holds exactly) and a number of places beyond every float: the expectations
        \* are written down digit by digit (TLC's integers end at 2^31)
        [prop |-> "C19", key |-> ToJson(c), tags |-> {"fam:kinds", "f:abs", "f:round", "f:number_format", "bigint"}, entry |-> "main", ctx |-> EmptyFn,
         runs |-> {[label |-> "abs/p53", tp |-> ("main" :> Source(<<PrintS(F("abs", X))>>, LMin)), xcalls |-> [id \in {} |-> 0], ctx |-> ("x" :> VBig(<<57, 48, 48, 55, 49, 57, 57, 50, 53, 52, 55, 52, 48, 57, 57, 51>>)), out |-> <<57, 48, 48, 55, 49, 57, 57, 50, 53, 52, 55, 52, 48, 57, 57, 51>>],
                   [label |-> "round/p53", tp |-> ("main" :> Source(<<PrintS(F("round", X))>>, LMin)), xcalls |-> [id \in {} |-> 0], ctx |-> ("x" :> VBig(<<57, 48, 48, 55, 49, 57, 57, 50, 53, 52, 55, 52, 48, 57, 57, 51>>)), out |-> <<57, 48, 48, 55, 49, 57, 57, 50, 53, 52, 55, 52, 48, 57, 57, 51>>],
                   [label |-> "nf/p53", tp |-> ("main" :> Source(<<PrintS(F("number_format", X))>>, LMin)), xcalls |-> [id \in {} |-> 0], ctx |-> ("x" :> VBig(<<57, 48, 48, 55, 49, 57, 57, 50, 53, 52, 55, 52, 48, 57, 57, 51>>)), out |-> <<57, 44, 48, 48, 55, 44, 49, 57, 57, 44, 50, 53, 52, 44, 55, 52, 48, 44, 57, 57, 51>>],
                   [label |-> "nfsp/p53", tp |-> ("main" :> Source(<<PrintS(FA("number_format", X, <<LI(0), LS(<<46>>), LS(<<32>>)>>))>>, LMin)), xcalls |-> [id \in {} |-> 0], ctx |-> ("x" :> VBig(<<57, 48, 48, 55, 49, 57, 57, 50, 53, 52, 55, 52, 48, 57, 57, 51>>)), out |-> <<57, 32, 48, 48, 55, 32, 49, 57, 57, 32, 50, 53, 52, 32, 55, 52, 48, 32, 57, 57, 51>>],
                   [label |-> "absneg/p53", tp |-> ("main" :> Source(<<PrintS(F("abs", X))>>, LMin)), xcalls |-> [id \in {} |-> 0], ctx |-> ("x" :> VBig(<<45, 57, 48, 48, 55, 49, 57, 57, 50, 53, 52, 55, 52, 48, 57, 57, 51>>)), out |-> <<57, 48, 48, 55, 49, 57, 57, 50, 53, 52, 55, 52, 48, 57, 57, 51>>],
                   [label |-> "nfneg/p53", tp |-> ("main" :> Source(<<PrintS(F("number_format", X))>>, LMin)), xcalls |-> [id \in {} |-> 0], ctx |-> ("x" :> VBig(<<45, 57, 48, 48, 55, 49, 57, 57, 50, 53, 52, 55, 52, 48, 57, 57, 51>>)), out |-> <<45, 57, 44, 48, 48, 55, 44, 49, 57, 57, 44, 50, 53, 52, 44, 55, 52, 48, 44, 57, 57, 51>>],
                   [label |-> "abs/max", tp |-> ("main" :> Source(<<PrintS(F("abs", X))>>, LMin)), xcalls |-> [id \in {} |-> 0], ctx |-> ("x" :> VBig(<<57, 50, 50, 51, 51, 55, 50, 48, 51, 54, 56, 53, 52, 55, 55, 53, 56, 48, 55>>)), out |-> <<57, 50, 50, 51, 51, 55, 50, 48, 51, 54, 56, 53, 52, 55, 55, 53, 56, 48, 55>>],
                   [label |-> "round/max", tp |-> ("main" :> Source(<<PrintS(F("round", X))>>, LMin)), xcalls |-> [id \in {} |-> 0], ctx |-> ("x" :> VBig(<<57, 50, 50, 51, 51, 55, 50, 48, 51, 54, 56, 53, 52, 55, 55, 53, 56, 48, 55>>)), out |-> <<57, 50, 50, 51, 51, 55, 50, 48, 51, 54, 56, 53, 52, 55, 55, 53, 56, 48, 55>>],
                   [label |-> "nf/max", tp |-> ("main" :> Source(<<PrintS(F("number_format", X))>>, LMin)), xcalls |-> [id \in {} |-> 0], ctx |-> ("x" :> VBig(<<57, 50, 50, 51, 51, 55, 50, 48, 51, 54, 56, 53, 52, 55, 55, 53, 56, 48, 55>>)), out |-> <<57, 44, 50, 50, 51, 44, 51, 55, 50, 44, 48, 51, 54, 44, 56, 53, 52, 44, 55, 55, 53, 44, 56, 48, 55>>],
                   [label |-> "nfsp/max", tp |-> ("main" :> Source(<<PrintS(FA("number_format", X, <<LI(0), LS(<<46>>), LS(<<32>>)>>))>>, LMin)), xcalls |-> [id \in {} |-> 0], ctx |-> ("x" :> VBig(<<57, 50, 50, 51, 51, 55, 50, 48, 51, 54, 56, 53, 52, 55, 55, 53, 56, 48, 55>>)), out |-> <<57, 32, 50, 50, 51, 32, 51, 55, 50, 32, 48, 51, 54, 32, 56, 53, 52, 32, 55, 55, 53, 32, 56, 48, 55>>],
                   [label |-> "absneg/max", tp |-> ("main" :> Source(<<PrintS(F("abs", X))>>, LMin)), xcalls |-> [id \in {} |-> 0], ctx |-> ("x" :> VBig(<<45, 57, 50, 50, 51, 51, 55, 50, 48, 51, 54, 56, 53, 52, 55, 55, 53, 56, 48, 55>>)), out |-> <<57, 50, 50, 51, 51, 55, 50, 48, 51, 54, 56, 53, 52, 55, 55, 53, 56, 48, 55>>],
                   [label |-> "nfneg/max", tp |-> ("main" :> Source(<<PrintS(F("number_format", X))>>, LMin)), xcalls |-> [id \in {} |-> 0], ctx |-> ("x" :> VBig(<<45, 57, 50, 50, 51, 51, 55, 50, 48, 51, 54, 56, 53, 52, 55, 55, 53, 56, 48, 55>>)), out |-> <<45, 57, 44, 50, 50, 51, 44, 51, 55, 50, 44, 48, 51, 54, 44, 56, 53, 52, 44, 55, 55, 53, 44, 56, 48, 55>>],
                   [label |-> "abs/p53b", tp |-> ("main" :> Source(<<PrintS(F("abs", X))>>, LMin)), xcalls |-> [id \in {} |-> 0], ctx |-> ("x" :> VBig(<<57, 48, 48, 55, 49, 57, 57, 50, 53, 52, 55, 52, 48, 57, 57, 53>>)), out |-> <<57, 48, 48, 55, 49, 57, 57, 50, 53, 52, 55, 52, 48, 57, 57, 53>>],
                   [label |-> "round/p53b", tp |-> ("main" :> Source(<<PrintS(F("round", X))>>, LMin)), xcalls |-> [id \in {} |-> 0], ctx |-> ("x" :> VBig(<<57, 48, 48, 55, 49, 57, 57, 50, 53, 52, 55, 52, 48, 57, 57, 53>>)), out |-> <<57, 48, 48, 55, 49, 57, 57, 50, 53, 52, 55, 52, 48, 57, 57, 53>>],
                   [label |-> "nf/p53b", tp |-> ("main" :> Source(<<PrintS(F("number_format", X))>>, LMin)), xcalls |-> [id \in {} |-> 0], ctx |-> ("x" :> VBig(<<57, 48, 48, 55, 49, 57, 57, 50, 53, 52, 55, 52, 48, 57, 57, 53>>)), out |-> <<57, 44, 48, 48, 55, 44, 49, 57, 57, 44, 50, 53, 52, 44, 55, 52, 48, 44, 57, 57, 53>>],
                   [label |-> "nfsp/p53b", tp |-> ("main" :> Source(<<PrintS(FA("number_format", X, <<LI(0), LS(<<46>>), LS(<<32>>)>>))>>, LMin)), xcalls |-> [id \in {} |-> 0], ctx |-> ("x" :> VBig(<<57, 48, 48, 55, 49, 57, 57, 50, 53, 52, 55, 52, 48, 57, 57, 53>>)), out |-> <<57, 32, 48, 48, 55, 32, 49, 57, 57, 32, 50, 53, 52, 32, 55, 52, 48, 32, 57, 57, 53>>],
                   [label |-> "absneg/p53b", tp |-> ("main" :> Source(<<PrintS(F("abs", X))>>, LMin)), xcalls |-> [id \in {} |-> 0], ctx |-> ("x" :> VBig(<<45, 57, 48, 48, 55, 49, 57, 57, 50, 53, 52, 55, 52, 48, 57, 57, 53>>)), out |-> <<57, 48, 48, 55, 49, 57, 57, 50, 53, 52, 55, 52, 48, 57, 57, 53>>],
                   [label |-> "nfneg/p53b", tp |-> ("main" :> Source(<<PrintS(F("number_format", X))>>, LMin)), xcalls |-> [id \in {} |-> 0], ctx |-> ("x" :> VBig(<<45, 57, 48, 48, 55, 49, 57, 57, 50, 53, 52, 55, 52, 48, 57, 57, 53>>)), out |-> <<45, 57, 44, 48, 48, 55, 44, 49, 57, 57, 44, 50, 53, 52, 44, 55, 52, 48, 44, 57, 57, 53>>],
                   [label |-> "abs/min", tp |-> ("main" :> Source(<<PrintS(F("abs", X))>>, LMin)), xcalls |-> [id \in {} |-> 0], ctx |-> ("x" :> VBig(<<45, 57, 50, 50, 51, 51, 55, 50, 48, 51, 54, 56, 53, 52, 55, 55, 53, 56, 48, 56>>)), out |-> <<57, 50, 50, 51, 51, 55, 50, 48, 51, 54, 56, 53, 52, 55, 55, 53, 56, 48, 56>>],
                   [label |-> "round400", tp |-> ("main" :> Source(<<PrintS(FA("round", X, <<LI(400)>>))>>, LMin)), xcalls |-> [id \in {} |-> 0], ctx |-> ("x" :> VD(12345678, 4)), out |-> <<49, 50, 51, 52, 46, 53, 54, 55, 56>>],
                   [label |-> "round40", tp |-> ("main" :> Source(<<PrintS(FA("round", X, <<LI(40)>>))>>, LMin)), xcalls |-> [id \in {} |-> 0], ctx |-> ("x" :> VD(-5, 1)), out |-> <<45, 48, 46, 53>>]},
         expect |-> [ok |-> TRUE, out |-> <<>>, err |-> "", calls |-> [id \in {} |-> 0]]]
    ELSE IF c.what = "sortbig" THEN
        \* unsigned elements that a float64 cannot tell apart; a defined type over an untyped list
        [prop |-> "C19", key |-> ToJson(c), tags |-> {"fam:kinds", "f:sort", "bigint"}, entry |-> "main", ctx |-> EmptyFn,
         runs |-> {[label |-> "u64s", tp |-> ("main" :> Source(<<PrintS(FA("join", F("sort", X), <<LS(<<44>>)>>)), Text(<<124>>), PrintS(F("first", F("sort", X))), Text(<<124>>), PrintS(F("last", F("sort", X)))>>, LMin)),
                     xcalls |-> [id \in {} |-> 0], ctx |-> ("x" :> VLg(<<VBig(<<49, 56, 52, 52, 54, 55, 52, 52, 48, 55, 51, 55, 48, 57, 53, 53, 49, 54, 49, 53>>), VBig(<<57, 48, 48, 55, 49, 57, 57, 50, 53, 52, 55, 52, 48, 57, 57, 51>>), VBig(<<57, 48, 48, 55, 49, 57, 57, 50, 53, 52, 55, 52, 48, 57, 57, 50>>), VI(5)>>, "u64s")),
                     out |-> <<53, 44, 57, 48, 48, 55, 49, 57, 57, 50, 53, 52, 55, 52, 48, 57, 57, 50, 44, 57, 48, 48, 55, 49, 57, 57, 50, 53, 52, 55, 52, 48, 57, 57, 51, 44, 49, 56, 52, 52, 54, 55, 52, 52, 48, 55, 51, 55, 48, 57, 53, 53, 49, 54, 49, 53, 124, 53, 124, 49, 56, 52, 52, 54, 55, 52, 52, 48, 55, 51, 55, 48, 57, 53, 53, 49, 54, 49, 53>>],
                    [label |-> "rows", tp |-> ("main" :> Source(<<PrintS(FA("join", F("sort", X), <<LS(<<44>>)>>)), Text(<<124>>), PrintS(F("first", F("sort", X))), Text(<<124>>), PrintS(F("last", F("sort", X)))>>, LMin)),
                     xcalls |-> [id \in {} |-> 0], ctx |-> ("x" :> VLg(<<VI(10), VI(9), VI(100)>>, "rows")), out |-> <<57, 44, 49, 48, 44, 49, 48, 48, 124, 57, 124, 49, 48, 48>>]},
         expect |-> [ok |-> TRUE, out |-> <<>>, err |-> "", calls |-> [id \in {} |-> 0]]]
    ELSE IF c.what = "nonstrsep" THEN
        \* join and split with the SAME separator that is not a string (a number, a boolean, null): whatever the two make of it, the
        \* list of separator-free strings comes back (the expectation is the list itself)
        [prop |-> "C19", key |-> ToJson(c), tags |-> {"fam:kinds", "f:join", "f:split", "sep:nonstring"}, entry |-> "main", ctx |-> EmptyFn,
         runs |-> {[label |-> ToJson(sep), tp |-> ("main" :> Source(<<PrintS(FA("join", FA("split", FA("join", X, <<sep>>), <<sep>>), <<LS(<<124>>)>>)), Text(<<47>>),
                                                                     PrintS(F("length", FA("split", FA("join", X, <<sep>>), <<sep>>)))>>, LMin)),
                    xcalls |-> [id \in {} |-> 0], ctx |-> ("x" :> VL(<<VS(<<97>>), VS(<<98>>), VS(<<99>>)>>))] : sep \in {LI(0), LI(7), LB(TRUE), Lit(Null), Var("nosuchvar")}},
         expect |-> [ok |-> TRUE, out |-> <<97, 124, 98, 124, 99, 47, 51>>, err |-> "", calls |-> [id \in {} |-> 0]]]
    ELSE IF c.what = "sortfrac" THEN
        [prop |-> "C19", key |-> ToJson(c), tags |-> {"fam:kinds", "f:sort"}, entry |-> "main", ctx |-> EmptyFn,
         runs |-> {[label |-> ToJson(v), tp |-> ("main" :> Source(<<PrintS(FA("join", F("sort", X), <<LS(<<44>>)>>)), Text(<<124>>), PrintS(F("first", F("sort", X))),
                                                                     Text(<<124>>), PrintS(F("last", F("sort", X)))>>, LMin)),
                    xcalls |-> [id \in {} |-> 0], ctx |-> ("x" :> v)] : v \in FracLists},
         \* -0.5,-0.25,0.75,2.25,2.5|-0.5|2.5
         expect |-> [ok |-> TRUE, out |-> <<45, 48, 46, 53, 44, 45, 48, 46, 50, 53, 44, 48, 46, 55, 53, 44, 50, 46, 50, 53, 44, 50, 46, 53, 124, 45, 48, 46, 53, 124, 50, 46, 53>>, err |-> "", calls |-> [id \in {} |-> 0]]]
    ELSE
        [prop |-> "C19", key |-> ToJson(c), tags |-> {"fam:kinds", "f:default"}, entry |-> "main", ctx |-> EmptyFn, rel |-> "same",
         runs |-> IF c.what = "zero"
                  THEN {[label |-> ToJson(v), tp |-> ("main" :> Source(<<PrintS(FA("default", X, <<LS(<<100>>)>>)), Text(<<124>>), IfElse(FA("default", X, <<LB(FALSE)>>), <<Text(<<84>>)>>, <<Text(<<70>>)>>),
                                                                        Text(<<124>>), IfElse(Test(X, "empty", <<>>, FALSE), <<Text(<<69>>)>>, <<Text(<<78>>)>>)>>, LMin)),
                          xcalls |-> [id \in {} |-> 0], ctx |-> ("x" :> v)] : v \in Zeros}
                  ELSE {[label |-> "literal", tp |-> ("main" :> Source(<<PrintS(FA("default", LI(0), <<LS(<<100>>)>>))>>, LMin)), xcalls |-> [id \in {} |-> 0], ctx |-> ("x" :> VI(4))],
                         [label |-> "x-x", tp |-> ("main" :> Source(<<PrintS(FA("default", Bin("-", X, X), <<LS(<<100>>)>>))>>, LMin)), xcalls |-> [id \in {} |-> 0], ctx |-> ("x" :> VI(4))],
                         [label |-> "x*0", tp |-> ("main" :> Source(<<PrintS(FA("default", Bin("*", X, LI(0)), <<LS(<<100>>)>>))>>, LMin)), xcalls |-> [id \in {} |-> 0], ctx |-> ("x" :> VI(4))],
                         [label |-> "0.0", tp |-> ("main" :> Source(<<PrintS(FA("default", X, <<LS(<<100>>)>>))>>, LMin)), xcalls |-> [id \in {} |-> 0], ctx |-> ("x" :> VD(0, 0))]},
         expect |-> [ok |-> TRUE, out |-> <<>>, noout |-> TRUE, err |-> "", calls |-> [id \in {} |-> 0]]]
\* several list arguments at once
MultiMerge == {[fam |-> "list", x |-> VL(l), e |-> FA("merge", X, <<Arr(<<LI(7), LI(8)>>), Arr(<<LI(6)>>)>>)] : l \in IntLists(MaxList)}
              \cup {[fam |-> "list", x |-> VL(l), e |-> FA("merge", X, <<X, Arr(<<>>), Arr(<<LI(6)>>)>>)] : l \in IntLists(MaxList)}
\* merge (filter and function) makes a new list: the lists it was given -- a slice of a longer list, a list that is merged
\* onto twice -- keep their elements
JJ(e) == PrintS(FA("join", e, <<LS(<<44>>)>>))
Bar == Text(<<124>>)
ABC == Arr(<<LS(<<97>>), LS(<<98>>), LS(<<99>>)>>)
Progs == [ slicebase  |-> <<Set("items", ABC), Set("m", Call("merge", <<FA("slice", Var("items"), <<LI(0), LI(1)>>), Arr(<<LS(<<120>>)>>)>>)), JJ(Var("items")), Bar, JJ(Var("m"))>>,
           slicefilt  |-> <<Set("items", ABC), Set("m", FA("merge", FA("slice", Var("items"), <<LI(0), LI(1)>>), <<Arr(<<LS(<<120>>)>>)>>)), JJ(Var("items")), Bar, JJ(Var("m"))>>,
           twomerge   |-> <<Set("a", Call("merge", <<X, Arr(<<LI(8)>>)>>)), Set("b", Call("merge", <<X, Arr(<<LI(9)>>)>>)), JJ(Var("a")), Bar, JJ(Var("b")), Bar, JJ(X)>>,
           twomergef  |-> <<Set("a", FA("merge", X, <<Arr(<<LI(8)>>)>>)), Set("b", FA("merge", X, <<Arr(<<LI(9)>>)>>)), JJ(Var("a")), Bar, JJ(Var("b")), Bar, JJ(X)>>,
           mergeslice |-> <<Set("m", Call("merge", <<FA("slice", X, <<LI(0), LI(2)>>), FA("slice", X, <<LI(1)>>), X>>)), JJ(Var("m")), Bar, JJ(X)>>,
           \* filters whose arguments change from one evaluation of the same tag to the next
           loopargs   |-> <<For1("i", Arr(<<LI(0), LI(1), LI(2), LI(3)>>), <<PrintS(FA("slice", LS(<<97, 98, 99, 100, 101, 102>>), <<Var("i"), LI(2)>>)), Text(<<44>>)>>), Bar,
                            For1("i", Arr(<<LI(1), LI(2), LI(3)>>), <<JJ(FA("slice", ABC, <<Var("i"), LI(1)>>)), Text(<<59>>), PrintS(FA("default", Var("nosuchvar"), <<Var("i")>>))>>), Bar,
                            For1("s", Arr(<<LS(<<44>>), LS(<<124>>)>>), <<PrintS(FA("join", FA("merge", X, <<Arr(<<LI(7)>>)>>), <<Var("s")>>)), Text(<<59>>)>>)>>,
           threefn    |-> <<JJ(Call("merge", <<X, X, Arr(<<LI(6)>>)>>)), Bar, JJ(Call("merge", <<Arr(<<>>), X>>)), Bar, JJ(X)>> ]
ProgCases == {[fam |-> "prog", x |-> v, e |-> X, p |-> p] : p \in DOMAIN Progs,
                v \in {VL(<<VI(1), VI(2), VI(3)>>), VLg(<<VI(1), VI(2), VI(3)>>, "anycap"), VLg(<<VI(1), VI(2), VI(3)>>, "ints"), VL(<<>>)}}
AllCases == ProgCases \cup JoinSplitCases \cup NumFmtCases \cup DecCases \cup MultiMerge \cup StrCases \cup RawStrCases \cup RevCases \cup IdemCases \cup ListCases \cup LoopCases \cup SliceCases \cup DefaultCases \cup MapCases \cup NumCases

RECURSIVE UsesX(_)
UsesX(e) == e = X \/ (e.k = "filt" /\ (UsesX(e.e) \/ \E i \in 1..Len(e.args) : UsesX(e.args[i])))
Prog(c) == IF c.fam = "prog" THEN Progs[c.p] ELSE IF c.fam = "loopcount" THEN CountLoopE(c.e) ELSE IF c.fam \in {"dec", "numfmt"} THEN <<PrintS(c.e)>> ELSE Obs(c.e)
Ctx(c) == IF (c.fam = "default" /\ c.e.e.k = "var" /\ c.e.e.n = "undefinedvar") \/ (c.fam = "loopcount" /\ c.x = Null /\ c.e # X /\ ~UsesX(c.e)) THEN EmptyFn ELSE ("x" :> c.x)
Ref(c) == Render(MkW(("main" :> Prog(c)), {}, {}, NoFault), "main", Ctx(c))

RECURSIVE ExprTags(_)
ExprTags(e) == IF e.k = "filt"
               THEN {"f:" \o e.f} \cup ExprTags(e.e)
                    \cup (IF e.f = "split" /\ Len(e.args) = 1 /\ e.args[1].k = "lit" /\ Len(e.args[1].v.s) > 1 THEN {"sep:multi"} ELSE {})
               ELSE {}
CaseOfIdem(c) ==
    [prop |-> "C19", key |-> ToJson(c), tags |-> {"fam:idem", "f:" \o c.e.f}, entry |-> "main", ctx |-> Ctx(c), rel |-> "same",
     runs |-> <<[label |-> "once", tp |-> ("main" :> Source(Obs(c.e), LMin)), xcalls |-> [id \in {} |-> 0]],
                [label |-> "twice", tp |-> ("main" :> Source(Obs(F(c.e.f, c.e)), LMin)), xcalls |-> [id \in {} |-> 0]]>>,
     expect |-> [ok |-> TRUE, out |-> <<>>, noout |-> TRUE, err |-> "", calls |-> [id \in {} |-> 0]]]
CaseOf(c) ==
    LET ref == Ref(c) IN
    [prop |-> "C19", key |-> ToJson(c),
     tags |-> {"fam:" \o c.fam, "xt:" \o c.x.t} \cup ExprTags(c.e) \cup (IF c.fam = "prog" THEN {"p:" \o c.p} ELSE {})
              \cup (IF c.x.t \in {"list", "map"} THEN {"g:" \o c.x.g} ELSE {}),
     entry |-> "main", ctx |-> Ctx(c),
     runs |-> {[label |-> c.fam, tp |-> ("main" :> Source(Prog(c), LMin)), xcalls |-> [id \in {} |-> 0]]},
     expect |-> [ok |-> ref.ok, out |-> ref.out, err |-> ref.err, calls |-> [id \in {} |-> 0]]]

Fams == {"prog", "str", "idem", "list", "loopcount", "slice", "default", "map", "num", "dec", "numfmt", "joinsplit", "kinds"}
Init == cs \in {[part |-> f] : f \in Fams}
Next == "part" \in DOMAIN cs /\ cs' \in IF cs.part = "kinds" THEN KindCases ELSE {c \in AllCases : c.fam = cs.part /\ Ref(c).err # "frag"}
Spec == Init /\ [][Next]_cs
IsCase == "fam" \in DOMAIN cs
Emit == IsCase => PrintT(ToJson(IF cs.fam = "idem" THEN CaseOfIdem(cs) ELSE IF cs.fam = "kinds" THEN KindCaseOf(cs) ELSE CaseOf(cs)))

\* ---- the property's equations, checked on the reference -------------------------------------
Ap(f, v) == ApplyBuiltin(f, v, <<>>, <<>>).v
IsSortedPerm(xs, ys) ==
    /\ Len(xs) = Len(ys)
    /\ \A i \in 1..(Len(ys) - 1) : ~ValLess(ys[i + 1], ys[i])
    /\ \A v \in {xs[i] : i \in 1..Len(xs)} : Cardinality({i \in 1..Len(xs) : xs[i] = v}) = Cardinality({i \in 1..Len(ys) : ys[i] = v})
Laws ==
    /\ \A s \in Strs(MaxStr) : \A f \in {"upper", "lower", "trim", "capitalize"} : Ap(f, Ap(f, VS(s))) = Ap(f, VS(s))
    /\ \A s \in Strs(MaxStr) : Ap("reverse", Ap("reverse", VS(s))) = VS(s) /\ Len(Ap("reverse", VS(s)).s) = Len(s)
    /\ \A l \in IntLists(MaxList) \cup StrLists(MaxList) :
          /\ Ap("reverse", Ap("reverse", VL(l))).xs = l
          /\ IsSortedPerm(l, Ap("sort", VL(l)).xs)
          /\ Ap("length", VL(l)).i = Len(l)
    /\ \A n \in 0..5 : \A st \in -6..6 : \A ln \in -6..6 :
          LET b == SliceBounds(n, st, TRUE, ln)  b0 == SliceBounds(n, st, FALSE, 0) IN
          /\ 0 <= b.from /\ b.from <= b.to /\ b.to <= n
          /\ b0.to = n /\ b0.from = (IF st >= 0 THEN (IF st > n THEN n ELSE st) ELSE (IF n + st < 0 THEN 0 ELSE n + st))
          /\ (ln >= 0 => b.to - b.from <= ln)
ASSUME Laws
=============================================================================
