SPECIFICATION Spec
CONSTANTS
  NG = 2
  Workload = "dirs"
  EarlyTokPut = FALSE
  UnguardedPaths = FALSE
  SharedCurrent = TRUE
  BlindInsert = FALSE
INVARIANTS
  NoConflictingAccess
  TokensIntact
  RelativeNameOwn
  SerialEquivalent
  RegistrationLasts
  SingleOwner
CHECK_DEADLOCK FALSE
VIEW View
