SPECIFICATION Spec
CONSTANTS
  NG = 2
  Workload = "dirs"
  EarlyTokPut = FALSE
  UnguardedPaths = FALSE
  SharedCurrent = TRUE
INVARIANTS
  NoConflictingAccess
  TokensIntact
  RelativeNameOwn
  SerialEquivalent
  SingleOwner
CHECK_DEADLOCK FALSE
VIEW View
