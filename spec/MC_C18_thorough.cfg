SPECIFICATION Spec
CONSTANTS
  MaxChain = 3
INVARIANTS
  Emit
CHECK_DEADLOCK FALSE
