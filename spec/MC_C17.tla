------------------------------- MODULE MC_C17 -------------------------------
(***************************************************************************)
(* C17: failures during rendering always surface as errors that wrap      *)
(* their cause.  A fixed corpus of template structures carries a spy        *)
(* callback (function / filter / test) at every syntactic position; TLC    *)
(* first runs each structure fault-free to learn how often every spy is    *)
(* invoked, then enumerates every single-fault placement "spy j fails at   *)
(* its m-th invocation" (plus loader faults and unresolved names) and      *)
(* computes with Exec whether that invocation is reached.  Surfaces:       *)
(*     fault reached  =>  ~ok /\ out = "" /\ cause = sentinel              *)
(***************************************************************************)
EXTENDS TwigSyntax, Json

VARIABLE cs

T(s) == Text(s)
SP(id, e) == Spy("sp", id, e)
SF(id, e) == SpyF("sf", id, e)
ST(id, e) == Test(e, "st", <<Lit([t |-> "id", id |-> id])>>, FALSE)
L12 == Lit(VL(<<VI(1), VI(2)>>))
Lib == <<Macro("mm", <<Param("a"), ParamD("b", SP("d1", LI(2)))>>, <<T(<<60>>), PrintS(SP("m1", Var("a"))), PrintS(Var("b")), T(<<62>>)>>)>>

\* ---- the corpus: name -> template set ------------------------------------------------
Corpus ==
  [ print   |-> ("main" :> <<T(<<97>>), PrintS(SP("s1", LI(1))), T(<<98>>)>>),
    chain   |-> ("main" :> <<PrintS(SF("s3", SF("s2", SP("s1", LI(1)))))>>),
    binop   |-> ("main" :> <<PrintS(Bin("+", SP("s1", LI(1)), Bin("*", SP("s2", LI(2)), SP("s3", LI(3)))))>>),
    forseq  |-> ("main" :> <<For("i", "", SP("s1", L12), <<PrintS(SP("s2", Var("i"))), T(<<44>>)>>, <<PrintS(SP("s3", LI(0)))>>, TRUE)>>),
    forelse |-> ("main" :> <<For("i", "", SP("s1", Lit(VL(<<>>))), <<PrintS(SP("s2", Var("i")))>>, <<PrintS(SP("s3", LI(0)))>>, TRUE)>>),
    ifchain |-> ("main" :> <<If(<<SP("s1", LB(FALSE)), SP("s2", LB(TRUE)), SP("s3", LB(TRUE))>>,
                                 <<<<PrintS(SP("s4", LI(1)))>>, <<PrintS(SP("s5", LI(2)))>>, <<PrintS(SP("s6", LI(3)))>>>>,
                                 <<PrintS(SP("s7", LI(4)))>>, TRUE)>>),
    shortc  |-> ("main" :> <<IfElse(Bin("and", SP("s1", LB(FALSE)), SP("s2", LB(TRUE))), <<T(<<84>>)>>, <<T(<<70>>)>>),
                             IfElse(Bin("or", SP("s3", LB(FALSE)), SP("s4", LB(TRUE))), <<T(<<84>>)>>, <<T(<<70>>)>>)>>),
    ternary |-> ("main" :> <<PrintS(Cond(SP("s1", LB(TRUE)), SP("s2", LI(1)), SP("s3", LI(2))))>>),
    setv    |-> ("main" :> <<Set("z", SP("s1", LI(1))), PrintS(SF("s2", Var("z")))>>),
    arrhash |-> ("main" :> <<Set("h", Hash(<<LS(NT.k)>>, <<SP("s1", LI(1))>>)), PrintS(Item(Arr(<<SP("s2", LI(5)), SP("s3", LI(6))>>), LI(1))),
                             PrintS(Attr(Var("h"), "k"))>>),
    testarg |-> ("main" :> <<IfElse(ST("s2", SP("s1", LI(2))), <<T(<<84>>)>>, <<T(<<70>>)>>)>>),
    filtarg |-> ("main" :> <<PrintS(Filt("default", SP("s1", Lit(Null)), <<SP("s2", LI(7))>>))>>),
    applyb  |-> ("main" :> <<Apply("sfa", <<>>, <<T(<<120>>), PrintS(SP("s1", LI(1)))>>)>>),
    include |-> ("main" :> <<T(<<91>>), Include(SP("s1", LS(NT.t1)), Hash(<<LS(NT.z)>>, <<SP("s2", LI(1))>>), TRUE, FALSE, FALSE, FALSE), T(<<93>>)>>)
                @@ ("t1" :> <<PrintS(SP("s3", Var("z"))), For1("i", L12, <<PrintS(SF("s4", Var("i")))>>)>>),
    incloop |-> ("main" :> <<For1("i", L12, <<Include(LS(NT.t1), Lit(Null), FALSE, FALSE, TRUE, FALSE)>>)>>)
                @@ ("t1" :> <<PrintS(SP("s1", Var("i")))>>),
    extends |-> ("main" :> <<Extends(SP("s1", LS(NT.t1))), Block("bb", <<PrintS(SP("s2", LI(1))), PrintS(Call("parent", <<>>))>>)>>)
                @@ ("t1" :> <<PrintS(SP("s3", LI(0))), Block("bb", <<PrintS(SP("s4", LI(2)))>>), Block("cc", <<PrintS(SP("s5", LI(3)))>>)>>),
    macro   |-> ("main" :> Lib \o <<PrintS(Call("mm", <<SP("s1", LI(1))>>)), PrintS(MCall("_self", "mm", <<LI(5), SP("s2", LI(6))>>))>>),
    import  |-> ("main" :> <<Import(LS(NT.t1), "L"), PrintS(MCall("L", "mm", <<SP("s1", LI(1))>>))>>) @@ ("t1" :> Lib),
    fromimp |-> ("main" :> <<From(LS(NT.t1), <<"mm">>, <<"qq">>), For1("i", L12, <<PrintS(Call("qq", <<SP("s1", Var("i"))>>))>>)>>) @@ ("t1" :> Lib),
    nestloop |-> ("main" :> <<For1("i", SP("s1", L12), <<For1("j", SP("s2", L12), <<PrintS(SP("s3", Bin("*", Var("i"), Var("j")))), T(<<44>>)>>), T(<<59>>)>>)>>),
    blockloop |-> ("main" :> <<Extends(LS(NT.t1)), Block("bb", <<For1("i", L12, <<PrintS(SP("s1", Var("i"))), PrintS(Call("parent", <<>>))>>)>>)>>)
                  @@ ("t1" :> <<T(<<60>>), Block("bb", <<PrintS(SF("s2", LI(0)))>>), T(<<62>>)>>),
    chain3  |-> ("main" :> <<Extends(LS(NT.t1)), Block("bb", <<PrintS(SP("s1", LI(1))), PrintS(Call("parent", <<>>))>>)>>)
                @@ ("t1" :> <<Extends(LS(NT.t2)), Block("bb", <<PrintS(SP("s2", LI(2))), PrintS(Call("parent", <<>>))>>)>>)
                @@ ("t2" :> <<T(<<60>>), Block("bb", <<PrintS(SP("s3", LI(3)))>>), T(<<62>>)>>),
    macmac  |-> ("main" :> <<Macro("inner", <<Param("a")>>, <<PrintS(SP("s1", Var("a")))>>),
                             Macro("outer", <<Param("a")>>, <<T(<<40>>), PrintS(Call("inner", <<SP("s2", Var("a"))>>)), T(<<41>>)>>),
                             For1("i", L12, <<PrintS(Call("outer", <<Var("i")>>))>>)>>),
    incmac  |-> ("main" :> <<Macro("mw", <<>>, <<Inc(LS(NT.t1))>>), PrintS(Call("mw", <<>>)), PrintS(SP("s2", LI(2)))>>)
                @@ ("t1" :> <<PrintS(SP("s1", LI(1)))>>),
    applyloop |-> ("main" :> <<For1("i", L12, <<Apply("upper", <<>>, <<T(<<120>>), PrintS(SF("s1", Var("i")))>>)>>), Apply("sfa", <<>>, <<T(<<121>>)>>)>>),
    setif   |-> ("main" :> <<For1("i", L12, <<If1(Bin("==", Var("i"), LI(2)), <<Set("z", SP("s1", Var("i")))>>)>>), PrintS(SF("s2", Var("z")))>>),
    condargs |-> ("main" :> <<PrintS(Cond(SP("s1", LB(FALSE)), SP("s2", LI(1)), Filt("default", SP("s3", Lit(Null)), <<SP("s4", LI(9))>>)))>>),
    attritem |-> ("main" :> <<Set("h", Hash(<<LS(NT.k)>>, <<Arr(<<SP("s1", LI(5))>>)>>)), PrintS(SP("s2", Item(Attr(Var("h"), "k"), SP("s3", LI(0)))))>>),
    incwithloop |-> ("main" :> <<For1("i", L12, <<Include(LS(NT.t1), Hash(<<LS(NT.z)>>, <<SP("s1", Var("i"))>>), TRUE, TRUE, FALSE, FALSE)>>)>>)
                    @@ ("t1" :> <<PrintS(SF("s2", Var("z")))>>),
    \* the for tag evaluates a filter chain in its sequence on a path of its own: a failure in the middle of the chain
    forchain |-> ("main" :> <<For("i", "", Filt("sort", SF("s2", Filt("reverse", SF("s1", L12), <<>>)), <<>>), <<PrintS(Var("i"))>>, <<T(<<101>>)>>, TRUE),
                              For1("j", Filt("reverse", Filt("merge", SF("s3", L12), <<Arr(<<LI(7)>>)>>), <<>>), <<PrintS(Var("j"))>>)>>),
    \* application callbacks registered under names the engine treats specially (range, length)
    rangefn |-> ("main" :> <<For("i", "", Spy("range", "s1", L12), <<PrintS(Var("i"))>>, <<T(<<101>>)>>, TRUE),
                             IfElse(Spy("length", "s2", L12), <<T(<<121>>)>>, <<T(<<110>>)>>), Set("z", Spy("length", "s3", LI(4))), PrintS(Var("z")),
                             Inc(LS(NT.t1))>>)
                @@ ("t1" :> <<Block("bb", <<For1("k", Spy("range", "s4", L12), <<PrintS(Spy("length", "s5", Var("k")))>>)>>)>>),
    \* "is defined" on an attribute of a map (no callback inside: attributes are only read off names)
    isdef   |-> ("main" :> <<Set("h", Hash(<<LS(NT.k)>>, <<SP("s1", LI(1))>>)),
                             IfElse(Test(Attr(Var("h"), "k"), "defined", <<>>, FALSE), <<T(<<121>>)>>, <<T(<<110>>)>>),
                             IfElse(Test(Attr(Var("h"), "x"), "defined", <<>>, TRUE), <<T(<<121>>)>>, <<T(<<110>>)>>),
                             PrintS(Cond(Test(Attr(Var("nosuchvar"), "k"), "defined", <<>>, FALSE), LI(1), SP("s2", LI(2))))>>),
    \* "is defined" / "is not defined" on what a callback or a filter chain gives: the callback runs, its failure is the render's
    isdefcall |-> ("main" :> <<IfElse(Test(SP("s1", LI(1)), "defined", <<>>, FALSE), <<T(<<121>>)>>, <<T(<<110>>)>>),
                               PrintS(Cond(Test(SF("s2", LI(2)), "defined", <<>>, TRUE), LI(1), LI(2))),
                               Set("z", Cond(Test(Filt("upper", SF("s3", LS(<<97>>)), <<>>), "defined", <<>>, FALSE), LI(7), LI(8))), PrintS(Var("z")),
                               For1("i", L12, <<If1(Test(SP("s4", Var("i")), "defined", <<>>, TRUE), <<T(<<45>>)>>)>>)>>),
    \* the do tag evaluates its expression for what it does: a macro call, parent(), a filter chain all run
    dotag |-> ("main" :> Lib \o <<T(<<97>>), Do(Call("mm", <<SP("s1", LI(1))>>)), Do(MCall("_self", "mm", <<LI(2), SP("s2", LI(3))>>)), Do(SF("s3", LI(4))), T(<<98>>)>>),
    dotagimp |-> ("main" :> <<Import(LS(NT.t1), "L"), For1("i", L12, <<Do(MCall("L", "mm", <<SP("s1", Var("i"))>>))>>), T(<<98>>)>>) @@ ("t1" :> Lib),
    dotagparent |-> ("main" :> <<Extends(LS(NT.t1)), Block("bb", <<Do(Call("parent", <<>>)), PrintS(SP("s1", LI(1)))>>)>>)
                    @@ ("t1" :> <<T(<<60>>), Block("bb", <<PrintS(SP("s2", LI(2)))>>), T(<<62>>)>>),
    \* a loop without a body still evaluates its sequence; a value that is assigned and never used was still computed
    emptyloop |-> ("main" :> <<T(<<97>>), For1("i", SP("s1", L12), <<>>), For("j", "", SF("s2", L12), <<>>, <<>>, FALSE), T(<<98>>)>>),
    setunused |-> ("main" :> Lib \o <<T(<<97>>), Set("z", Call("mm", <<SP("s1", LI(1))>>)), Set("y", MCall("_self", "mm", <<LI(2), SP("s2", LI(3))>>)), T(<<98>>)>>),
    \* an include of a template that renders nothing still evaluates what it is given
    incempty |-> ("main" :> <<T(<<91>>), Include(LS(NT.t1), Hash(<<LS(NT.z)>>, <<SP("s1", LI(1))>>), TRUE, FALSE, FALSE, FALSE),
                              Include(LS(NT.t2), Hash(<<LS(NT.z)>>, <<SF("s2", LI(2))>>), TRUE, TRUE, FALSE, FALSE), T(<<93>>)>>)
                @@ ("t1" :> <<>>) @@ ("t2" :> <<Comment(<<32, 99, 32>>)>>),
    \* the spaceless tag around callbacks; a filter registered under the name spaceless is not what the tag uses
    spaceless |-> ("main" :> <<Spaceless(<<T(<<60, 97, 62, 32>>), PrintS(SP("s1", LI(1))), T(<<32, 60, 98, 62>>), PrintS(SF("s2", LS(<<60, 99, 62, 32, 60, 100, 62>>)))>>), PrintS(SP("s3", LI(2)))>>),
    deep    |-> ("main" :> <<Block("ob", <<For1("i", L12, <<If1(SP("s1", LB(TRUE)), <<Inc(LS(NT.t1))>>)>>)>>)>>)
                @@ ("t1" :> <<Import(LS(NT.t2), "L"), PrintS(MCall("L", "mm", <<SF("s2", Var("i"))>>))>>) @@ ("t2" :> Lib)
  ]

\* unresolved names: the render must fail (cause: template not found where a template is missing)
sX == <<120>>
Unresolved ==
  [ nofilter  |-> [tp |-> ("main" :> <<T(<<97>>), PrintS(Filt("nofilter", LI(1), <<>>))>>), err |-> "unknown"],
    nofilter2 |-> [tp |-> ("main" :> <<PrintS(Filt("upper", Filt("nofilter", LS(sX), <<>>), <<>>))>>), err |-> "unknown"],
    nofilterloop |-> [tp |-> ("main" :> <<For1("i", Filt("nofilter", L12, <<>>), <<PrintS(Var("i"))>>)>>), err |-> "unknown"],
    nofilterapply |-> [tp |-> ("main" :> <<Apply("nofilter", <<>>, <<T(sX)>>)>>), err |-> "unknown"],
    \* an apply whose body renders nothing still names its filter (empty text, a false if, an undefined variable)
    nofilterapplyempty |-> [tp |-> ("main" :> <<T(<<97>>), Apply("nofilter", <<>>, <<>>), T(<<98>>)>>), err |-> "unknown"],
    nofilterapplyempty2 |-> [tp |-> ("main" :> <<T(<<97>>), Apply("nofilter", <<>>, <<If1(LB(FALSE), <<T(sX)>>), PrintS(Var("nosuchvar"))>>), T(<<98>>)>>), err |-> "unknown"],
    \* a second from-import that binds a name again, from a template that does not exist / whose body fails
    nofromagain |-> [tp |-> ("main" :> <<From(LS(NT.t1), <<"mm">>, <<"mm">>), T(<<97>>), From(LS(NT.nx), <<"mm">>, <<"mm">>), T(sX)>>) @@ ("t1" :> Lib), err |-> "notfound"],
    nofromagainalias |-> [tp |-> ("main" :> <<From(LS(NT.t1), <<"mm">>, <<"qq">>), Inc(LS(NT.t2))>>) @@ ("t1" :> Lib)
                                 @@ ("t2" :> <<From(LS(NT.nx), <<"zz">>, <<"qq">>), T(sX)>>), err |-> "notfound"],
    nofilterloop2 |-> [tp |-> ("main" :> <<For("i", "", Filt("sort", Filt("nofilter", L12, <<>>), <<>>), <<PrintS(Var("i"))>>, <<T(sX)>>, TRUE)>>), err |-> "unknown"],
    nofilterloop3 |-> [tp |-> ("main" :> <<For1("i", Filt("reverse", Filt("merge", Filt("nofilter", L12, <<>>), <<Arr(<<LI(7)>>)>>), <<>>), <<PrintS(Var("i"))>>), T(sX)>>), err |-> "unknown"],
    \* a method of a Go value that returns an error, read as an attribute (directly, and below an "is defined")
    errmethod |-> [tp |-> ("main" :> <<T(<<97>>), PrintS(Attr(Var("eo"), "Name")), T(<<98>>)>>), err |-> "fault"],
    errmethoddef |-> [tp |-> ("main" :> <<IfElse(Test(Attr(Attr(Var("eo"), "Name"), "k"), "defined", <<>>, FALSE), <<T(<<121>>)>>, <<T(<<110>>)>>)>>), err |-> "fault"],
    errmethodloop |-> [tp |-> ("main" :> <<For1("i", L12, <<Set("z", Attr(Var("eo"), "Name")), T(sX)>>)>>), err |-> "fault"],
    nofn      |-> [tp |-> ("main" :> <<T(<<97>>), PrintS(Call("nofn", <<LI(1)>>))>>), err |-> "unknown"],
    nofnif    |-> [tp |-> ("main" :> <<If1(Call("nofn", <<>>), <<T(sX)>>)>>), err |-> "unknown"],
    nofnset   |-> [tp |-> ("main" :> <<Set("z", Call("nofn", <<>>)), T(sX)>>), err |-> "unknown"],
    notest    |-> [tp |-> ("main" :> <<If1(Test(LI(1), "notest", <<>>, FALSE), <<T(sX)>>)>>), err |-> "unknown"],
    nomacro   |-> [tp |-> ("main" :> <<Import(LS(NT.t1), "L"), PrintS(MCall("L", "nomac", <<>>))>>) @@ ("t1" :> Lib), err |-> "unknown"],
    \* ... also when a built-in function has that name: alias.name() asks for a macro of the library, not for the function
    nomacrofn |-> [tp |-> ("main" :> <<T(<<97>>), Import(LS(NT.t1), "L"), PrintS(MCall("L", "max", <<LI(1), LI(2)>>))>>) @@ ("t1" :> Lib), err |-> "unknown"],
    nomacrofnlen |-> [tp |-> ("main" :> <<Import(LS(NT.t1), "L"), For1("i", L12, <<PrintS(MCall("L", "length", <<LS(sX)>>))>>)>>) @@ ("t1" :> Lib), err |-> "unknown"],
    nomacrofnself |-> [tp |-> ("main" :> Lib \o <<T(<<97>>), PrintS(MCall("_self", "max", <<LI(3), LI(4)>>))>>), err |-> "unknown"],
    nomodulefn |-> [tp |-> ("main" :> <<T(<<97>>), Set("z", MCall("nothing", "max", <<LI(1), LI(2)>>)), T(sX)>>), err |-> "unknown"],
    \* ... nor is a macro of the importing template what alias.name() asks for
    nomacrolocal |-> [tp |-> ("main" :> <<Import(LS(NT.t1), "L"), Macro("bb", <<>>, <<T(<<76>>)>>), T(<<97>>), PrintS(MCall("_self", "bb", <<>>)), PrintS(MCall("L", "bb", <<>>))>>) @@ ("t1" :> Lib), err |-> "unknown"],
    nomacroself |-> [tp |-> ("main" :> Lib \o <<PrintS(MCall("_self", "nomac", <<>>))>>), err |-> "unknown"],
    nofrom    |-> [tp |-> ("main" :> <<From(LS(NT.t1), <<"nomac">>, <<"nomac">>), PrintS(Call("nomac", <<>>))>>) @@ ("t1" :> Lib), err |-> "unknown"],
    noinclude |-> [tp |-> ("main" :> <<T(<<97>>), Inc(LS(NT.nx))>>), err |-> "notfound"],
    noincludeloop |-> [tp |-> ("main" :> <<For1("i", L12, <<Inc(LS(NT.nx))>>)>>), err |-> "notfound"],
    noextends |-> [tp |-> ("main" :> <<Extends(LS(NT.nx)), Block("bb", <<T(sX)>>)>>), err |-> "notfound"],
    noimport  |-> [tp |-> ("main" :> <<Import(LS(NT.nx), "L"), T(sX)>>), err |-> "notfound"],
    nofromtpl |-> [tp |-> ("main" :> <<From(LS(NT.nx), <<"mm">>, <<"mm">>), T(sX)>>), err |-> "notfound"],
    nested    |-> [tp |-> ("main" :> <<T(<<97>>), Inc(LS(NT.t1))>>) @@ ("t1" :> <<Block("bb", <<PrintS(Filt("nofilter", LI(1), <<>>))>>)>>), err |-> "unknown"],
    nestedinc |-> [tp |-> ("main" :> <<Inc(LS(NT.t1))>>) @@ ("t1" :> <<T(<<98>>), Inc(LS(NT.nx))>>), err |-> "notfound"],
    ignnested |-> [tp |-> ("main" :> <<T(<<97>>), Include(LS(NT.t1), Lit(Null), FALSE, FALSE, TRUE, FALSE), T(<<98>>)>>)
                          @@ ("t1" :> <<T(<<99>>), Inc(LS(NT.nx)), T(<<100>>)>>), err |-> "notfound"],
    ignnestedimp |-> [tp |-> ("main" :> <<T(<<97>>), Include(LS(NT.t1), Lit(Null), FALSE, FALSE, TRUE, FALSE), T(<<98>>)>>)
                          @@ ("t1" :> <<T(<<99>>), Import(LS(NT.nx), "L"), T(<<100>>)>>), err |-> "notfound"],
    ignnestedext |-> [tp |-> ("main" :> <<T(<<97>>), Include(LS(NT.t1), Lit(Null), FALSE, FALSE, TRUE, FALSE), T(<<98>>)>>)
                          @@ ("t1" :> <<Extends(LS(NT.nx)), Block("bb", <<T(<<100>>)>>)>>), err |-> "notfound"],
    ignnestedfilter |-> [tp |-> ("main" :> <<T(<<97>>), Include(LS(NT.t1), Lit(Null), FALSE, FALSE, TRUE, FALSE), T(<<98>>)>>)
                          @@ ("t1" :> <<T(<<99>>), PrintS(Filt("nofilter", LI(1), <<>>))>>), err |-> "unknown"],
    defaultmask |-> [tp |-> ("main" :> <<T(<<97>>), PrintS(Filt("default", Call("nofn", <<>>), <<LS(<<100>>)>>))>>), err |-> "unknown"],
    nofndef   |-> [tp |-> ("main" :> <<IfElse(Test(Call("nofn", <<>>), "defined", <<>>, FALSE), <<T(<<121>>)>>, <<T(<<110>>)>>)>>), err |-> "unknown"],
    nofndefnot |-> [tp |-> ("main" :> <<T(<<97>>), PrintS(Cond(Test(Call("nofn", <<LI(1)>>), "defined", <<>>, TRUE), LI(1), LI(2)))>>), err |-> "unknown"],
    nofilterdef |-> [tp |-> ("main" :> <<Set("z", Test(Filt("nofilter", LS(sX), <<>>), "defined", <<>>, FALSE)), T(sX)>>), err |-> "unknown"],
    nofilterdefloop |-> [tp |-> ("main" :> <<For1("i", L12, <<If1(Test(Filt("upper", Filt("nofilter", Var("i"), <<>>), <<>>), "defined", <<>>, TRUE), <<T(sX)>>)>>)>>), err |-> "unknown"],
    incemptynofn |-> [tp |-> ("main" :> <<T(<<97>>), Include(LS(NT.t1), Hash(<<LS(NT.z)>>, <<Call("nofn", <<>>)>>), TRUE, FALSE, FALSE, FALSE)>>) @@ ("t1" :> <<>>), err |-> "unknown"],
    inmacro   |-> [tp |-> ("main" :> <<Macro("mw", <<>>, <<PrintS(Call("nofn", <<>>))>>), PrintS(Call("mw", <<>>))>>), err |-> "unknown"]
  ]

AllIds == {"s1", "s2", "s3", "s4", "s5", "s6", "s7", "m1", "d1", "a1"}
Ctx == ("eo" :> [t |-> "errobj"])

Base(name) == Render(MkW(Corpus[name], {}, {}, NoFault), "main", Ctx)
\* every single-fault placement reachable in the fault-free run, plus one placement
\* beyond the last invocation of every spy (never reached: the render must succeed)
Placements(name) ==
    LET calls == Base(name).calls IN
    UNION {{[id |-> i, nth |-> n] : n \in 1..(CountOf(calls, i) + 1)} : i \in AllIds}

\* templates reached through a loader in each structure (loader fault candidates)
Loaded(name) == (DOMAIN Corpus[name]) \ {"main"}

\* how the templates are served: by one loader; with an empty loader registered before / after it; through a ChainLoader
\* (empty, real, empty).  A template that no loader has is "not found"; a loader that has it and fails is a failure.
LoaderLayouts == {"only", "front", "back", "chain"}
Cases ==
    UNION {{[kind |-> "fault", s |-> name, id |-> p.id, nth |-> p.nth, fl |-> "", ly |-> "only"] : p \in Placements(name)} : name \in DOMAIN Corpus}
    \cup {[kind |-> "base", s |-> name, id |-> "", nth |-> 0, fl |-> "", ly |-> ly] : name \in DOMAIN Corpus, ly \in LoaderLayouts}
    \* ("fsdir": the loader is a file-system loader and the failing template is a directory of that name)
    \cup UNION {{[kind |-> "loader", s |-> name, id |-> "", nth |-> 0, fl |-> t, ly |-> ly] : t \in Loaded(name), ly \in LoaderLayouts \cup {"fsdir"}} : name \in DOMAIN Corpus}
    \cup {[kind |-> "base", s |-> name, id |-> "", nth |-> 0, fl |-> "", ly |-> "fsdir"] : name \in DOMAIN Corpus}
    \cup {[kind |-> "unresolved", s |-> name, id |-> "", nth |-> 0, fl |-> "", ly |-> ly] : name \in DOMAIN Unresolved, ly \in LoaderLayouts}
    \* a loader that served a template begins to fail for it (the engine reloads what has changed: auto-reload, time stamps):
    \* the render after that fails with the loader's error wherever the template is needed, and succeeds where it is not
    \cup UNION {{[kind |-> "latefault", s |-> name, id |-> "", nth |-> 0, fl |-> "", ly |-> ly, late |-> t] : t \in DOMAIN Corpus[name], ly \in {"only", "front", "back"}}
                : name \in DOMAIN Corpus}
\* a template in a directory refers to its neighbour by a relative name; the neighbour exists and its loader fails (a template
\* of the same name at the root must not be taken instead, nor the failure be reported as "not found")
DotB == <<46, 47, 98>>        \* ./b
RelRoutes == [ from    |-> <<From(LS(DotB), <<"mm">>, <<"mm">>), PrintS(Call("mm", <<LI(1)>>))>>,
               import  |-> <<Import(LS(DotB), "L"), PrintS(MCall("L", "mm", <<LI(1)>>))>>,
               include |-> <<T(<<91>>), Inc(LS(DotB)), T(<<93>>)>>,
               extends |-> <<Extends(LS(DotB)), Block("bb", <<T(sX)>>)>> ]
RelTp(r) == ("pm" :> RelRoutes[r]) @@ ("pb" :> Lib \o <<T(<<112>>), Block("bb", <<T(<<100>>)>>)>>)
            @@ ("b" :> <<Macro("mm", <<Param("a")>>, <<T(<<82, 79, 79, 84>>)>>), T(<<114>>), Block("bb", <<T(<<101>>)>>)>>)
RelCases == {[kind |-> "relfault", s |-> r, id |-> "", nth |-> 0, fl |-> fl, ly |-> ly] : r \in DOMAIN RelRoutes, fl \in {"", "pb"}, ly \in LoaderLayouts \cup {"fsdir"}}
TpOf(c) == IF c.kind = "unresolved" THEN Unresolved[c.s].tp ELSE IF c.kind = "relfault" THEN RelTp(c.s) ELSE Corpus[c.s]
EntryOf(c) == IF c.kind = "relfault" THEN "pm" ELSE "main"
World(c) == MkWF(TpOf(c), {}, {}, [id |-> c.id, nth |-> c.nth], c.fl)
Ref(c) == Render(World(c), EntryOf(c), Ctx)

\* ---- the property on the model --------------------------------------------------------
Surfaces(c) ==
    LET r == Ref(c) IN
    /\ (c.kind = "fault" /\ CountOf(Base(c.s).calls, c.id) >= c.nth => ~r.ok /\ r.err = "fault" /\ r.out = <<>>)
    /\ (c.kind = "fault" /\ CountOf(Base(c.s).calls, c.id) < c.nth => r.ok /\ r.out = Base(c.s).out)
    /\ (c.kind = "loader" => ~r.ok /\ r.err = "fault")
    /\ (c.kind = "unresolved" => ~r.ok /\ r.err = Unresolved[c.s].err)
    /\ (c.kind = "base" => r.ok)
    /\ (c.kind = "relfault" => IF c.fl = "" THEN r.ok ELSE ~r.ok /\ r.err = "fault")
    /\ (c.kind = "latefault" => r.ok /\ LET r2 == Render(MkWF(TpOf(c), {}, {}, NoFault, c.late), "main", Ctx) IN (r2.ok \/ r2.err = "fault"))

Variants == {[debug |-> d, writer |-> w] : d \in BOOLEAN, w \in {"", "buffer", "plain"}}
CaseOf(c) ==
    LET ref == Ref(c) IN
    [prop |-> "C17", key |-> ToJson(c),
     tags |-> {"kind:" \o c.kind, "s:" \o c.s} \cup (IF c.kind = "fault" THEN {"spy:" \o c.id} ELSE {}) \cup {"loaders:" \o c.ly},
     entry |-> EntryOf(c), ctx |-> Ctx,
     cfg |-> [faultid |-> c.id, faultnth |-> c.nth, faultload |-> c.fl, loader |-> TRUE, frontloader |-> c.ly = "front",
              backloader |-> c.ly = "back", chainloader |-> c.ly = "chain", fsloader |-> c.ly = "fsdir", spynames |-> <<"range", "length">>,
              spyfilternames |-> <<"spaceless">>],
     runs |-> {[label |-> (IF v.debug THEN "debug" ELSE "nodebug") \o "/" \o (IF v.writer = "" THEN "render" ELSE v.writer),
                tp |-> Sources(TpOf(c), LMin), xcalls |-> [id \in {} |-> 0], debug |-> v.debug, writer |-> v.writer]
                @@ (IF c.kind = "latefault"
                    THEN LET r2 == Render(MkWF(TpOf(c), {}, {}, NoFault, c.late), "main", Ctx) IN [late |-> [name |-> c.late, ok |-> r2.ok, out |-> r2.out, err |-> r2.err]]
                    ELSE EmptyFn) : v \in Variants},
     expect |-> [ok |-> ref.ok, out |-> ref.out, err |-> ref.err,
                 calls |-> [id \in AllIds |-> CountOf(ref.calls, id)]]]

\* a library whose TOP LEVEL fails (it imports a template that does not exist, calls a failing callback, uses an unknown filter).
\* Whether importing a library runs its top level is not stated; whatever the first render reports, the second render on the same
\* engine reports too (the harness renders every case again: -again 1) -- a failure is not something that happens once
LibFail == [ imp |-> <<Import(LS(NT.nx), "H")>>, errm |-> <<Set("c", Attr(Var("eo"), "Name"))>>, nofn |-> <<Do(Call("nofn", <<>>))>>, nofilter |-> <<PrintS(Filt("nofilter", LI(1), <<>>))>>, inc |-> <<Inc(LS(NT.nx))>> ]
RepeatCases == {[repeat |-> r, via |-> v, id |-> "", nth |-> 0] : r \in DOMAIN LibFail, v \in {"import", "from", "importcall"}}
RepeatTp(c) == ("main" :> (CASE c.via = "import" -> <<T(<<97>>), Import(LS(NT.t1), "L"), T(<<98>>)>>
                             [] c.via = "from" -> <<T(<<97>>), From(LS(NT.t1), <<"mm">>, <<"mm">>), T(<<98>>)>>
                             [] OTHER -> <<T(<<97>>), Import(LS(NT.t1), "L"), PrintS(MCall("L", "mm", <<LI(1)>>)), T(<<98>>)>>))
               @@ ("t1" :> Lib \o LibFail[c.repeat])
CaseOfRepeat(c) ==
    [prop |-> "C17", key |-> ToJson(c), tags |-> {"kind:repeat", "lib:" \o c.repeat, "via:" \o c.via}, entry |-> "main", ctx |-> Ctx,
     cfg |-> [faultid |-> c.id, faultnth |-> c.nth, faultload |-> "", loader |-> TRUE, spynames |-> <<"range", "length">>, spyfilternames |-> <<"spaceless">>],
     runs |-> {[label |-> "repeat", tp |-> Sources(RepeatTp(c), LMin), xcalls |-> [id \in {} |-> 0], again |-> 2]},
     expect |-> [ok |-> TRUE, anyoutcome |-> TRUE, out |-> <<>>, noout |-> TRUE, err |-> "", calls |-> [id \in {} |-> 0]]]

Init == cs \in Cases \cup RelCases \cup RepeatCases
Next == UNCHANGED cs
Spec == Init /\ [][Next]_cs
Emit == PrintT(ToJson(IF "repeat" \in DOMAIN cs THEN CaseOfRepeat(cs) ELSE CaseOf(cs)))
ModelOK == "repeat" \in DOMAIN cs \/ Surfaces(cs)
=============================================================================
