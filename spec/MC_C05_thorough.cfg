SPECIFICATION Spec
CONSTANTS
  SeqLen = 2
  SeqLenSmall = 3
INVARIANTS
  Emit
CHECK_DEADLOCK FALSE
