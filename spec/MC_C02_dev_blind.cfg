SPECIFICATION Spec
CONSTANTS
  NG = 2
  Workload = "regcold"
  EarlyTokPut = FALSE
  UnguardedPaths = FALSE
  SharedCurrent = FALSE
  BlindInsert = TRUE
INVARIANTS
  NoConflictingAccess
  TokensIntact
  RelativeNameOwn
  SerialEquivalent
  RegistrationLasts
  SingleOwner
CHECK_DEADLOCK FALSE
VIEW View
