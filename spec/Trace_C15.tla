------------------------------ MODULE Trace_C15 ------------------------------
(***************************************************************************)
(* Code -> spec: validates histories recorded from the real engine (random  *)
(* Go driver, far longer than TLC's exhaustive bound) against the           *)
(* CacheLoaders state machine.  One line per executed operation with the    *)
(* observation made right after it (the linearization point of a sequential *)
(* library is the call's return).  For each line the matching spec action   *)
(* is taken from the current spec state; the observation it prescribes must *)
(* equal the recorded one, otherwise the line number is added to rej.  A    *)
(* line whose operation is not enabled in the spec state (outside the       *)
(* fragment) is counted in skipped and ends the validation of that trace.   *)
(***************************************************************************)
EXTENDS CacheLoaders

Trace == ndJsonDeserialize("trace.ndjson")
VARIABLES l, rej, fresh, skipping, skipped
tvars == <<vars, l, rej, fresh, skipping, skipped>>

Ev == Trace[l]
RecLoad(o, i, n) == IF n \in DOMAIN o.loads[i] THEN o.loads[i][n] ELSE 0
SameObs(exp, o) ==
    /\ exp.served = o.served
    /\ \A i \in Loaders : \A n \in Names : exp.loads[i][n] = RecLoad(o, i, n)
    /\ exp.cached = {o.cached[k] : k \in 1..Len(o.cached)}

Act(ev) ==
    CASE ev.op = "render"        -> Render(ev.n)
      [] ev.op = "register"      -> Register(ev.n, ev.v - 10)
      [] ev.op = "regcompiled"   -> RegCompiled(ev.n, ev.v - 20, ev.b)
      [] ev.op = "put"           -> Put(ev.i, ev.n, ev.v)
      [] ev.op = "delete"        -> Delete(ev.i, ev.n)
      [] ev.op = "setcache"      -> SetCache(ev.b)
      [] ev.op = "setautoreload" -> SetAutoReload(ev.b)
      [] ev.op = "setdevmode"    -> SetDevMode(ev.b)

TInit == Init /\ l = 1 /\ rej = {} /\ fresh = TRUE /\ skipping = FALSE /\ skipped = 0
         /\ TLCSet(1, {}) /\ TLCSet(2, 0) /\ TLCSet(3, 0)

\* a new trace starts: back to the initial state of the state machine (silent step)
Reset == /\ l <= Len(Trace) /\ Ev.first /\ ~fresh
         /\ content' = [i \in Slots |-> [n \in Names |-> 0]] /\ mtime' = [i \in Slots |-> [n \in Names |-> -1]]
         /\ loads' = [i \in Loaders |-> [n \in Names |-> 0]] /\ cache' = [n \in Names |-> NoEntry]
         /\ cacheOn' = TRUE /\ autoReload' = InitAuto /\ clock' = 1 /\ hist' = <<>> /\ remembered' = [n \in Names |-> 0]
         /\ fresh' = TRUE /\ skipping' = FALSE
         /\ UNCHANGED <<l, rej, skipped>>

Consume ==
    /\ l <= Len(Trace) /\ (Ev.first => fresh)
    /\ l' = l + 1 /\ fresh' = FALSE
    /\ IF skipping
       THEN /\ skipped' = skipped + 1 /\ UNCHANGED <<vars, rej, skipping>>
       ELSE IF ENABLED Act(Ev)
       THEN /\ Act(Ev)
            /\ rej' = IF SameObs(hist'[Len(hist')].obs, Ev.obs) THEN rej ELSE rej \cup {l}
            /\ UNCHANGED <<skipping, skipped>>
       ELSE /\ skipping' = TRUE /\ skipped' = skipped + 1 /\ UNCHANGED <<vars, rej>>
    /\ TLCSet(1, rej') /\ TLCSet(2, l) /\ TLCSet(3, skipped')

TNext == Reset \/ Consume
TSpec == TInit /\ [][TNext]_tvars
Post == PrintT(<<"CONSUMED", TLCGet(2)>>) /\ PrintT(<<"REJECTED", TLCGet(1)>>) /\ PrintT(<<"SKIPPED", TLCGet(3)>>)
=============================================================================
