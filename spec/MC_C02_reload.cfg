SPECIFICATION Spec
CONSTANTS
  NG = 2
  Workload = "reload"
  EarlyTokPut = FALSE
  UnguardedPaths = FALSE
  SharedCurrent = FALSE
INVARIANTS
  NoConflictingAccess
  TokensIntact
  RelativeNameOwn
  SerialEquivalent
  SingleOwner
  Emit
CHECK_DEADLOCK FALSE
