SPECIFICATION Spec
CONSTANTS
  NG = 2
  Workload = "reload"
  EarlyTokPut = FALSE
  UnguardedPaths = FALSE
  SharedCurrent = FALSE
  BlindInsert = FALSE
INVARIANTS
  NoConflictingAccess
  TokensIntact
  RelativeNameOwn
  SerialEquivalent
  RegistrationLasts
  SingleOwner
  Emit
CHECK_DEADLOCK FALSE
