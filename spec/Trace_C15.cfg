SPECIFICATION TSpec
CONSTANTS
  MaxLen = 100000
POSTCONDITION Post
CHECK_DEADLOCK FALSE
