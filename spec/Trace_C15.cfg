SPECIFICATION TSpec
CONSTANTS
  TwoPaths = FALSE
  MaxLen = 100000
POSTCONDITION Post
CHECK_DEADLOCK FALSE
