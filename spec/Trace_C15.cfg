SPECIFICATION TSpec
CONSTANTS
  NamesUsed = {"r1", "l1", "l2", "m1"}
  InitAuto = FALSE
  Broken = FALSE
  TwoPaths = FALSE
  MaxLen = 100000
POSTCONDITION Post
CHECK_DEADLOCK FALSE
