SPECIFICATION Spec
CONSTANTS
  FmtLen = 3
INVARIANTS
  InsensitiveOK
  Emit
CHECK_DEADLOCK FALSE
