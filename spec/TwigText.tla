------------------------------ MODULE TwigText ------------------------------
(***************************************************************************)
(* Text as sequences of integers.                                          *)
(*   n >= 0 and n < PadBase : a Unicode code point                         *)
(*   n <  0                 : the raw byte -n (invalid UTF-8)              *)
(*   n >= PadBase           : pad token #(n - PadBase): a symbolic run of  *)
(*                            literal bytes expanded only by the Go side   *)
(* TLC strings are atomic, so everything character-level lives here.       *)
(***************************************************************************)
EXTENDS Integers, Sequences, FiniteSets, TLC

PadBase == 2097152          \* 2^21, above the last code point

IsPad(c) == c >= PadBase

\* ---- a few named characters ------------------------------------------------
cSP == 32   cTAB == 9   cLF == 10   cCR == 13
cLT == 60   cGT == 62   cAMP == 38  cDQ == 34   cSQ == 39
cLB == 123  cRB == 125  cPCT == 37  cHASH == 35  cDASH == 45  cBSL == 92
cSEMI == 59 cNUL == 0

WS == {cSP, cTAB, cLF, cCR}
HtmlSpecial == {cLT, cGT, cAMP, cDQ, cSQ}

\* ---- sequence helpers --------------------------------------------------------
RECURSIVE Flatten(_)
Flatten(ss) == IF ss = <<>> THEN <<>> ELSE Head(ss) \o Flatten(Tail(ss))

RECURSIVE Rev(_)
Rev(s) == IF s = <<>> THEN <<>> ELSE Append(Rev(Tail(s)), Head(s))

Take(s, n) == SubSeq(s, 1, IF n > Len(s) THEN Len(s) ELSE n)
Drop(s, n) == SubSeq(s, n + 1, Len(s))

RECURSIVE TrimL(_)
TrimL(s) == IF s # <<>> /\ Head(s) \in WS THEN TrimL(Tail(s)) ELSE s
TrimR(s) == Rev(TrimL(Rev(s)))
Trim(s)  == TrimR(TrimL(s))

IsPrefixOf(p, s) == Len(p) <= Len(s) /\ SubSeq(s, 1, Len(p)) = p
IsSuffixOf(p, s) == Len(p) <= Len(s) /\ SubSeq(s, Len(s) - Len(p) + 1, Len(s)) = p
Contains(s, p) == \E i \in 0..(Len(s) - Len(p)) : SubSeq(s, i + 1, i + Len(p)) = p

\* ---- decimal rendering of integers ------------------------------------------
RECURSIVE NatDigits(_)
NatDigits(n) == IF n < 10 THEN <<48 + n>> ELSE Append(NatDigits(n \div 10), 48 + (n % 10))
IntText(n) == IF n < 0 THEN <<cDASH>> \o NatDigits(-n) ELSE NatDigits(n)

\* ---- ASCII case mapping (the alphabets used by the models are ASCII + a few  ---
\* ---- fixed non-ASCII letters whose case pairs are listed explicitly)         ---
UpperCh(c) == IF c >= 97 /\ c <= 122 THEN c - 32 ELSE IF c = 233 THEN 201 ELSE c   \* é -> É
LowerCh(c) == IF c >= 65 /\ c <= 90 THEN c + 32 ELSE IF c = 201 THEN 233 ELSE c
Upper(s) == [i \in 1..Len(s) |-> UpperCh(s[i])]
Lower(s) == [i \in 1..Len(s) |-> LowerCh(s[i])]

\* ---- HTML escaping -------------------------------------------------------------
\* the reference escape; alternatives a conforming implementation may emit are
\* listed in EscAlternatives (the Go side only compares, TLC decides membership)
EscOne(c) == CASE c = cAMP -> <<38, 97, 109, 112, 59>>          \* &amp;
               [] c = cLT  -> <<38, 108, 116, 59>>              \* &lt;
               [] c = cGT  -> <<38, 103, 116, 59>>              \* &gt;
               [] c = cDQ  -> <<38, 113, 117, 111, 116, 59>>    \* &quot;
               [] c = cSQ  -> <<38, 35, 51, 57, 59>>            \* &#39;
               [] OTHER    -> <<c>>
EscAlternatives(c) ==
    CASE c = cSQ -> { <<38,35,51,57,59>>, <<38,35,48,51,57,59>>, <<38,35,120,50,55,59>>, <<38,97,112,111,115,59>> }
      [] c = cDQ -> { <<38,113,117,111,116,59>>, <<38,35,51,52,59>>, <<38,35,120,50,50,59>> }
      [] OTHER   -> { EscOne(c) }
RECURSIVE Escape(_)
Escape(s) == IF s = <<>> THEN <<>> ELSE EscOne(Head(s)) \o Escape(Tail(s))

\* ValidEscape(in, out): out is in with every special character replaced by one
\* of its accepted references and everything else unchanged.
RECURSIVE ValidEscape(_, _)
ValidEscape(in, out) ==
    IF in = <<>> THEN out = <<>>
    ELSE \E r \in EscAlternatives(Head(in)) :
            /\ IsPrefixOf(r, out)
            /\ ValidEscape(Tail(in), Drop(out, Len(r)))
\* the escape of an escape: every accepted reference of the first application has exactly one escape
\* (its "&" becomes "&amp;", the rest of a reference holds no special character)
RECURSIVE ValidEscape2(_, _)
ValidEscape2(in, out) ==
    IF in = <<>> THEN out = <<>>
    ELSE \E r \in EscAlternatives(Head(in)) :
            /\ IsPrefixOf(Escape(r), out)
            /\ ValidEscape2(Tail(in), Drop(out, Len(Escape(r))))
NoRawSpecial(out) == \A i \in 1..Len(out) : out[i] \in (HtmlSpecial \ {cAMP}) => FALSE

=============================================================================
