SPECIFICATION Spec
CONSTANTS
  NamesUsed = {"r1", "l1", "l2", "m1"}
  InitAuto = FALSE
  Broken = FALSE
  TwoPaths = FALSE
  MaxLen = 3
INVARIANTS
  TypeOK
  Emit
PROPERTIES
  P1
  P2
  P3unchanged
  P3changed
  P4
  P5
  P6
CHECK_DEADLOCK FALSE
