------------------------------ MODULE TwigSem ------------------------------
(***************************************************************************)
(* Reference semantics of the Twig language as the engine's users rely on  *)
(* it: expressions (Eval) and statements (Exec), big-step, total on the    *)
(* fragment the properties determine.  Anything a property does not        *)
(* determine evaluates to the error kind "frag" and the case is dropped by *)
(* the generators (never sent to the implementation).                      *)
(*                                                                         *)
(* Expression AST (records, field k is the kind):                          *)
(*   lit v | var n | bin op l r | un op e | cond c a b | spy fn id e       *)
(*   filt f e args | attr e n | item e i | arr es | hash ks vs             *)
(*   test e tn args neg | call f args | mcall al f args                    *)
(* Statement AST:                                                          *)
(*   text c | print e | if cs bs el hasEl | for v kv seq body el hasEl     *)
(*   set n e | setb n body | do e | include e with hasWith only ign sbx    *)
(*   block n body | extends e | macro n ps body | import e al              *)
(*   from e names als | apply f args body | comment c | verbatim c         *)
(*   spaceless body                                                        *)
(*                                                                         *)
(* World W (static): templates, policy, fault schedule, existing names.    *)
(* Activation A (per template activation): see MkA.                        *)
(* State st: [sc, out, calls, ok, err].                                    *)
(***************************************************************************)
EXTENDS TwigValues

\* ---------------------------------------------------------------------------
\* identifier spelling table (TLC strings are atomic)
\* ---------------------------------------------------------------------------
NTBase == [ a |-> <<97>>, b |-> <<98>>, c |-> <<99>>, d |-> <<100>>, e |-> <<101>>,
        f |-> <<102>>, g |-> <<103>>, h |-> <<104>>, i |-> <<105>>, j |-> <<106>>,
        k |-> <<107>>, m |-> <<109>>, n |-> <<110>>, o |-> <<111>>, p |-> <<112>>,
        q |-> <<113>>, r |-> <<114>>, s |-> <<115>>, t |-> <<116>>, u |-> <<117>>,
        v |-> <<118>>, w |-> <<119>>, x |-> <<120>>, y |-> <<121>>, z |-> <<122>>,
        t0 |-> <<116,48>>, t1 |-> <<116,49>>, t2 |-> <<116,50>>, t3 |-> <<116,51>>,
        t4 |-> <<116,52>>, t5 |-> <<116,53>>, t6 |-> <<116,54>>, t7 |-> <<116,55>>, nx |-> <<110,120>>, n1 |-> <<110,49>>, Items |-> <<73,116,101,109,115>>, n2 |-> <<110,50>>, n3 |-> <<110,51>>, n4 |-> <<110,52>>, n5 |-> <<110,53>>,
        k1 |-> <<107,49>>, k2 |-> <<107,50>>, k3 |-> <<107,51>>,
        m1 |-> <<109,49>>, m2 |-> <<109,50>>, b1 |-> <<98,49>>, b2 |-> <<98,50>>,
        X |-> <<88>>, Y |-> <<89>>, Z |-> <<90>>, N |-> <<78>>,
        \* path-like template names (two directories p/ and s/) for relative includes
        pqx |-> <<112,47,113,47,120>>, pn1 |-> <<112,47,110,49>>,
        pm |-> <<112,47,109>>, pb |-> <<112,47,98>>, ph |-> <<112,47,104>>, sh |-> <<115,47,104>>, sb |-> <<115,47,98>>, sm |-> <<115,47,109>> ]
\* 67 more variable names w10 .. w76 (wide contexts)
NT == NTBase @@ [n \in {"w" \o ToString(i) : i \in 10..76} |->
                    LET i == CHOOSE k \in 10..76 : n = "w" \o ToString(k) IN <<119, 48 + (i \div 10), 48 + (i % 10)>>]
NameText(n) == NT[n]
TextIsName(s) == \E n \in DOMAIN NT : NT[n] = s
NameOfText(s) == CHOOSE n \in DOMAIN NT : NT[n] = s

\* ---------------------------------------------------------------------------
\* AST constructors
\* ---------------------------------------------------------------------------
Lit(v)            == [k |-> "lit", v |-> v]
LitRaw(v, txt)    == [k |-> "lit", v |-> v, raw |-> txt]      \* the same value, written txt in the source
LI(i)             == Lit(VI(i))
LS(s)             == Lit(VS(s))
LB(b)             == Lit(VB(b))
Var(n)            == [k |-> "var", n |-> n]
Bin(op, l, r)     == [k |-> "bin", op |-> op, l |-> l, r |-> r]
Un(op, e)         == [k |-> "un", op |-> op, e |-> e]
Cond(c, a, b)     == [k |-> "cond", c |-> c, a |-> a, b |-> b]
Spy(fn, id, e)    == [k |-> "spy", fn |-> fn, id |-> id, e |-> e]
Filt(f, e, args)  == [k |-> "filt", f |-> f, e |-> e, args |-> args]
SpyF(fn, id, e)   == Filt(fn, e, <<Lit([t |-> "id", id |-> id])>>)
Attr(e, n)        == [k |-> "attr", e |-> e, n |-> n]
Item(e, i)        == [k |-> "item", e |-> e, i |-> i]
Arr(es)           == [k |-> "arr", es |-> es]
Hash(ks, vs)      == [k |-> "hash", ks |-> ks, vs |-> vs]
Test(e, tn, args, neg) == [k |-> "test", e |-> e, tn |-> tn, args |-> args, neg |-> neg]
Call(f, args)     == [k |-> "call", f |-> f, args |-> args]
MCall(al, f, args) == [k |-> "mcall", al |-> al, f |-> f, args |-> args]

Text(c)           == [k |-> "text", c |-> c]
PrintS(e)          == [k |-> "print", e |-> e]
If(cs, bs, el, hasEl) == [k |-> "if", cs |-> cs, bs |-> bs, el |-> el, hasEl |-> hasEl]
If1(c, b)         == If(<<c>>, <<b>>, <<>>, FALSE)
IfElse(c, b, el)  == If(<<c>>, <<b>>, el, TRUE)
For(v, kv, seq, body, el, hasEl) ==
    [k |-> "for", v |-> v, kv |-> kv, seq |-> seq, body |-> body, el |-> el, hasEl |-> hasEl]
For1(v, seq, body) == For(v, "", seq, body, <<>>, FALSE)
Set(n, e)         == [k |-> "set", n |-> n, e |-> e]
Do(e)             == [k |-> "do", e |-> e]
Include(e, with, hasWith, only, ign, sbx) ==
    [k |-> "include", e |-> e, with |-> with, hasWith |-> hasWith, only |-> only, ign |-> ign, sbx |-> sbx]
Inc(e)            == Include(e, Lit(Null), FALSE, FALSE, FALSE, FALSE)
Block(n, body)    == [k |-> "block", n |-> n, body |-> body]
Extends(e)        == [k |-> "extends", e |-> e]
RawStmt(ps)       == [k |-> "raw", ps |-> ps]          \* source pieces as they are (outside the reference semantics: "frag")
Macro(n, ps, body) == [k |-> "macro", n |-> n, ps |-> ps, body |-> body]
Param(n)          == [n |-> n, hasD |-> FALSE, d |-> Lit(Null)]
ParamD(n, d)      == [n |-> n, hasD |-> TRUE, d |-> d]
Import(e, al)     == [k |-> "import", e |-> e, al |-> al]
From(e, names, als) == [k |-> "from", e |-> e, names |-> names, als |-> als]
Apply(f, args, body) == [k |-> "apply", f |-> f, args |-> args, body |-> body]
Spaceless(body)   == [k |-> "spaceless", body |-> body]
Comment(c)        == [k |-> "comment", c |-> c]
Verbatim(c)       == [k |-> "verbatim", c |-> c]

\* ---------------------------------------------------------------------------
\* results
\* ---------------------------------------------------------------------------
ROk(v, calls)    == [ok |-> TRUE,  v |-> v,    err |-> "",  calls |-> calls]
RErr(err, calls) == [ok |-> FALSE, v |-> Null, err |-> err, calls |-> calls]

EmptyFn == [x \in {} |-> Null]
Lookup(sc, n) == IF n \in DOMAIN sc THEN sc[n] ELSE Null
Bind(sc, n, v) == (n :> v) @@ sc
Unbind(sc, n) == [x \in (DOMAIN sc) \ {n} |-> sc[x]]
Restore(sc, old, n) == IF n \in DOMAIN old THEN Bind(sc, n, old[n]) ELSE Unbind(sc, n)

CountOf(calls, id) == Cardinality({i \in 1..Len(calls) : calls[i] = id})

\* ---------------------------------------------------------------------------
\* the operator table (C08) -- data; the printer in TwigSyntax uses only this
\* ---------------------------------------------------------------------------
CmpOps  == {"==", "!=", "<", ">", "<=", ">=", "in", "not in", "matches", "starts with", "ends with"}
SumOps  == {"+", "-", "~"}
ProdOps == {"*", "/", "%"}
BinOps  == {"or", "and"} \cup CmpOps \cup SumOps \cup ProdOps \cup {"^"}
Prec(op) == CASE op = "or" -> 1 [] op = "and" -> 2 [] op \in CmpOps -> 3
              [] op \in SumOps -> 4 [] op \in ProdOps -> 5 [] op = "^" -> 6

\* ---------------------------------------------------------------------------
\* binary operators on values; "frag" where the property is silent
\* ---------------------------------------------------------------------------
InRange53(n) == n > -Lim53 /\ n < Lim53
RInt(n, calls) == IF InRange53(n) THEN ROk(VI(n), calls) ELSE RErr("frag", calls)

\* a "matches" pattern is the text /lit/ with lit free of regex metacharacters: contains
\* /lit/i is the same without regard to (ASCII) case
IsSimplePattern(s) == Len(s) >= 2 /\ s[1] = 47 /\ s[Len(s)] = 47
IsSimplePatternI(s) == Len(s) >= 3 /\ s[1] = 47 /\ s[Len(s) - 1] = 47 /\ s[Len(s)] = 105
PatternBody(s) == SubSeq(s, 2, Len(s) - 1)
PatternBodyI(s) == SubSeq(s, 2, Len(s) - 2)

BinOp(op, a, b, calls) ==
    CASE op \in {"+", "-", "*"} ->
           IF a.t = "int" /\ b.t = "int" /\ (op = "*" => (Abs(a.i) <= 30000 /\ Abs(b.i) <= 30000))
           THEN RInt(CASE op = "+" -> a.i + b.i [] op = "-" -> a.i - b.i [] op = "*" -> a.i * b.i, calls)
           ELSE RErr("frag", calls)
      [] op = "/" ->
           IF a.t = "int" /\ b.t = "int" /\ b.i # 0 /\ a.i >= 0 /\ b.i > 0 /\ a.i % b.i = 0
           THEN RInt(a.i \div b.i, calls) ELSE RErr("frag", calls)
      [] op = "%" ->
           IF a.t = "int" /\ b.t = "int" /\ a.i >= 0 /\ b.i > 0
           THEN RInt(a.i % b.i, calls) ELSE RErr("frag", calls)
      [] op = "^" ->
           IF a.t = "int" /\ b.t = "int" /\ b.i >= 0 /\ b.i <= 5 /\ Abs(a.i) <= 30
           THEN RInt(Pow(a.i, b.i), calls) ELSE RErr("frag", calls)
      [] op = "~" ->
           IF a.t \in {"int", "str"} /\ b.t \in {"int", "str"}
           THEN ROk(VS(TextOf(a) \o TextOf(b)), calls) ELSE RErr("frag", calls)
      [] op \in {"<", ">", "<=", ">="} ->
           IF a.t = "int" /\ b.t = "int"
           THEN ROk(VB(CASE op = "<" -> a.i < b.i [] op = ">" -> a.i > b.i
                         [] op = "<=" -> a.i <= b.i [] op = ">=" -> a.i >= b.i), calls)
           ELSE RErr("frag", calls)
      [] op \in {"==", "!="} ->
           IF a.t = b.t /\ a.t \in {"int", "str", "bool"}
           THEN ROk(VB((op = "==") <=> SameTypeEq(a, b)), calls) ELSE RErr("frag", calls)
      [] op \in {"in", "not in"} ->
           IF b.t = "list" /\ a.t \in {"int", "str"} /\ \A i \in 1..Len(b.xs) : b.xs[i].t = a.t
           THEN ROk(VB((op = "in") <=> (\E i \in 1..Len(b.xs) : SameTypeEq(a, b.xs[i]))), calls)
           ELSE IF b.t = "str" /\ a.t = "str" /\ a.s # <<>>
           THEN ROk(VB((op = "in") <=> Contains(b.s, a.s)), calls)
           ELSE RErr("frag", calls)
      [] op = "starts with" ->
           IF a.t = "str" /\ b.t = "str" THEN ROk(VB(IsPrefixOf(b.s, a.s)), calls) ELSE RErr("frag", calls)
      [] op = "ends with" ->
           IF a.t = "str" /\ b.t = "str" THEN ROk(VB(IsSuffixOf(b.s, a.s)), calls) ELSE RErr("frag", calls)
      [] op = "matches" ->
           IF a.t = "str" /\ b.t = "str" /\ IsSimplePattern(b.s)
           THEN ROk(VB(Contains(a.s, PatternBody(b.s))), calls)
           ELSE IF a.t = "str" /\ b.t = "str" /\ IsSimplePatternI(b.s)
           THEN ROk(VB(Contains(Lower(a.s), Lower(PatternBodyI(b.s)))), calls) ELSE RErr("frag", calls)
      [] OTHER -> RErr("frag", calls)

\* ---------------------------------------------------------------------------
\* built-in filters (reference semantics on the fragment)
\* ---------------------------------------------------------------------------
RECURSIVE JoinTexts(_, _)
JoinTexts(xs, sep) ==
    IF xs = <<>> THEN <<>>
    ELSE IF Len(xs) = 1 THEN TextOf(xs[1])
    ELSE TextOf(xs[1]) \o sep \o JoinTexts(Tail(xs), sep)

Capitalize(s) == IF s = <<>> THEN s ELSE <<UpperCh(s[1])>> \o Lower(Tail(s))

\* insertion sort, ints numerically / strings by code point sequence
RECURSIVE TextLess(_, _)
TextLess(a, b) == IF a = <<>> THEN b # <<>> ELSE IF b = <<>> THEN FALSE
                  ELSE IF a[1] # b[1] THEN a[1] < b[1] ELSE TextLess(Tail(a), Tail(b))
ValLess(a, b) == IF a.t = "int" THEN a.i < b.i ELSE TextLess(a.s, b.s)
RECURSIVE InsertSorted(_, _)
InsertSorted(x, xs) == IF xs = <<>> THEN <<x>>
                       ELSE IF ValLess(x, Head(xs)) THEN <<x>> \o xs
                       ELSE <<Head(xs)>> \o InsertSorted(x, Tail(xs))
RECURSIVE SortVals(_)
SortVals(xs) == IF xs = <<>> THEN <<>> ELSE InsertSorted(Head(xs), SortVals(Tail(xs)))
Homogeneous(xs, ty) == \A i \in 1..Len(xs) : xs[i].t = ty

\* Twig slice index rules over a sequence of n elements
SliceBounds(n, st, hasLen, ln) ==
    LET s0 == IF st < 0 THEN (IF n + st < 0 THEN 0 ELSE n + st) ELSE (IF st > n THEN n ELSE st)
        e0 == IF ~hasLen THEN n
              ELSE IF ln >= 0 THEN (IF s0 + ln > n THEN n ELSE s0 + ln)
              ELSE (IF n + ln < s0 THEN s0 ELSE n + ln)
    IN [from |-> s0, to |-> e0]         \* elements from+1 .. to
SliceSeq(xs, st, hasLen, ln) ==
    LET b == SliceBounds(Len(xs), st, hasLen, ln) IN SubSeq(xs, b.from + 1, b.to)

\* split a text at a non-empty separator
RECURSIVE SplitText(_, _, _)
SplitText(s, sep, acc) ==
    IF s = <<>> THEN <<acc>>
    ELSE IF IsPrefixOf(sep, s) THEN <<acc>> \o SplitText(Drop(s, Len(sep)), sep, <<>>)
    ELSE SplitText(Tail(s), sep, Append(acc, Head(s)))

\* spaceless: white space (space, tab, LF, FF, CR) between a ">" and the next "<" is removed
IsWs(c) == c \in {32, 9, 10, 12, 13}
RECURSIVE WsRun(_, _), SpacelessText(_)
WsRun(s, i) == IF i <= Len(s) /\ IsWs(s[i]) THEN WsRun(s, i + 1) ELSE i      \* first index >= i that is not white space
SpacelessText(s) ==
    IF s = <<>> THEN <<>>
    ELSE IF s[1] = 62 THEN
         LET j == WsRun(s, 2) IN
         IF j > 2 /\ j <= Len(s) /\ s[j] = 60 THEN <<62>> \o SpacelessText(SubSeq(s, j, Len(s)))
         ELSE <<62>> \o SpacelessText(Tail(s))
    ELSE <<s[1]>> \o SpacelessText(Tail(s))

\* relative template names: "./x" and "../x" name a template relative to the directory of the template
\* that contains the tag (path segments joined and cleaned: "." dropped, ".." removes the segment before it)
IsRelativeName(s) == (Len(s) >= 2 /\ s[1] = 46 /\ s[2] = 47) \/ (Len(s) >= 3 /\ s[1] = 46 /\ s[2] = 46 /\ s[3] = 47)
RECURSIVE CleanSegs(_, _), JoinSegs(_)
CleanSegs(segs, acc) ==
    IF segs = <<>> THEN acc
    ELSE IF Head(segs) = <<46>> \/ Head(segs) = <<>> THEN CleanSegs(Tail(segs), acc)
    ELSE IF Head(segs) = <<46, 46>> THEN (IF acc = <<>> \/ acc[Len(acc)] = <<46, 46>> THEN CleanSegs(Tail(segs), Append(acc, <<46, 46>>))
                                          ELSE CleanSegs(Tail(segs), SubSeq(acc, 1, Len(acc) - 1)))
    ELSE CleanSegs(Tail(segs), Append(acc, Head(segs)))
JoinSegs(segs) == IF segs = <<>> THEN <<>> ELSE IF Len(segs) = 1 THEN segs[1] ELSE segs[1] \o <<47>> \o JoinSegs(Tail(segs))
\* (a template key without an entry in NT, like "main", has no directory part)
SelfText(n) == IF n \in DOMAIN NT THEN NT[n] ELSE <<>>
ResolveName(selfText, s) ==
    IF ~IsRelativeName(s) THEN s
    ELSE LET own == SplitText(selfText, <<47>>, <<>>)
             dir == SubSeq(own, 1, Len(own) - 1)
         IN JoinSegs(CleanSegs(dir \o SplitText(s, <<47>>, <<>>), <<>>))

\* the harness' vdump filter: a serialisation of the Go value the filter receives
\*   N | T | F | i<int> | s<#chars>:<chars> | [e,..] | {k=v,..} sorted by the dump of k
RECURSIVE Dump(_), DumpSeq(_), DumpPairs(_)
DumpSeq(xs) == IF xs = <<>> THEN <<>> ELSE IF Len(xs) = 1 THEN Dump(xs[1]) ELSE Dump(xs[1]) \o <<44>> \o DumpSeq(Tail(xs))
RECURSIVE InsertPair(_, _)
InsertPair(p, ps) == IF ps = <<>> THEN <<p>>
                     ELSE IF TextLess(p.k, Head(ps).k) THEN <<p>> \o ps ELSE <<Head(ps)>> \o InsertPair(p, Tail(ps))
RECURSIVE SortPairs(_)
SortPairs(ps) == IF ps = <<>> THEN <<>> ELSE InsertPair(Head(ps), SortPairs(Tail(ps)))
DumpPairs(ps) == IF ps = <<>> THEN <<>>
                 ELSE ps[1].k \o <<61>> \o ps[1].v \o (IF Len(ps) > 1 THEN <<44>> \o DumpPairs(Tail(ps)) ELSE <<>>)
Dump(v) ==
    CASE v.t = "null" -> <<78>>
      [] v.t = "bool" -> IF v.b THEN <<84>> ELSE <<70>>
      [] v.t = "int"  -> <<105>> \o IntText(v.i)
      [] v.t = "str"  -> <<115>> \o IntText(Len(v.s)) \o <<58>> \o v.s
      [] v.t = "safe" -> <<115>> \o IntText(Len(v.s)) \o <<58>> \o v.s
      [] v.t = "list" -> <<91>> \o DumpSeq(v.xs) \o <<93>>
      [] v.t = "map"  -> <<123>> \o DumpPairs(SortPairs([i \in 1..Len(v.ks) |-> [k |-> Dump(v.ks[i]), v |-> Dump(v.vs[i])]])) \o <<125>>
      [] OTHER -> <<63>>

IsEmptyVal(v) == v.t = "null" \/ (v.t = "str" /\ v.s = <<>>) \/ (v.t = "bool" /\ ~v.b)
                 \/ (v.t = "list" /\ v.xs = <<>>) \/ (v.t = "map" /\ v.ks = <<>>)

RECURSIVE MergeMaps(_, _, _)
MergeMaps(m, ks, vs) == IF ks = <<>> THEN m ELSE MergeMaps(MapPut(m, Head(ks), Head(vs)), Tail(ks), Tail(vs))

\* harness spy filters that take no argument: name -> the id they count under
KnownTests == {"defined", "empty", "null", "none", "even", "odd", "iterable", "divisibleby", "sameas", "st", "stx"}
NamedSpyFilters == [sfz |-> "f1", sfa |-> "a1"]
BuiltinFilters == {"upper", "lower", "trim", "capitalize", "length", "first", "last", "reverse",
                   "sort", "join", "default", "keys", "merge", "slice", "abs", "escape", "e", "split", "vdump", "round", "number_format", "raw"}

ApplyBuiltin(f, v, args, calls) ==
    CASE f = "upper" /\ v.t = "str" /\ args = <<>> -> ROk(VS(Upper(v.s)), calls)
      [] f = "lower" /\ v.t = "str" /\ args = <<>> -> ROk(VS(Lower(v.s)), calls)
      [] f = "trim"  /\ v.t = "str" /\ args = <<>> -> ROk(VS(Trim(v.s)), calls)
      [] f = "capitalize" /\ v.t = "str" /\ args = <<>> -> ROk(VS(Capitalize(v.s)), calls)
      [] f = "length" /\ args = <<>> /\ v.t \in {"str", "list", "map"} ->
            ROk(VI(CASE v.t = "str" -> Len(v.s) [] v.t = "list" -> Len(v.xs) [] v.t = "map" -> Len(v.ks)), calls)
      [] f = "first" /\ args = <<>> /\ v.t = "list" ->
            ROk(IF v.xs = <<>> THEN Null ELSE v.xs[1], calls)
      [] f = "last" /\ args = <<>> /\ v.t = "list" ->
            ROk(IF v.xs = <<>> THEN Null ELSE v.xs[Len(v.xs)], calls)
      \* on maps the element order is the iteration order of the map (see C03: any fixed order)
      [] f = "first" /\ args = <<>> /\ v.t = "map" -> ROk(IF v.vs = <<>> THEN Null ELSE v.vs[1], calls)
      [] f = "last" /\ args = <<>> /\ v.t = "map" -> ROk(IF v.vs = <<>> THEN Null ELSE v.vs[Len(v.vs)], calls)
      [] f = "join" /\ v.t = "map" /\ Len(args) <= 1 /\ (\A i \in 1..Len(v.vs) : Printable(v.vs[i]))
                    /\ (args = <<>> \/ args[1].t = "str") ->
            ROk(VS(JoinTexts(v.vs, IF args = <<>> THEN <<>> ELSE args[1].s)), calls)
      [] f = "first" /\ args = <<>> /\ v.t = "str" ->
            ROk(VS(IF v.s = <<>> THEN <<>> ELSE <<v.s[1]>>), calls)
      [] f = "last" /\ args = <<>> /\ v.t = "str" ->
            ROk(VS(IF v.s = <<>> THEN <<>> ELSE <<v.s[Len(v.s)]>>), calls)
      [] f = "reverse" /\ args = <<>> /\ v.t = "list" -> ROk([v EXCEPT !.xs = Rev(v.xs), !.g = "any"], calls)
      [] f = "reverse" /\ args = <<>> /\ v.t = "str" -> ROk(VS(Rev(v.s)), calls)
      [] f = "sort" /\ args = <<>> /\ v.t = "list" /\ (Homogeneous(v.xs, "int") \/ Homogeneous(v.xs, "str")) ->
            ROk(VL(SortVals(v.xs)), calls)
      [] f = "join" /\ v.t = "list" /\ Len(args) <= 1 /\ (\A i \in 1..Len(v.xs) : Printable(v.xs[i]))
                    /\ (args = <<>> \/ args[1].t = "str") ->
            ROk(VS(JoinTexts(v.xs, IF args = <<>> THEN <<>> ELSE args[1].s)), calls)
      [] f = "default" /\ Len(args) = 1 -> ROk(IF IsEmptyVal(v) THEN args[1] ELSE v, calls)
      [] f = "keys" /\ args = <<>> /\ v.t = "map" -> ROk(VL(v.ks), calls)
      [] f = "merge" /\ Len(args) >= 1 /\ v.t = "list" /\ (\A i \in 1..Len(args) : args[i].t = "list") ->
            ROk(VL(v.xs \o Flatten([i \in 1..Len(args) |-> args[i].xs])), calls)
      [] f = "merge" /\ Len(args) = 1 /\ v.t = "map" /\ args[1].t = "map" ->
            ROk(MergeMaps(VM(v.ks, v.vs), args[1].ks, args[1].vs), calls)
      [] f = "slice" /\ Len(args) \in {1, 2} /\ v.t \in {"list", "str"}
                     /\ (\A i \in 1..Len(args) : args[i].t = "int") ->
            LET hasLen == Len(args) = 2
                ln == IF hasLen THEN args[2].i ELSE 0
            IN IF v.t = "list" THEN ROk(VL(SliceSeq(v.xs, args[1].i, hasLen, ln)), calls)
               ELSE ROk(VS(SliceSeq(v.s, args[1].i, hasLen, ln)), calls)
      [] f = "abs" /\ args = <<>> /\ v.t = "int" -> ROk(VI(Abs(v.i)), calls)
      [] f = "abs" /\ args = <<>> /\ v.t = "dec" -> ROk(VD(Abs(v.m), v.e), calls)
      [] f = "round" /\ v.t \in {"dec", "int"} /\ Len(args) <= 2 /\ (Len(args) >= 1 => args[1].t = "int" /\ args[1].i \in -2..3)
                     /\ (Len(args) = 2 => args[2].t = "str" /\ args[2].s \in {<<102, 108, 111, 111, 114>>, <<99, 101, 105, 108>>, <<99, 111, 109, 109, 111, 110>>}) ->
            LET m == IF v.t = "int" THEN v.i ELSE v.m
                e == IF v.t = "int" THEN 0 ELSE v.e
                p == IF Len(args) >= 1 THEN args[1].i ELSE 0
                method == IF Len(args) = 2 THEN (IF args[2].s = <<102, 108, 111, 111, 114>> THEN "floor"
                                                 ELSE IF args[2].s = <<99, 101, 105, 108>> THEN "ceil" ELSE "common") ELSE "common"
                r == RoundDec(m, e, p, method)
            IN ROk(VD(r.m, r.e), calls)
      [] f = "number_format" /\ v.t \in {"dec", "int"} /\ Len(args) <= 3
                     /\ (Len(args) >= 1 => args[1].t = "int" /\ args[1].i \in 0..4)
                     /\ (Len(args) >= 2 => args[2].t = "str") /\ (Len(args) = 3 => args[3].t = "str")
                     /\ NumFmtDetermined(IF v.t = "int" THEN v.i ELSE v.m, IF v.t = "int" THEN 0 ELSE v.e, IF Len(args) >= 1 THEN args[1].i ELSE 0) ->
            ROk(VS(NumFmtText(IF v.t = "int" THEN v.i ELSE v.m, IF v.t = "int" THEN 0 ELSE v.e, IF Len(args) >= 1 THEN args[1].i ELSE 0,
                              IF Len(args) >= 2 THEN args[2].s ELSE <<46>>, IF Len(args) = 3 THEN args[3].s ELSE <<44>>)), calls)
      [] f = "split" /\ Len(args) = 1 /\ v.t = "str" /\ args[1].t = "str" /\ args[1].s # <<>> ->
            ROk(VL([i \in 1..Len(SplitText(v.s, args[1].s, <<>>)) |-> VS(SplitText(v.s, args[1].s, <<>>)[i])]), calls)
      [] f = "raw" /\ args = <<>> -> ROk(v, calls)          \* (no automatic escaping in the fragment: the value itself)
      [] f = "vdump" /\ args = <<>> -> ROk(VS(Dump(v)), calls)
      [] f \in {"escape", "e"} /\ args = <<>> /\ Printable(v) -> ROk(VS(Escape(TextOf(v))), calls)
      [] OTHER -> RErr("frag", calls)

\* ---------------------------------------------------------------------------
\* imports are lexical: collect them from the top level of a body
\* ---------------------------------------------------------------------------
\* (self: the template the statements stand in -- a library named ./x or ../x is looked for next to it)
RECURSIVE ImportAliasesIn(_, _, _), FromImportsIn(_, _, _)
ImportAliasesIn(self, body, acc) ==
    IF body = <<>> THEN acc
    ELSE LET s == Head(body) IN
         IF s.k = "import" /\ s.e.k = "lit" /\ s.e.v.t = "str" /\ TextIsName(ResolveName(SelfText(self), s.e.v.s))
         THEN ImportAliasesIn(self, Tail(body), (s.al :> NameOfText(ResolveName(SelfText(self), s.e.v.s))) @@ acc)
         ELSE ImportAliasesIn(self, Tail(body), acc)
FromImportsIn(self, body, acc) ==
    IF body = <<>> THEN acc
    ELSE LET s == Head(body) IN
         IF s.k = "from" /\ s.e.k = "lit" /\ s.e.v.t = "str" /\ TextIsName(ResolveName(SelfText(self), s.e.v.s))
         THEN LET t == NameOfText(ResolveName(SelfText(self), s.e.v.s))
                  add == [i \in 1..Len(s.names) |-> (s.als[i] :> [tpl |-> t, n |-> s.names[i]])]
                  RECURSIVE Fold(_, _)
                  Fold(i, a) == IF i > Len(add) THEN a ELSE Fold(i + 1, add[i] @@ a)
              IN FromImportsIn(self, Tail(body), Fold(1, acc))
         ELSE FromImportsIn(self, Tail(body), acc)

\* ---------------------------------------------------------------------------
\* worlds and activations
\* ---------------------------------------------------------------------------
NoFault == [id |-> "", nth |-> 0]
\* fl: name of a template whose load fails with the injected fault ("" = none)
MkWF(tp, polF, polFn, fault, fl) ==
    [tp |-> tp, polF |-> polF, polFn |-> polFn, fault |-> fault, fl |-> fl, globals |-> EmptyFn]
\* engine globals: the outermost scope of every template (also of an include ... only and of a macro body)
WithGlobals(W, g) == [W EXCEPT !.globals = g]
MkW(tp, polF, polFn, fault) == MkWF(tp, polF, polFn, fault, "")
\* outcome of loading template name t: "" ok, else the error kind
LoadErr(W, t) == IF t = W.fl THEN "fault" ELSE IF t \notin DOMAIN W.tp THEN "notfound" ELSE ""
\* tp : function template-name -> body (sequence of statements); a name that is
\* not in DOMAIN tp does not exist (ErrTemplateNotFound).

MkA(W, self, sb) ==
    [W |-> W, self |-> self, sb |-> sb,
     chain |-> <<self>>,                 \* extends chain, most derived first
     blk |-> "", lvl |-> 0,              \* block being rendered and its level in chain
     al |-> IF self \in DOMAIN W.tp THEN ImportAliasesIn(self, W.tp[self], EmptyFn) ELSE EmptyFn,
                                         \* alias -> template name (import ... as al)
     fm |-> IF self \in DOMAIN W.tp THEN FromImportsIn(self, W.tp[self], EmptyFn) ELSE EmptyFn,
                                         \* local name -> [tpl, n] (from ... import)
     depth |-> 0]
\* code of template t runs (a block body taken from another level of the chain)
WithSelf(A, t) == [A EXCEPT !.self = t, !.al = ImportAliasesIn(t, A.W.tp[t], EmptyFn),
                            !.fm = FromImportsIn(t, A.W.tp[t], EmptyFn)]

MaxDepth == 6

St0(sc) == [sc |-> sc, out |-> <<>>, calls |-> <<>>, ok |-> TRUE, err |-> ""]
StErr(st, err, calls) == [st EXCEPT !.ok = FALSE, !.err = err, !.calls = calls]

\* macro definitions of a template: top-level macro statements
MacroDefs(body) == {i \in 1..Len(body) : body[i].k = "macro"}
HasMacro(W, t, n) == t \in DOMAIN W.tp /\ \E i \in MacroDefs(W.tp[t]) : W.tp[t][i].n = n
GetMacro(W, t, n) == W.tp[t][CHOOSE i \in MacroDefs(W.tp[t]) : W.tp[t][i].n = n]

\* all block definitions of a body, at any nesting depth
RECURSIVE BlocksIn(_)
BlocksIn(body) ==
    IF body = <<>> THEN {}
    ELSE LET s == Head(body)
             inner == CASE s.k = "block" -> {s} \cup BlocksIn(s.body)
                        [] s.k = "if" -> UNION {BlocksIn(s.bs[i]) : i \in 1..Len(s.bs)} \cup BlocksIn(s.el)
                        [] s.k = "for" -> BlocksIn(s.body) \cup BlocksIn(s.el)
                        [] s.k \in {"apply", "spaceless"} -> BlocksIn(s.body)
                        [] OTHER -> {}
         IN inner \cup BlocksIn(Tail(body))
DefinesBlock(W, t, n) == \E b \in BlocksIn(W.tp[t]) : b.n = n
BlockDef(W, t, n) == CHOOSE b \in BlocksIn(W.tp[t]) : b.n = n

\* first level >= from in chain that defines block n; 0 if none
RECURSIVE LevelDefining(_, _, _, _)
LevelDefining(W, chain, n, from) ==
    IF from > Len(chain) THEN 0
    ELSE IF DefinesBlock(W, chain[from], n) THEN from
    ELSE LevelDefining(W, chain, n, from + 1)

\* ---------------------------------------------------------------------------
\* Eval / Exec
\* ---------------------------------------------------------------------------
RECURSIVE Eval(_, _, _, _), EvalSeq(_, _, _, _), Exec(_, _, _), ExecStmt(_, _, _),
          ExecLoop(_, _, _, _, _, _), RenderTemplate(_, _, _, _), CallMacro(_, _, _, _, _, _),
          BindParams(_, _, _, _, _, _), ResolveChain(_, _, _, _, _)

\* evaluate a sequence of expressions left to right; v is the list of values
EvalSeq(es, A, sc, calls) ==
    IF es = <<>> THEN ROk(VL(<<>>), calls)
    ELSE LET h == Eval(Head(es), A, sc, calls) IN
         IF ~h.ok THEN h
         ELSE LET t == EvalSeq(Tail(es), A, sc, h.calls) IN
              IF ~t.ok THEN t ELSE ROk(VL(<<h.v>> \o t.v.xs), t.calls)

\* one invocation of a user callback: policy, then fault schedule, then count
Invoke(kind, fn, id, A, calls, v) ==
    IF A.sb /\ ((kind = "function" /\ fn \notin A.W.polFn) \/ (kind = "filter" /\ fn \notin A.W.polF))
    THEN RErr("security", calls)
    ELSE LET calls2 == Append(calls, id) IN
         IF A.W.fault.id = id /\ CountOf(calls2, id) = A.W.fault.nth
         THEN RErr("fault", calls2)
         ELSE ROk(v, calls2)

LoopAttr(lp, n) ==
    CASE n = "index"     -> VI(lp.index0 + 1)
      [] n = "index0"    -> VI(lp.index0)
      [] n = "revindex"  -> VI(lp.length - lp.index0)
      [] n = "revindex0" -> VI(lp.length - lp.index0 - 1)
      [] n = "first"     -> VB(lp.index0 = 0)
      [] n = "last"      -> VB(lp.index0 = lp.length - 1)
      [] n = "length"    -> VI(lp.length)
      [] OTHER           -> Null

Eval(e, A, sc, calls) ==
    CASE e.k = "lit" -> ROk(e.v, calls)
      [] e.k = "var" -> ROk(Lookup(sc, e.n), calls)
      [] e.k = "un" ->
           LET r == Eval(e.e, A, sc, calls) IN
           IF ~r.ok THEN r
           ELSE IF e.op = "not" THEN ROk(VB(~Truthy(r.v)), r.calls)
           ELSE IF e.op = "-" /\ r.v.t = "int" THEN ROk(VI(-r.v.i), r.calls)
           ELSE IF e.op = "+" /\ r.v.t = "int" THEN ROk(r.v, r.calls)
           ELSE RErr("frag", r.calls)
      [] e.k = "bin" ->
           LET l == Eval(e.l, A, sc, calls) IN
           IF ~l.ok THEN l
           ELSE IF e.op = "and" THEN
                  IF ~Truthy(l.v) THEN ROk(VB(FALSE), l.calls)
                  ELSE LET r == Eval(e.r, A, sc, l.calls) IN
                       IF ~r.ok THEN r ELSE ROk(VB(Truthy(r.v)), r.calls)
           ELSE IF e.op = "or" THEN
                  IF Truthy(l.v) THEN ROk(VB(TRUE), l.calls)
                  ELSE LET r == Eval(e.r, A, sc, l.calls) IN
                       IF ~r.ok THEN r ELSE ROk(VB(Truthy(r.v)), r.calls)
           ELSE LET r == Eval(e.r, A, sc, l.calls) IN
                IF ~r.ok THEN r ELSE BinOp(e.op, l.v, r.v, r.calls)
      [] e.k = "cond" ->
           LET c == Eval(e.c, A, sc, calls) IN
           IF ~c.ok THEN c
           ELSE IF Truthy(c.v) THEN Eval(e.a, A, sc, c.calls) ELSE Eval(e.b, A, sc, c.calls)
      [] e.k = "spy" ->          \* fn('id', e): returns the value of e, counted under id
           LET r == Eval(e.e, A, sc, calls) IN
           IF ~r.ok THEN r ELSE Invoke("function", e.fn, e.id, A, r.calls, r.v)
      [] e.k = "filt" ->
           LET r == Eval(e.e, A, sc, calls) IN
           IF ~r.ok THEN r
           ELSE LET as == EvalSeq(e.args, A, sc, r.calls) IN
                IF ~as.ok THEN as
                ELSE IF Len(e.args) = 1 /\ e.args[1].k = "lit" /\ e.args[1].v.t = "id"
                     THEN Invoke("filter", e.f, e.args[1].v.id, A, as.calls, r.v)   \* spy filter: identity
                ELSE IF e.f \in DOMAIN NamedSpyFilters /\ e.args = <<>>
                     THEN Invoke("filter", e.f, NamedSpyFilters[e.f], A, as.calls, r.v)   \* argument-less spy filter
                ELSE IF e.f \in BuiltinFilters
                     THEN IF A.sb /\ e.f \notin A.W.polF THEN RErr("security", as.calls)
                          ELSE ApplyBuiltin(e.f, r.v, as.v.xs, as.calls)
                ELSE RErr("unknown", as.calls)
      [] e.k = "attr" ->
           LET r == Eval(e.e, A, sc, calls) IN
           IF ~r.ok THEN r
           ELSE IF r.v.t = "loop" THEN ROk(LoopAttr(r.v, e.n), r.calls)
           ELSE IF r.v.t = "map" THEN ROk(MapGet(r.v, VS(NameText(e.n))), r.calls)
           ELSE IF r.v.t = "null" THEN ROk(Null, r.calls)
           \* a Go value whose method of that name returns an error: reading the attribute fails the render
           ELSE IF r.v.t = "errobj" THEN RErr("fault", r.calls)
           ELSE RErr("frag", r.calls)
      [] e.k = "item" ->
           LET r == Eval(e.e, A, sc, calls) IN
           IF ~r.ok THEN r
           ELSE LET i == Eval(e.i, A, sc, r.calls) IN
                IF ~i.ok THEN i
                ELSE IF r.v.t = "map" /\ i.v.t \in {"str", "int"} THEN ROk(MapGet(r.v, i.v), i.calls)
                ELSE IF r.v.t = "list" /\ i.v.t = "int" THEN
                        IF i.v.i >= 0 /\ i.v.i < Len(r.v.xs) THEN ROk(r.v.xs[i.v.i + 1], i.calls)
                        ELSE RErr("frag", i.calls)
                ELSE RErr("frag", i.calls)
      [] e.k = "arr" -> EvalSeq(e.es, A, sc, calls)
      [] e.k = "hash" ->
           LET ks == EvalSeq(e.ks, A, sc, calls) IN
           IF ~ks.ok THEN ks
           ELSE LET vs == EvalSeq(e.vs, A, sc, ks.calls) IN
                IF ~vs.ok THEN vs ELSE ROk(MergeMaps(VM(<<>>, <<>>), ks.v.xs, vs.v.xs), vs.calls)
      [] e.k = "test" ->
           LET r == Eval(e.e, A, sc, calls) IN
           IF ~r.ok THEN r
           ELSE LET res ==
                    CASE e.tn \in {"st", "stx"} /\ Len(e.args) = 1 /\ e.args[1].k = "lit" /\ e.args[1].v.t = "id" ->
                           Invoke("test", e.tn, e.args[1].v.id, A, r.calls, VB(TRUE))     \* spy test: true
                      [] e.tn = "defined" /\ e.e.k = "var" -> ROk(VB(e.e.n \in DOMAIN sc), r.calls)
                      \* x.k is defined: does the map have the key (x itself has been evaluated above: its failures surface)
                      [] e.tn = "defined" /\ e.e.k = "attr" ->
                           LET b == Eval(e.e.e, A, sc, calls) IN
                           IF b.v.t = "map" THEN ROk(VB(MapHas(b.v, VS(NameText(e.e.n)))), r.calls)
                           ELSE IF b.v.t = "null" THEN ROk(VB(FALSE), r.calls) ELSE RErr("frag", r.calls)
                      \* a call or a filter application that gave a value: that value is there (the operand has been evaluated
                      \* above: what fails or cannot be resolved inside it surfaces, "defined" tolerates absent names only)
                      [] e.tn = "defined" /\ e.e.k \in {"spy", "filt", "call"} /\ r.v.t # "null" -> ROk(VB(TRUE), r.calls)
                      [] e.tn = "empty" -> ROk(VB(IsEmptyVal(r.v)), r.calls)
                      [] e.tn = "null" -> ROk(VB(r.v.t = "null"), r.calls)
                      [] e.tn = "even" /\ r.v.t = "int" -> ROk(VB(r.v.i % 2 = 0), r.calls)
                      [] e.tn = "odd" /\ r.v.t = "int" -> ROk(VB(r.v.i % 2 = 1), r.calls)
                      [] e.tn \notin KnownTests -> RErr("unknown", r.calls)
                      [] OTHER -> RErr("frag", r.calls)
                IN IF ~res.ok THEN res ELSE ROk(VB(res.v.b # e.neg), res.calls)
      [] e.k = "call" ->
           IF e.f = "parent" THEN
                \* parent(): the next definition up the chain of the block being rendered,
                \* rendered with the same variables; its output is the value
                LET j == IF A.blk = "" THEN 0 ELSE LevelDefining(A.W, A.chain, A.blk, A.lvl + 1) IN
                IF j = 0 THEN RErr("frag", calls)
                ELSE LET def == BlockDef(A.W, A.chain[j], A.blk)
                         st  == Exec(def.body, [WithSelf(A, A.chain[j]) EXCEPT !.lvl = j],
                                     [St0(sc) EXCEPT !.calls = calls])
                     IN IF ~st.ok THEN RErr(st.err, st.calls) ELSE ROk(VS(st.out), st.calls)    \* the text it rendered: a string like any other
           \* a macro visible under the name wins over a built-in function of that name (C12: a macro is the
           \* same macro by every route, whatever it is called)
           ELSE IF e.f \in {"max", "min"} /\ e.f \notin DOMAIN A.fm /\ ~HasMacro(A.W, A.self, e.f) THEN
                LET as == EvalSeq(e.args, A, sc, calls) IN
                IF ~as.ok THEN as
                ELSE IF Len(as.v.xs) >= 1 /\ (\A i \in 1..Len(as.v.xs) : as.v.xs[i].t = "int")
                     THEN LET vals == {as.v.xs[i].i : i \in 1..Len(as.v.xs)} IN
                          ROk(VI(IF e.f = "max" THEN CHOOSE m \in vals : \A x \in vals : x <= m ELSE CHOOSE m \in vals : \A x \in vals : m <= x), as.calls)
                     ELSE RErr("frag", as.calls)
           ELSE IF e.f = "merge" /\ e.f \notin DOMAIN A.fm /\ ~HasMacro(A.W, A.self, e.f) THEN
                \* the function form of the merge filter: a new list of the elements of all its list arguments
                LET as == EvalSeq(e.args, A, sc, calls) IN
                IF ~as.ok THEN as
                ELSE IF Len(as.v.xs) >= 2 /\ (\A i \in 1..Len(as.v.xs) : as.v.xs[i].t = "list")
                     THEN ROk(VL(Flatten([i \in 1..Len(as.v.xs) |-> as.v.xs[i].xs])), as.calls)
                     ELSE RErr("frag", as.calls)
           ELSE IF e.f = "range" /\ e.f \notin DOMAIN A.fm /\ ~HasMacro(A.W, A.self, e.f) THEN
                LET as == EvalSeq(e.args, A, sc, calls) IN
                IF ~as.ok THEN as
                ELSE IF Len(as.v.xs) \in {2, 3} /\ (\A i \in 1..Len(as.v.xs) : as.v.xs[i].t = "int")
                     THEN LET lo == as.v.xs[1].i  hi == as.v.xs[2].i
                              stp == IF Len(as.v.xs) = 3 THEN as.v.xs[3].i ELSE 1
                          IN IF stp > 0 /\ lo <= hi
                             THEN ROk(VL([i \in 1..((hi - lo) \div stp + 1) |-> VI(lo + (i - 1) * stp)]), as.calls)
                             ELSE IF stp < 0 /\ lo >= hi
                             THEN ROk(VL([i \in 1..((lo - hi) \div (-stp) + 1) |-> VI(lo + (i - 1) * stp)]), as.calls)
                             ELSE RErr("frag", as.calls)
                     ELSE RErr("frag", as.calls)
           ELSE \* macro call by local name: defined in the lexically enclosing template,
                \* or brought in by from-import
                LET as == EvalSeq(e.args, A, sc, calls) IN
                IF ~as.ok THEN as
                ELSE IF e.f \in DOMAIN A.fm
                     THEN IF HasMacro(A.W, A.fm[e.f].tpl, A.fm[e.f].n)
                          THEN CallMacro(A.fm[e.f].tpl, A.fm[e.f].n, as.v.xs, A, sc, as.calls)
                          ELSE RErr("unknown", as.calls)
                ELSE IF HasMacro(A.W, A.self, e.f)
                     THEN CallMacro(A.self, e.f, as.v.xs, A, sc, as.calls)
                ELSE RErr("unknown", as.calls)
      [] e.k = "mcall" ->
           LET as == EvalSeq(e.args, A, sc, calls) IN
           IF ~as.ok THEN as
           ELSE LET t == IF e.al = "_self" THEN A.self
                         ELSE IF e.al \in DOMAIN A.al THEN A.al[e.al] ELSE "" IN
                IF t # "" /\ HasMacro(A.W, t, e.f) THEN CallMacro(t, e.f, as.v.xs, A, sc, as.calls)
                ELSE RErr("unknown", as.calls)
      [] OTHER -> RErr("frag", calls)

\* Bind parameters positionally; defaults are evaluated in the macro's own scope
BindParams(ps, args, i, A, msc, calls) ==
    IF i > Len(ps) THEN [ok |-> TRUE, sc |-> msc, calls |-> calls, err |-> ""]
    ELSE IF i <= Len(args) THEN BindParams(ps, args, i + 1, A, Bind(msc, ps[i].n, args[i]), calls)
    ELSE IF ps[i].hasD THEN
            LET d == Eval(ps[i].d, A, msc, calls) IN
            IF ~d.ok THEN [ok |-> FALSE, sc |-> msc, calls |-> d.calls, err |-> d.err]
            ELSE BindParams(ps, args, i + 1, A, Bind(msc, ps[i].n, d.v), d.calls)
    ELSE BindParams(ps, args, i + 1, A, Bind(msc, ps[i].n, Null), calls)

\* A macro body sees only its parameters (and what it assigns itself); it runs
\* as code of its defining template; the sandbox flag is inherited.
CallMacro(t, n, args, A, sc, calls) ==
    IF A.depth >= MaxDepth THEN RErr("frag", calls)
    ELSE LET mac == GetMacro(A.W, t, n)
             MA  == [MkA(A.W, t, A.sb) EXCEPT !.depth = A.depth + 1]
             bp  == BindParams(mac.ps, args, 1, MA, A.W.globals, calls)
         IN IF ~bp.ok THEN RErr(bp.err, bp.calls)
            ELSE LET st == Exec(mac.body, MA, [St0(bp.sc) EXCEPT !.calls = bp.calls]) IN
                 IF ~st.ok THEN RErr(st.err, st.calls)
                 ELSE ROk(VS(st.out), st.calls)    \* the text it rendered: a string like any other

Exec(body, A, st) ==
    IF ~st.ok \/ body = <<>> THEN st
    ELSE Exec(Tail(body), A, ExecStmt(Head(body), A, st))

\* printed form of a value in a print tag
PrintText(v) == IF v.t = "safe" THEN v.s ELSE TextOf(v)
CanPrint(v) == v.t = "safe" \/ Printable(v)

\* iteration items of a value: sequence of [kk, vv]
IterItems(v) ==
    CASE v.t = "list" -> [i \in 1..Len(v.xs) |-> [kk |-> VI(i - 1), vv |-> v.xs[i]]]
      [] v.t = "str"  -> [i \in 1..Len(v.s)  |-> [kk |-> VI(i - 1), vv |-> VS(<<v.s[i]>>)]]
      [] v.t = "map"  -> [i \in 1..Len(v.ks) |-> [kk |-> v.ks[i], vv |-> v.vs[i]]]
      [] OTHER        -> <<>>
Iterable(v) == v.t \in {"list", "str", "map", "null"}

ExecLoop(s, items, i, A, st, n) ==
    IF ~st.ok \/ i > n THEN st
    ELSE LET sc1 == Bind(st.sc, s.v, items[i].vv)
             sc2 == IF s.kv = "" THEN sc1 ELSE Bind(sc1, s.kv, items[i].kk)
             sc3 == Bind(sc2, "loop", [t |-> "loop", index0 |-> i - 1, length |-> n])
         IN ExecLoop(s, items, i + 1, A, Exec(s.body, A, [st EXCEPT !.sc = sc3]), n)

\* extends chain of template t (most derived first); parent names may be dynamic
ResolveChain(W, t, sc, A, calls) ==
    IF LoadErr(W, t) # "" THEN [ok |-> FALSE, err |-> LoadErr(W, t), chain |-> <<>>, calls |-> calls]
    ELSE LET body == W.tp[t]
             \* the extends tag stands at the top level of the child, first or after other definitions (blocks, macros,
             \* imports, sets): wherever it stands it makes the template a child
             xi == IF \E i \in 1..Len(body) : body[i].k = "extends"
                   THEN CHOOSE i \in 1..Len(body) : body[i].k = "extends" /\ \A j \in 1..(i - 1) : body[j].k # "extends" ELSE 0 IN
         IF xi > 0 /\ \E j \in 1..(xi - 1) : body[j].k \notin {"block", "macro", "import", "from", "set", "comment"}
         THEN [ok |-> FALSE, err |-> "frag", chain |-> <<>>, calls |-> calls]       \* (output before the tag: not determined)
         ELSE IF xi > 0 THEN
              LET r == Eval(body[xi].e, A, sc, calls) IN
              IF ~r.ok THEN [ok |-> FALSE, err |-> r.err, chain |-> <<>>, calls |-> r.calls]
              ELSE IF r.v.t # "str" \/ ~TextIsName(ResolveName(SelfText(t), r.v.s)) THEN [ok |-> FALSE, err |-> "notfound", chain |-> <<>>, calls |-> r.calls]
              ELSE LET up == ResolveChain(W, NameOfText(ResolveName(SelfText(t), r.v.s)), sc, A, r.calls) IN
                   IF ~up.ok THEN up
                   ELSE IF Len(up.chain) >= MaxDepth THEN [ok |-> FALSE, err |-> "frag", chain |-> <<>>, calls |-> up.calls]
                   ELSE [ok |-> TRUE, err |-> "", chain |-> <<t>> \o up.chain, calls |-> up.calls]
         ELSE [ok |-> TRUE, err |-> "", chain |-> <<t>>, calls |-> calls]

\* render template t as a fresh activation with scope sc; returns a state whose
\* out is the template's output appended to st.out and whose scope is st.sc
RenderTemplate(t, A0, sc, st) ==
    IF A0.depth >= MaxDepth THEN StErr(st, "frag", st.calls)
    ELSE LET A1 == [MkA(A0.W, t, A0.sb) EXCEPT !.depth = A0.depth + 1]
             ch == ResolveChain(A0.W, t, sc, A1, st.calls) IN
         IF ~ch.ok THEN StErr(st, ch.err, ch.calls)
         ELSE LET base == ch.chain[Len(ch.chain)]
                  A2 == [WithSelf(A1, base) EXCEPT !.chain = ch.chain, !.lvl = Len(ch.chain)]
                  \* the assignments a child makes at its top level are in force in everything rendered for it (its
                  \* other top-level content produces nothing): most derived template first
                  RECURSIVE ChildSets(_, _)
                  ChildSets(i, st0) ==
                      IF i >= Len(ch.chain) \/ ~st0.ok THEN st0
                      ELSE ChildSets(i + 1, Exec(SelectSeq(A0.W.tp[ch.chain[i]], LAMBDA x : x.k = "set"),
                                                  [WithSelf(A1, ch.chain[i]) EXCEPT !.chain = ch.chain, !.lvl = i], st0))
                  pre == ChildSets(1, [sc |-> sc, out |-> <<>>, calls |-> ch.calls, ok |-> TRUE, err |-> ""])
                  r  == IF ~pre.ok THEN pre ELSE Exec(A0.W.tp[base], A2, pre)
              IN IF ~r.ok THEN StErr(st, r.err, r.calls)
                 ELSE [st EXCEPT !.out = st.out \o r.out, !.calls = r.calls]

ExecStmt(s, A, st) ==
    CASE s.k = "text" -> [st EXCEPT !.out = st.out \o s.c]
      [] s.k = "comment" -> st
      [] s.k = "verbatim" -> [st EXCEPT !.out = st.out \o s.c]
      [] s.k = "print" ->
           LET r == Eval(s.e, A, st.sc, st.calls) IN
           IF ~r.ok THEN StErr(st, r.err, r.calls)
           ELSE IF ~CanPrint(r.v) THEN StErr(st, "frag", r.calls)
           ELSE [st EXCEPT !.out = st.out \o PrintText(r.v), !.calls = r.calls]
      [] s.k = "do" ->
           LET r == Eval(s.e, A, st.sc, st.calls) IN
           IF ~r.ok THEN StErr(st, r.err, r.calls) ELSE [st EXCEPT !.calls = r.calls]
      [] s.k = "set" ->
           LET r == Eval(s.e, A, st.sc, st.calls) IN
           IF ~r.ok THEN StErr(st, r.err, r.calls)
           ELSE [st EXCEPT !.sc = Bind(st.sc, s.n, r.v), !.calls = r.calls]
      [] s.k = "if" ->
           LET RECURSIVE Branch(_, _)
               Branch(i, calls) ==
                 IF i > Len(s.cs) THEN [ok |-> TRUE, err |-> "", idx |-> 0, calls |-> calls]
                 ELSE LET r == Eval(s.cs[i], A, st.sc, calls) IN
                      IF ~r.ok THEN [ok |-> FALSE, err |-> r.err, idx |-> 0, calls |-> r.calls]
                      ELSE IF Truthy(r.v) THEN [ok |-> TRUE, err |-> "", idx |-> i, calls |-> r.calls]
                      ELSE Branch(i + 1, r.calls)
               br == Branch(1, st.calls)
           IN IF ~br.ok THEN StErr(st, br.err, br.calls)
              ELSE IF br.idx > 0 THEN Exec(s.bs[br.idx], A, [st EXCEPT !.calls = br.calls])
              ELSE Exec(s.el, A, [st EXCEPT !.calls = br.calls])
      [] s.k = "for" ->
           LET r == Eval(s.seq, A, st.sc, st.calls) IN
           IF ~r.ok THEN StErr(st, r.err, r.calls)
           ELSE IF ~Iterable(r.v) THEN StErr(st, "frag", r.calls)
           ELSE LET items == IterItems(r.v)
                    st1 == [st EXCEPT !.calls = r.calls] IN
                IF items = <<>> THEN Exec(s.el, A, st1)
                ELSE LET done == ExecLoop(s, items, 1, A, st1, Len(items))
                         scA == Restore(done.sc, st.sc, s.v)
                         scB == IF s.kv = "" THEN scA ELSE Restore(scA, st.sc, s.kv)
                         scC == Restore(scB, st.sc, "loop")
                     IN [done EXCEPT !.sc = scC]
      [] s.k = "block" ->
           \* most-derived definition along the chain, substituted where the block stands
           LET j == LevelDefining(A.W, A.chain, s.n, 1)
               def == BlockDef(A.W, A.chain[j], s.n)
               r == Exec(def.body, [WithSelf(A, A.chain[j]) EXCEPT !.blk = s.n, !.lvl = j], st)
           IN r
      [] s.k = "extends" -> st            \* resolved by RenderTemplate
      [] s.k = "macro" -> st              \* definitions produce no output
      [] s.k \in {"import", "from"} ->       \* alias binding is static (ImportAliases / FromImports);
           LET r == Eval(s.e, A, st.sc, st.calls) IN          \* the statement itself loads the library
           IF ~r.ok THEN StErr(st, r.err, r.calls)
           ELSE IF r.v.t # "str" \/ ~TextIsName(ResolveName(SelfText(A.self), r.v.s)) THEN StErr(st, "notfound", r.calls)
           ELSE IF LoadErr(A.W, NameOfText(ResolveName(SelfText(A.self), r.v.s))) # ""
                THEN StErr(st, LoadErr(A.W, NameOfText(ResolveName(SelfText(A.self), r.v.s))), r.calls)
           ELSE [st EXCEPT !.calls = r.calls]
      [] s.k = "include" ->
           LET r == Eval(s.e, A, st.sc, st.calls) IN
           IF ~r.ok THEN StErr(st, r.err, r.calls)
           ELSE IF r.v.t # "str" THEN StErr(st, "frag", r.calls)
           ELSE LET w == IF s.hasWith THEN Eval(s.with, A, st.sc, r.calls) ELSE ROk(VM(<<>>, <<>>), r.calls) IN
                IF ~w.ok THEN StErr(st, w.err, w.calls)
                ELSE IF w.v.t # "map" \/ (\E i \in 1..Len(w.v.ks) : w.v.ks[i].t # "str" \/ ~TextIsName(w.v.ks[i].s))
                     THEN StErr(st, "frag", w.calls)
                ELSE LET nm == ResolveName(SelfText(A.self), r.v.s) IN
                IF ~TextIsName(nm) \/ NameOfText(nm) \notin DOMAIN A.W.tp THEN
                        IF s.ign THEN [st EXCEPT !.calls = w.calls] ELSE StErr(st, "notfound", w.calls)
                ELSE IF LoadErr(A.W, NameOfText(nm)) # "" THEN StErr(st, LoadErr(A.W, NameOfText(nm)), w.calls)
                ELSE LET base == IF s.only THEN A.W.globals ELSE st.sc
                         RECURSIVE AddAll(_, _)
                         AddAll(sc0, i) == IF i > Len(w.v.ks) THEN sc0
                                           ELSE AddAll(Bind(sc0, NameOfText(w.v.ks[i].s), w.v.vs[i]), i + 1)
                         isc == AddAll(base, 1)
                         A1 == [A EXCEPT !.sb = A.sb \/ s.sbx]
                     IN RenderTemplate(NameOfText(nm), A1, isc, [st EXCEPT !.calls = w.calls])
      [] s.k = "spaceless" ->
           \* (the tag does this itself: it is no application of a filter, the sandbox's filter list does not apply to it)
           LET inner == Exec(s.body, A, [st EXCEPT !.out = <<>>]) IN
           IF ~inner.ok THEN [inner EXCEPT !.out = st.out]
           ELSE [inner EXCEPT !.out = st.out \o SpacelessText(inner.out)]
      [] s.k = "apply" ->
           LET inner == Exec(s.body, A, [st EXCEPT !.out = <<>>]) IN
           IF ~inner.ok THEN [inner EXCEPT !.out = st.out]
           ELSE LET as == EvalSeq(s.args, A, st.sc, inner.calls) IN
                IF ~as.ok THEN StErr(st, as.err, as.calls)
                ELSE LET fr == IF Len(s.args) = 1 /\ s.args[1].k = "lit" /\ s.args[1].v.t = "id"
                               THEN Invoke("filter", s.f, s.args[1].v.id, A, as.calls, VS(inner.out))
                               ELSE IF s.f \in DOMAIN NamedSpyFilters /\ s.args = <<>>
                               THEN Invoke("filter", s.f, NamedSpyFilters[s.f], A, as.calls, VS(inner.out))
                               ELSE IF s.f \in BuiltinFilters
                               THEN IF A.sb /\ s.f \notin A.W.polF THEN RErr("security", as.calls)
                                    ELSE ApplyBuiltin(s.f, VS(inner.out), as.v.xs, as.calls)
                               ELSE RErr("unknown", as.calls)
                     IN IF ~fr.ok THEN StErr(st, fr.err, fr.calls)
                        ELSE IF ~CanPrint(fr.v) THEN StErr(st, "frag", fr.calls)
                        ELSE [inner EXCEPT !.out = st.out \o PrintText(fr.v), !.calls = fr.calls]
      [] OTHER -> StErr(st, "frag", st.calls)

\* ---------------------------------------------------------------------------
\* top level: render template `entry` of world W with context sc
\* result: [ok, out, err, calls]
\* ---------------------------------------------------------------------------
Render(W, entry, sc0) ==
    LET A0 == MkA(W, entry, FALSE)
        sc == sc0 @@ W.globals          \* the context is in front of the globals
        st == RenderTemplate(entry, A0, sc, St0(sc))
    IN [ok |-> st.ok, out |-> IF st.ok THEN st.out ELSE <<>>, err |-> st.err, calls |-> st.calls]

=============================================================================
