SPECIFICATION Spec
CONSTANTS
  Deep = FALSE
INVARIANTS
  NonInterference
  Emit
CHECK_DEADLOCK FALSE
