SPECIFICATION Spec
CONSTANTS
  RichLeaves = TRUE
  MaxOps = 1
  PosOps = 1
INVARIANTS
  ModelOK
  Emit
CHECK_DEADLOCK FALSE
