SPECIFICATION Spec
CONSTANTS
  MaxStr = 3
  MaxList = 3
  SliceRange = 6
INVARIANTS
  Emit
CHECK_DEADLOCK FALSE
