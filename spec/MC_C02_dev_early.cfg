SPECIFICATION Spec
CONSTANTS
  NG = 2
  Workload = "cold"
  EarlyTokPut = TRUE
  UnguardedPaths = FALSE
  SharedCurrent = FALSE
INVARIANTS
  NoConflictingAccess
  TokensIntact
  RelativeNameOwn
  SerialEquivalent
  SingleOwner
CHECK_DEADLOCK FALSE
VIEW View
