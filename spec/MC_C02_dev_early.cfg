SPECIFICATION Spec
CONSTANTS
  NG = 2
  Workload = "cold"
  EarlyTokPut = TRUE
  UnguardedPaths = FALSE
  SharedCurrent = FALSE
  BlindInsert = FALSE
INVARIANTS
  NoConflictingAccess
  TokensIntact
  RelativeNameOwn
  SerialEquivalent
  RegistrationLasts
  SingleOwner
CHECK_DEADLOCK FALSE
VIEW View
