SPECIFICATION Spec
CONSTANTS
  AllSubsetsUpTo = 4
INVARIANTS
  ModelOK
  Emit
CHECK_DEADLOCK FALSE
