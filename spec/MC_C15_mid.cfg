SPECIFICATION Spec
CONSTANTS
  TwoPaths = FALSE
  MaxLen = 4
INVARIANTS
  TypeOK
  Emit
PROPERTIES
  P1
  P2
  P3unchanged
  P3changed
  P4
  P5
  P6
CHECK_DEADLOCK FALSE
