------------------------------- MODULE MC_C06 -------------------------------
(***************************************************************************)
(* C06: a sandboxed include can never run a filter or function the policy  *)
(* forbids.  Ground truth is the derivation tree: Exec threads a sandbox    *)
(* flag that every derived activation inherits by construction (TwigSem:   *)
(* RenderTemplate, CallMacro, parent(), include).  TLC enumerates          *)
(*    position of the forbidden name  x  route from the sandbox boundary   *)
(*    x  {function, filter}  x  policy {forbid, allow, empty}              *)
(* and checks Confined on the model; the cases are replayed with spy       *)
(* callbacks that count invocations.                                       *)
(***************************************************************************)
EXTENDS TwigSyntax, Json

CONSTANTS Depth2       \* TRUE: also routes of depth 2
VARIABLE cs

T(s) == Text(s)
sA == <<97>>
L12 == Lit(VL(<<VI(1), VI(2)>>))

\* the forbidden callable applied to e
\* (kind "esc": the forbidden name is the built-in escape filter -- a policy may leave it out like any other)
X(kind, e) == IF kind = "fn" THEN Spy("spx", "f1", e) ELSE IF kind = "esc" THEN Filt("escape", e, <<>>) ELSE SpyF("sfx", "f1", e)
\* the same program with the forbidden function spelled differently (source level: the pieces "spx" are respelled)
Respell(ps, sp) == [i \in 1..Len(ps) |-> IF "w" \in DOMAIN ps[i] /\ ps[i].w = "spx" THEN W(sp) ELSE ps[i]]

Positions == {"print", "chainfirst", "chainlast", "chainmiddle", "chainupper", "forseq", "apply", "filtarg",
              "fnarg", "ifcond", "set", "arr", "hash", "cond", "incwith", "macroarg", "macrodefault", "binop",
              "elseif", "forbody", "testarg", "modcall", "modcall2"}
OnlyFilter == {"chainfirst", "chainlast", "chainmiddle", "chainupper", "apply"}
UsesHelpers == {"chainfirst", "chainlast", "chainmiddle", "chainupper", "filtarg", "fnarg", "incwith", "macroarg", "macrodefault"}

Frag(pos, kind) ==
    CASE pos = "print"       -> <<PrintS(X(kind, LI(1)))>>
      [] pos = "chainfirst"  -> <<PrintS(SpyF("sf", "g1", X(kind, LS(sA))))>>
      [] pos = "chainlast"   -> <<PrintS(X(kind, SpyF("sf", "g1", LS(sA))))>>
      [] pos = "chainmiddle" -> <<PrintS(SpyF("sf", "g2", X(kind, SpyF("sf", "g1", LS(sA)))))>>
      [] pos = "chainupper"  -> <<PrintS(Filt("upper", X(kind, LS(sA)), <<>>))>>
      [] pos = "forseq"      -> <<For1("i", X(kind, L12), <<PrintS(Var("i"))>>)>>
      [] pos = "forbody"     -> <<For1("i", L12, <<PrintS(X(kind, Var("i")))>>)>>
      [] pos = "apply"       -> <<Apply(IF kind = "esc" THEN "e" ELSE "sfz", <<>>, <<T(sA)>>)>>     \* the engine's apply tag takes a bare filter name
      [] pos = "filtarg"     -> <<PrintS(Filt("default", Lit(Null), <<X(kind, LI(1))>>))>>
      [] pos = "fnarg"       -> <<PrintS(Spy("sp", "g1", X(kind, LI(1))))>>
      [] pos = "ifcond"      -> <<IfElse(X(kind, LI(1)), <<T(<<84>>)>>, <<T(<<70>>)>>)>>
      [] pos = "elseif"      -> <<If(<<LB(FALSE), X(kind, LI(1))>>, <<<<T(<<88>>)>>, <<T(<<84>>)>>>>, <<T(<<70>>)>>, TRUE)>>
      [] pos = "set"         -> <<Set("z", X(kind, LI(1))), PrintS(Var("z"))>>
      [] pos = "arr"         -> <<PrintS(Item(Arr(<<X(kind, LI(1))>>), LI(0)))>>
      [] pos = "hash"        -> <<Set("h", Hash(<<LS(NT.k)>>, <<X(kind, LI(1))>>)), PrintS(Attr(Var("h"), "k"))>>
      [] pos = "cond"        -> <<PrintS(Cond(LB(TRUE), X(kind, LI(1)), LI(2)))>>
      [] pos = "binop"       -> <<PrintS(Bin("+", X(kind, LI(1)), LI(1)))>>
      [] pos = "testarg"     -> <<IfElse(Test(X(kind, LI(2)), "even", <<>>, FALSE), <<T(<<84>>)>>, <<T(<<70>>)>>)>>
      [] pos = "incwith"     -> <<Include(LS(NT.t5), Hash(<<LS(NT.z)>>, <<X(kind, LI(1))>>), TRUE, FALSE, FALSE, FALSE)>>
      [] pos = "macroarg"    -> <<Macro("mm", <<Param("z")>>, <<PrintS(Var("z"))>>), PrintS(Call("mm", <<X(kind, LI(1))>>))>>
      [] pos = "modcall"     -> <<PrintS(MCall("u", "spx", <<Lit([t |-> "id", id |-> "f1"]), LI(1)>>))>>   \* u.spx('f1', 1), u is no module
      [] pos = "modcall2"    -> <<Import(LS(NT.t5), "L"), PrintS(MCall("L", "spx", <<Lit([t |-> "id", id |-> "f1"]), LI(1)>>))>>
      [] pos = "macrodefault" -> <<Macro("mm", <<ParamD("z", X(kind, LI(1)))>>, <<PrintS(Var("z"))>>), PrintS(Call("mm", <<>>))>>

\* what the sandboxed template does before it reaches the forbidden name (nothing of it may lift the sandbox)
Pres == {"none", "spaceless0", "spaceless1", "allowed", "loopinc", "macrocall"}
PreStmts(pre) ==
    CASE pre = "spaceless0" -> <<Spaceless(<<If1(Var("nosuchvar"), <<T(<<120>>)>>)>>), Spaceless(<<>>)>>      \* bodies that render to nothing
      [] pre = "spaceless1" -> <<Spaceless(<<T(<<60, 98, 62, 32, 10>>), T(<<60, 105, 62>>), PrintS(SpyF("sf", "g3", LS(sA))), T(<<60, 47, 105, 62, 32, 60, 47, 98, 62>>)>>)>>
      [] pre = "allowed"    -> <<PrintS(SpyF("sf", "g3", Spy("sp", "g4", LS(sA)))), Apply("upper", <<>>, <<T(sA)>>)>>
      [] pre = "loopinc"    -> <<For1("j", L12, <<Include(LS(NT.t5), Hash(<<LS(NT.z)>>, <<Var("j")>>), TRUE, TRUE, FALSE, FALSE)>>)>>
      [] pre = "macrocall"  -> <<PrintS(Call("mm", <<LI(3)>>))>>
      [] OTHER -> <<>>
PreDefs(pre) == IF pre = "macrocall" THEN <<Macro("mm", <<Param("z")>>, <<PrintS(Var("z"))>>)>> ELSE <<>>
PreOf(c) == IF "pre" \in DOMAIN c THEN c.pre ELSE "none"

Routes1 == {"direct", "include", "includeonly", "includewith", "extendsbody", "extendsblock", "parent",
            "import", "from", "localmacro"}
UsesMacroRoute == {"import", "from", "localmacro", "parent"}

\* templates below the boundary for a route: t1 is the sandboxed template; fragX in the last one
RouteTp(route, frag, leafName, nextName) ==
    CASE route = "direct"       -> (leafName :> frag)
      [] route = "include"      -> (leafName :> <<T(<<105>>), Inc(LS(NT[nextName]))>>) @@ (nextName :> frag)
      [] route = "includeonly"  -> (leafName :> <<Include(LS(NT[nextName]), Lit(Null), FALSE, TRUE, FALSE, FALSE)>>) @@ (nextName :> frag)
      [] route = "includewith"  -> (leafName :> <<Include(LS(NT[nextName]), Hash(<<LS(NT.q)>>, <<LI(1)>>), TRUE, FALSE, FALSE, FALSE)>>) @@ (nextName :> frag)
      [] route = "extendsbody"  -> (leafName :> <<Extends(LS(NT[nextName])), Block("bb", <<T(<<111>>)>>)>>)
                                   @@ (nextName :> frag \o <<Block("bb", <<T(<<100>>)>>)>>)
      [] route = "extendsblock" -> (leafName :> <<Extends(LS(NT[nextName])), Block("bb", frag)>>)
                                   @@ (nextName :> <<T(<<60>>), Block("bb", <<T(<<100>>)>>), T(<<62>>)>>)
      [] route = "parent"       -> (leafName :> <<Extends(LS(NT[nextName])), Block("bb", <<T(<<112>>), PrintS(Call("parent", <<>>))>>)>>)
                                   @@ (nextName :> <<T(<<60>>), Block("bb", frag), T(<<62>>)>>)
      [] route = "import"       -> (leafName :> <<Import(LS(NT[nextName]), "L"), PrintS(MCall("L", "mw", <<>>))>>)
                                   @@ (nextName :> <<Macro("mw", <<>>, frag)>>)
      [] route = "from"         -> (leafName :> <<From(LS(NT[nextName]), <<"mw">>, <<"mw">>), PrintS(Call("mw", <<>>))>>)
                                   @@ (nextName :> <<Macro("mw", <<>>, frag)>>)
      [] route = "localmacro"   -> (leafName :> <<Macro("mw", <<>>, frag), PrintS(Call("mw", <<>>))>>)

\* fragments that define macros must stand at the top level of a template
FragNeedsTop(pos) == pos \in {"macroarg", "macrodefault"}
RouteKeepsTop(route) == route \in {"direct", "include", "includeonly", "includewith", "extendsbody"}

ModCall == {"modcall", "modcall2"}
Policies == {"forbid", "allow", "empty"}
AllowF(pol)  == CASE pol = "forbid" -> {"sf", "upper", "default"} [] pol = "allow" -> {"sf", "upper", "default", "sfx", "sfz", "escape", "e"} [] OTHER -> {}
AllowFn(pol) == CASE pol = "forbid" -> {"sp", "mm", "mw", "parent"} [] pol = "allow" -> {"sp", "mm", "mw", "parent", "spx"} [] OTHER -> {}

Cases == {[pos |-> pos, kind |-> kind, route |-> route, pol |-> pol, r2 |-> "none"]
            : pos \in Positions, kind \in {"fn", "filter"}, route \in Routes1, pol \in Policies}
         \cup (IF Depth2 THEN {[pos |-> pos, kind |-> kind, route |-> route, pol |-> pol, r2 |-> r2]
            : pos \in Positions \ ModCall, kind \in {"fn", "filter"},
              route \in {"include", "includeonly", "import", "extendsblock"},
              r2 \in Routes1 \ {"direct"}, pol \in {"forbid", "allow"}}
               \* (in the quick tier: every pair of routes for one position)
               ELSE {[pos |-> pos, kind |-> kind, route |-> route, pol |-> pol, r2 |-> r2]
                       : pos \in {"print", "forseq"}, kind \in {"fn", "filter"}, route \in {"include", "includeonly", "import", "extendsblock"},
                         r2 \in Routes1 \ {"direct"}, pol \in {"forbid", "allow"}})
PreCases == {[pos |-> pos, kind |-> kind, route |-> route, pol |-> pol, r2 |-> "none", pre |-> pre]
               : pos \in {"print", "forseq", "chainupper", "ifcond", "set"}, kind \in {"fn", "filter"}, route \in {"direct", "include", "extendsblock", "localmacro"},
                 pol \in {"forbid", "allow"}, pre \in Pres \ {"none"}}
\* the built-in escape filter as the forbidden name, on strings, in every filter position and behind every route
EscCases == {[pos |-> pos, kind |-> "esc", route |-> route, pol |-> pol, r2 |-> "none"]
               : pos \in {"print", "chainfirst", "chainlast", "chainmiddle", "chainupper", "apply", "filtarg", "set", "incwith", "cond"},
                 route \in Routes1, pol \in {"forbid", "allow"}}
\* a layout that another engine parsed and this engine was given with RegisterTemplate (a shared layout): the sandboxed
\* template extends it
ForeignCases == {[pos |-> pos, kind |-> kind, route |-> route, pol |-> pol, r2 |-> "none", fp |-> TRUE]
                   : pos \in {"print", "forseq", "chainupper", "set"}, kind \in {"fn", "filter"}, route \in {"extendsbody", "extendsblock", "parent"}, pol \in {"forbid", "allow"}}
\* a policy that is not an allow-list ("everything except ..."): the forbidden function called under another spelling is
\* either refused or unknown -- it is not run
Spellings == {"exact", "Spx", "SPX", "sPX"}
DenyCases == {[pos |-> pos, kind |-> "fn", route |-> route, pol |-> "forbid", r2 |-> "none", deny |-> sp]
                : pos \in {"print", "forseq", "ifcond", "fnarg", "set"}, route \in {"direct", "include", "extendsblock", "localmacro", "import"}, sp \in Spellings}
Universe == {"spx", "sfx", "sfz", "sp", "sf", "mm", "mw", "parent", "upper", "default", "lower", "reverse", "trim"}
Valid(c) ==
    /\ (PreOf(c) = "macrocall" => c.route \in {"direct", "include"})
    /\ (c.pos \in OnlyFilter => c.kind \in {"filter", "esc"})
    /\ (c.pos \in ModCall => c.kind = "fn" /\ c.pol = "forbid" /\ c.r2 = "none"
                             /\ (c.pos = "modcall2" => RouteKeepsTop(c.route)))
    /\ (FragNeedsTop(c.pos) => RouteKeepsTop(c.route) /\ (c.r2 = "none" \/ RouteKeepsTop(c.r2)))
    \* the empty policy only where nothing but the forbidden name is a filter/function/macro
    /\ (c.pol = "empty" => c.pos \notin UsesHelpers /\ c.route \notin UsesMacroRoute /\ c.r2 = "none")
    \* a route whose first hop leaves frag inside a macro/block cannot be continued by a template-level route
    /\ (c.r2 # "none" => c.route \in {"include", "includeonly", "import", "extendsblock"})

\* depth 2: the first hop leads to t2, whose content is the second hop's leaf
Tp(c) ==
    LET frag == PreDefs(PreOf(c)) \o PreStmts(PreOf(c)) \o Frag(c.pos, c.kind)
        below == IF c.r2 = "none" THEN RouteTp(c.route, frag, "t1", "t2")
                 ELSE LET second == RouteTp(c.r2, frag, "t2", "t3")
                      IN (CASE c.route = "include" -> ("t1" :> <<T(<<105>>), Inc(LS(NT.t2))>>)
                            [] c.route = "includeonly" -> ("t1" :> <<Include(LS(NT.t2), Lit(Null), FALSE, TRUE, FALSE, FALSE)>>)
                            [] c.route = "import" -> ("t1" :> <<Import(LS(NT.t4), "L"), PrintS(MCall("L", "mw", <<>>))>>)
                                                      @@ ("t4" :> <<Macro("mw", <<>>, <<Inc(LS(NT.t2))>>)>>)
                            [] c.route = "extendsblock" -> ("t1" :> <<Extends(LS(NT.t4)), Block("bb", <<Inc(LS(NT.t2))>>)>>)
                                                      @@ ("t4" :> <<T(<<60>>), Block("bb", <<T(<<100>>)>>), T(<<62>>)>>))
                         @@ second
    IN ("main" :> <<PrintS(Spy("spx", "o1", LI(0))), PrintS(SpyF("sfx", "o2", LI(0))), T(<<91>>),
                    Include(LS(NT.t1), Lit(Null), FALSE, FALSE, FALSE, TRUE), T(<<93>>),
                    \* after the sandboxed include the including template is as free as before it: a plain include and a
                    \* print tag that use a filter the policy does not list
                    Inc(LS(NT.t0)), Include(LS(NT.t0), Hash(<<LS(NT.q)>>, <<LI(1)>>), TRUE, FALSE, FALSE, FALSE), PrintS(Filt("lower", LS(<<82>>), <<>>))>>)
       @@ below @@ ("t5" :> <<PrintS(Var("z"))>>) @@ ("t0" :> <<PrintS(Filt("lower", LS(<<81>>), <<>>)), PrintS(Filt("reverse", LS(<<120, 121>>), <<>>))>>)

World(c) == MkW(Tp(c), AllowF(c.pol), AllowFn(c.pol), NoFault)
Ref(c) == Render(World(c), "main", EmptyFn)

\* ---- the property on the model -----------------------------------------------------
\* every callback invocation made below the sandbox boundary is allowed by the policy:
\* f1 is only ever invoked below the boundary, o1/o2 only outside
Confined(c) ==
    LET r == Ref(c) IN
    /\ (c.pol \in {"forbid", "empty"} => (~r.ok /\ (r.err = "security" \/ c.pos \in ModCall) /\ CountOf(r.calls, "f1") = 0))
    /\ (c.pol = "allow" => r.ok /\ (c.kind = "esc" \/ CountOf(r.calls, "f1") >= 1))
    /\ CountOf(r.calls, "o1") = 1 /\ CountOf(r.calls, "o2") = 1

CaseOf(c) ==
    LET ref == Ref(c)
        ids == {"f1", "g1", "g2", "g3", "g4", "o1", "o2"}
        \* the same engine after its policy was replaced: allow -> forbid revokes, forbid -> allow grants
        other == IF c.pol = "allow" THEN "forbid" ELSE IF c.pol = "forbid" THEN "allow" ELSE "empty"
        ref2 == Render(MkW(Tp(c), AllowF(other), AllowFn(other), NoFault), "main", EmptyFn)
        phase(edit) == [allowf |-> AllowF(other), allowfn |-> AllowFn(other), edit |-> edit, ok |-> ref2.ok, out |-> ref2.out,
                        err |-> IF c.pos \in ModCall THEN "any" ELSE ref2.err,
                        calls |-> IF ref2.ok THEN [id \in ids |-> CountOf(ref2.calls, id)] ELSE [id \in {"f1", "o1", "o2"} |-> CountOf(ref2.calls, id)]]
    IN [prop |-> "C06", key |-> ToJson(c),
        tags |-> {"pos:" \o c.pos, "kind:" \o c.kind, "route:" \o c.route, "pol:" \o c.pol, "r2:" \o c.r2, "pre:" \o PreOf(c)},
        entry |-> "main", ctx |-> EmptyFn,
        cfg |-> [sandbox |-> TRUE, allowf |-> AllowF(c.pol), allowfn |-> AllowFn(c.pol)]
                @@ (IF "fp" \in DOMAIN c THEN [foreigntp |-> <<"t2">>] ELSE EmptyFn),
        runs |-> {[label |-> "sandbox", tp |-> Sources(Tp(c), LMin), xcalls |-> [id \in {} |-> 0], denyfalse |-> FALSE, then |-> <<>>],
                  [label |-> "sandbox/debug", tp |-> Sources(Tp(c), LMin), xcalls |-> [id \in {} |-> 0], denyfalse |-> FALSE, then |-> <<>>, debug |-> TRUE],
                  \* (EnableSandbox(policy), then DisableSandbox(): the policy is still installed and the tag still says sandboxed)
                  [label |-> "sandbox/disabled", tp |-> Sources(Tp(c), LMin), xcalls |-> [id \in {} |-> 0], denyfalse |-> FALSE, then |-> <<>>, disablesandbox |-> TRUE],
                  [label |-> "denyfalse", tp |-> Sources(Tp(c), LMin), xcalls |-> [id \in {} |-> 0], denyfalse |-> TRUE, then |-> <<>>]}
                 \cup (IF c.pol = "empty" \/ c.pos \in ModCall THEN {} ELSE
                       {[label |-> "repolicy", tp |-> Sources(Tp(c), LMin), xcalls |-> [id \in {} |-> 0], denyfalse |-> FALSE, then |-> <<phase(FALSE)>>],
                        [label |-> "editpolicy", tp |-> Sources(Tp(c), LMin), xcalls |-> [id \in {} |-> 0], denyfalse |-> FALSE, then |-> <<phase(TRUE)>>]}),
        \* x.f() where x is not a macro library: whether that is "unknown macro" or a security
        \* violation is not stated -- any error will do, but the forbidden function must not run
        expect |-> [ok |-> ref.ok, out |-> ref.out, err |-> IF c.pos \in ModCall THEN "any" ELSE ref.err,
                    calls |-> [id \in ids |-> CountOf(ref.calls, id)],
                    always |-> IF ref.ok THEN [id \in {} |-> 0]
                               ELSE [id \in {"f1", "o1", "o2"} |-> CountOf(ref.calls, id)]]]

CaseOfDeny(c) ==
    LET ref == Ref(c)
        src == Sources(Tp(c), LMin)
        tp == IF c.deny = "exact" THEN src ELSE [n \in DOMAIN src |-> IF n = "main" THEN src[n] ELSE Respell(src[n], c.deny)]
    IN [prop |-> "C06", key |-> ToJson(c),
        tags |-> {"pos:" \o c.pos, "kind:" \o c.kind, "route:" \o c.route, "pol:deny", "spelling:" \o c.deny},
        entry |-> "main", ctx |-> EmptyFn,
        cfg |-> [sandbox |-> TRUE, allowf |-> AllowF(c.pol), allowfn |-> AllowFn(c.pol), denylist |-> TRUE, universe |-> Universe],
        runs |-> {[label |-> "denylist", tp |-> tp, xcalls |-> [id \in {} |-> 0]]},
        expect |-> [ok |-> FALSE, out |-> <<>>, err |-> IF c.deny = "exact" THEN ref.err ELSE "any", calls |-> [id \in {} |-> 0],
                    always |-> [id \in {"f1", "o1", "o2"} |-> CountOf(ref.calls, id)]]]

\* a page (not sandboxed) extends a layout and, inside its block, includes a widget sandboxed; the widget calls parent().  The
\* layout's definition of the block holds the forbidden name.  Whatever parent() means there (the widget is in no block of its
\* own: the pinned tree reports an error), nothing forbidden runs on the widget's behalf
WidgetCases == {[widget |-> w, pos |-> pos, kind |-> kind] : w \in {"plain", "with", "loop"}, pos \in {"print", "forseq", "chainupper", "set", "ifcond"}, kind \in {"fn", "filter"}}
WidgetTp(c) ==
    LET inc == CASE c.widget = "plain" -> <<Include(LS(NT.t1), Lit(Null), FALSE, FALSE, FALSE, TRUE)>>
                 [] c.widget = "with" -> <<Include(LS(NT.t1), Hash(<<LS(NT.q)>>, <<LI(1)>>), TRUE, FALSE, FALSE, TRUE)>>
                 [] OTHER -> <<For1("i", L12, <<Include(LS(NT.t1), Lit(Null), FALSE, FALSE, FALSE, TRUE)>>)>>
    IN ("main" :> <<Extends(LS(NT.t4)), Block("bb", <<T(<<91>>)>> \o inc \o <<T(<<93>>)>>)>>)
       @@ ("t1" :> <<T(<<119>>), PrintS(Call("parent", <<>>))>>)
       @@ ("t4" :> <<T(<<60>>), Block("bb", Frag(c.pos, c.kind)), T(<<62>>)>>)
CaseOfWidget(c) ==
    [prop |-> "C06", key |-> ToJson(c), tags |-> {"widget:" \o c.widget, "pos:" \o c.pos, "kind:" \o c.kind, "pol:forbid", "route:parent-from-widget"},
     entry |-> "main", ctx |-> EmptyFn, cfg |-> [sandbox |-> TRUE, allowf |-> AllowF("forbid"), allowfn |-> AllowFn("forbid")],
     runs |-> {[label |-> "widget", tp |-> Sources(WidgetTp(c), LMin), xcalls |-> [id \in {} |-> 0]],
               [label |-> "widget/debug", tp |-> Sources(WidgetTp(c), LMin), xcalls |-> [id \in {} |-> 0], debug |-> TRUE]},
     expect |-> [ok |-> FALSE, out |-> <<>>, err |-> "any", calls |-> [id \in {} |-> 0], always |-> [id \in {"f1"} |-> 0]]]

\* the forbidden name stands at the TOP LEVEL of a library that the sandboxed template imports or from-imports.  Whether loading a
\* library runs its top level at all is not stated (the pinned tree renders it and discards the output); if it runs, it runs
\* in the sandbox: the forbidden callback is never invoked
LibTopCases == {[libtop |-> r, pos |-> pos, kind |-> kind] : r \in {"from", "import", "fromininclude"}, pos \in {"print", "forseq", "chainupper", "set", "ifcond"}, kind \in {"fn", "filter"}}
LibTopTp(c) ==
    LET lib == <<Macro("mw", <<>>, <<T(<<109>>)>>)>> \o Frag(c.pos, c.kind)
        use == IF c.libtop = "import" THEN <<Import(LS(NT.t2), "L"), PrintS(MCall("L", "mw", <<>>))>> ELSE <<From(LS(NT.t2), <<"mw">>, <<"mw">>), PrintS(Call("mw", <<>>))>> IN
    ("main" :> <<T(<<91>>), Include(LS(NT.t1), Lit(Null), FALSE, FALSE, FALSE, TRUE), T(<<93>>)>>)
    @@ ("t1" :> IF c.libtop = "fromininclude" THEN <<Inc(LS(NT.t3))>> ELSE use) @@ ("t3" :> use) @@ ("t2" :> lib)
CaseOfLibTop(c) ==
    [prop |-> "C06", key |-> ToJson(c), tags |-> {"libtop:" \o c.libtop, "pos:" \o c.pos, "kind:" \o c.kind, "pol:forbid", "route:library-top-level"},
     entry |-> "main", ctx |-> EmptyFn, cfg |-> [sandbox |-> TRUE, allowf |-> AllowF("forbid"), allowfn |-> AllowFn("forbid")],
     runs |-> {[label |-> "libtop", tp |-> Sources(LibTopTp(c), LMin), xcalls |-> [id \in {} |-> 0]],
               [label |-> "libtop/debug", tp |-> Sources(LibTopTp(c), LMin), xcalls |-> [id \in {} |-> 0], debug |-> TRUE]},
     expect |-> [ok |-> TRUE, anyoutcome |-> TRUE, out |-> <<>>, noout |-> TRUE, err |-> "", calls |-> [id \in {} |-> 0], always |-> [id \in {"f1"} |-> 0]]]

\* the engine's policy is the one the library provides (NewDefaultSecurityPolicy); other engines of the process took the same and
\* opened theirs up, in place, for exactly the forbidden names: this engine's policy is its own
DefPolCases == {[defpol |-> TRUE, pos |-> pos, kind |-> kind, route |-> route, pol |-> "forbid", r2 |-> "none"]
                  : pos \in {"print", "forseq", "chainupper", "set", "ifcond", "apply"}, kind \in {"fn", "filter"}, route \in {"direct", "include", "extendsblock", "localmacro"}}
CaseOfDefPol(c) ==
    [prop |-> "C06", key |-> ToJson(c), tags |-> {"pol:default", "pos:" \o c.pos, "kind:" \o c.kind, "route:" \o c.route},
     entry |-> "main", ctx |-> EmptyFn, cfg |-> [sandbox |-> TRUE, allowf |-> {}, allowfn |-> {}],
     runs |-> {[label |-> "defaultpolicy", tp |-> Sources(Tp(c), LMin), xcalls |-> [id \in {} |-> 0], defaultpolicy |-> TRUE, foreign |-> <<"sfx", "spx", "sfz", "sf", "sp">>]},
     expect |-> [ok |-> FALSE, out |-> <<>>, err |-> "any", calls |-> [id \in {} |-> 0], always |-> [id \in {"f1"} |-> 0]]]

Init == cs \in {c \in DefPolCases : Valid(c)} \cup LibTopCases \cup WidgetCases \cup {c \in Cases \cup PreCases \cup ForeignCases \cup DenyCases \cup EscCases : Valid(c) /\ Ref(c).err # "frag"
                                  /\ Render(MkW(Tp(c), AllowF(IF c.pol = "allow" THEN "forbid" ELSE "allow"), AllowFn(IF c.pol = "allow" THEN "forbid" ELSE "allow"), NoFault), "main", EmptyFn).err # "frag"}
Next == UNCHANGED cs
Spec == Init /\ [][Next]_cs
Emit == PrintT(ToJson(IF "deny" \in DOMAIN cs THEN CaseOfDeny(cs) ELSE IF "widget" \in DOMAIN cs THEN CaseOfWidget(cs) ELSE IF "libtop" \in DOMAIN cs THEN CaseOfLibTop(cs) ELSE IF "defpol" \in DOMAIN cs THEN CaseOfDefPol(cs) ELSE CaseOf(cs)))
ModelOK == "widget" \in DOMAIN cs \/ "libtop" \in DOMAIN cs \/ "defpol" \in DOMAIN cs \/ Confined(cs)
=============================================================================
