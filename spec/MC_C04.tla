------------------------------- MODULE MC_C04 -------------------------------
(***************************************************************************)
(* C04: literal text is emitted exactly; comments and verbatim bodies are  *)
(* inert.  A source is a sequence of segments; the reference semantics     *)
(* copies literal segments to the output (Exec: text / verbatim), evaluates *)
(* tags, and ignores comments.  TLC enumerates every admissible choice of   *)
(* literal bytes (over an alphabet of byte classes, incl. invalid UTF-8 and *)
(* NUL) before and after every tag kind, every short literal alone, every   *)
(* short comment and verbatim body.  Admissible excludes only what would    *)
(* *be* a delimiter.                                                        *)
(***************************************************************************)
EXTENDS TwigSyntax, Json

CONSTANTS Side,        \* max literal bytes on each side of a tag
          Alone,       \* max length of a literal alone
          BodyLen      \* max length of comment / verbatim bodies
VARIABLE cs

\* byte classes: a SP LF CR TAB { } % # - \ " ' NUL é 0xFF 0x80
Alphabet == {97, 32, 10, 13, 9, 123, 125, 37, 35, 45, 92, 34, 39, 0, 233, -255, -128}
SmallAlphabet == {97, 32, 10, 123, 125, 37, 35, 45, 92, 39, -255}

Strs(A, n) == UNION {[1..k -> A] : k \in 0..n}

\* a literal may not contain the start of a tag
NoDelim(t) == \A i \in 1..(Len(t) - 1) : ~(t[i] = 123 /\ t[i + 1] \in {123, 37, 35})
EndsOpen(t) == t # <<>> /\ t[Len(t)] = 123
AdmText(t, beforeTag) == NoDelim(t) /\ (beforeTag => ~EndsOpen(t))
AdmComment(b) == \A i \in 1..(Len(b) - 1) : ~(b[i] = 35 /\ b[i + 1] = 125)      \* no "#}" inside
                 /\ (b # <<>> => b[Len(b)] # 35)                                  \* body + "#}" must not close early
AdmVerbatim(b) == NoDelim(b) /\ ~EndsOpen(b)

TagKinds == {"print", "printstr", "set", "iftrue", "for", "comment", "verbatim", "iffalse"}
vV == <<86>>
TagOf(k) ==
    CASE k = "print"    -> <<PrintS(Var("v"))>>
      [] k = "printstr" -> <<PrintS(LS(<<113>>))>>
      [] k = "set"      -> <<Set("z", LI(1))>>
      [] k = "iftrue"   -> <<If1(LB(TRUE), <<Text(<<105>>)>>)>>
      [] k = "iffalse"  -> <<If1(LB(FALSE), <<Text(<<105>>)>>)>>
      [] k = "for"      -> <<For1("i", Lit(VL(<<VI(1), VI(2)>>)), <<PrintS(Var("i"))>>)>>
      [] k = "comment"  -> <<Comment(<<32, 99, 32>>)>>
      [] k = "verbatim" -> <<Verbatim(<<119>>)>>

TextStmt(t) == IF t = <<>> THEN <<>> ELSE <<Text(t)>>

\* family 1: literal, tag, literal
Around == {[fam |-> "around", k |-> k, l |-> l, r |-> r] : k \in TagKinds, l \in Strs(Alphabet, Side), r \in Strs(Alphabet, Side)}
\* family 2: a literal alone
AloneC == {[fam |-> "alone", t |-> t] : t \in Strs(SmallAlphabet, Alone)}
\* family 3: comment bodies (incl. tag syntax that must not be evaluated)
SpyPrint == <<123, 123, 32, 115, 112, 40, 39, 115, 49, 39, 44, 49, 41, 32, 125, 125>>      \* {{ sp('s1',1) }}
SpyBlock == <<123, 37, 32, 115, 101, 116, 32, 122, 32, 61, 32, 115, 112, 40, 39, 115, 49, 39, 44, 49, 41, 32, 37, 125>>  \* {% set z = sp('s1',1) %}
Comments == {[fam |-> "comment", b |-> b, l |-> l] : b \in Strs(SmallAlphabet, BodyLen) \cup {SpyPrint, SpyBlock, <<32>> \o SpyPrint \o <<10>>},
                                                     l \in {<<>>, <<97>>}}
\* family 4: verbatim bodies
VarTag == <<123, 123, 32, 118, 32, 125, 125>>     \* {{ v }}  -- only in the hand-made bodies below
VerbPlaces == {"top", "macro", "loop", "block", "if"}
IfTag == <<123, 37, 32, 105, 102, 32, 118, 32, 37, 125, 120, 123, 37, 32, 101, 110, 100, 105, 102, 32, 37, 125>>   \* {% if v %}x{% endif %}
HandVerb == {VarTag, <<123, 123, 118, 125, 125>>, <<97, 32>> \o VarTag \o <<32, 98>>, IfTag, <<123, 35, 32, 99, 32, 35, 125>>, SpyPrint,
             <<10>> \o VarTag \o <<10>>, <<123, 123, 32, 32, 118, 124, 117, 112, 112, 101, 114, 32, 125, 125>>}
Verbs == {[fam |-> "verbatim", b |-> b, l |-> l, pl |-> "top"] : b \in Strs(SmallAlphabet, BodyLen) \cup HandVerb, l \in {<<>>, <<97>>}}
         \cup {[fam |-> "verbatim", b |-> b, l |-> <<>>, pl |-> pl] : b \in HandVerb, pl \in VerbPlaces}
\* family 5: two tags in a row with a literal between
Between == {[fam |-> "between", k |-> k, k2 |-> k2, m |-> m] : k \in {"print", "set", "comment", "iftrue"}, k2 \in {"print", "comment", "verbatim", "for"},
                                                                m \in Strs(SmallAlphabet, 1)}

\* family 6: what cannot be a template must be refused, not rendered with part of its text missing: an end tag that
\* closes nothing, a second block of the same name
StrayTags == {"endif", "else", "elseif x", "endfor", "endblock", "endmacro", "endverbatim", "endapply", "endspaceless"}
StrayCases == {[fam |-> "stray", tag |-> t, pre |-> p] : t \in StrayTags, p \in {"", "{% if v %}x{% endif %}", "{% for i in [1] %}{{ i }}{% endfor %}"}}
              \cup {[fam |-> "stray", tag |-> "dupblock", pre |-> p] : p \in {"", "x"}}
StraySource(c) == IF c.tag = "dupblock" THEN <<W(c.pre), W("{% block a %}x{% endblock %}m{% block a %}y{% endblock %}z")>>
                  ELSE <<W("a"), W(c.pre), W("{% "), W(c.tag), W(" %}"), W("b{{ v }}c")>>

\* family 7: literal text that some layer might take for something else -- a byte order mark, Unicode line / paragraph
\* separators and spaces, format characters, non-characters, ill-formed UTF-8 -- at the very start of a template (main,
\* included, parent, imported), of a block, a macro body, a verbatim body, and next to tags
SpecialTexts == {<<65279>>, <<65279, 65279>>, <<65279, 97>>, <<97, 65279>>, <<8232>>, <<8233>>, <<133>>, <<160>>, <<12288>>, <<8203>>, <<173>>, <<65533>>, <<128512>>,
                 <<65534>>, <<65535>>, <<0>>, <<13, 10>>, <<10, 13>>, <<11>>, <<12>>, <<127>>, <<27, 91, 48, 109>>, <<-239, -187>>, <<-192, -128>>, <<-237, -160, -128>>,
                 <<-244, -144, -128, -128>>, <<-239, -187, -191, -239, -187, -191>>, <<35, 33>>, <<60, 63>>, <<37, 33>>}
SpecialPlaces == {"only", "start", "incstart", "parentstart", "blockstart", "macrostart", "impstart", "aftercomment", "verb", "twice"}
SpecialCases == {[fam |-> "special", t |-> t, pl |-> pl] : t \in SpecialTexts, pl \in SpecialPlaces}
PV == PrintS(Var("v"))
SpecialTp(c) ==
    LET t == Text(c.t) IN
    CASE c.pl = "only"  -> ("main" :> <<t>>)
      [] c.pl = "start" -> ("main" :> <<t, PV, t>>)
      [] c.pl = "twice" -> ("main" :> <<t, PV, t, PV, t, Set("z", LI(1)), t>>)
      [] c.pl = "incstart" -> ("main" :> <<Text(<<91>>), Inc(LS(NT.t1)), Text(<<93>>)>>) @@ ("t1" :> <<t, PV>>)
      [] c.pl = "parentstart" -> ("main" :> <<Extends(LS(NT.t2)), Block("b", <<t, Text(<<99>>)>>)>>) @@ ("t2" :> <<t, Block("b", <<>>), t>>)
      [] c.pl = "blockstart" -> ("main" :> <<Block("b", <<t, PV>>), t>>)
      [] c.pl = "macrostart" -> ("main" :> <<Macro("mm", <<Param("v")>>, <<t, PV>>), t, PrintS(Call("mm", <<Var("v")>>))>>)
      [] c.pl = "impstart" -> ("main" :> <<Import(LS(NT.t1), "L"), t, PrintS(MCall("L", "mm", <<>>))>>) @@ ("t1" :> <<t, Macro("mm", <<>>, <<t>>)>>)
      [] c.pl = "aftercomment" -> ("main" :> <<Comment(<<32, 99, 32>>), t, Comment(<<>>), t>>)
      [] c.pl = "verb" -> ("main" :> <<Verbatim(c.t), t, Verbatim(c.t)>>)

\* where a verbatim block stands: the body is inert everywhere
VerbIn(c) ==
    LET vb == <<Verbatim(c.b)>> IN
    CASE "pl" \notin DOMAIN c \/ c.pl = "top" -> vb
      [] c.pl = "macro" -> <<Macro("mv", <<Param("v")>>, <<Text(<<40>>)>> \o vb \o <<Text(<<41>>)>>), PrintS(Call("mv", <<Var("v")>>))>>
      [] c.pl = "loop"  -> <<For1("v", Arr(<<Var("v"), LS(<<81, 90, 81>>)>>), vb)>>
      [] c.pl = "block" -> <<Block("bb", vb)>>
      [] c.pl = "if"    -> <<If1(LB(TRUE), vb)>>
Prog(c) ==
    CASE c.fam = "around"  -> TextStmt(c.l) \o TagOf(c.k) \o TextStmt(c.r)
      [] c.fam = "alone"   -> TextStmt(c.t)
      [] c.fam = "comment" -> TextStmt(c.l) \o <<Comment(c.b), Text(<<46>>)>>
      [] c.fam = "verbatim" -> TextStmt(c.l) \o VerbIn(c) \o <<Text(<<46>>)>>
      [] c.fam = "between" -> TagOf(c.k) \o TextStmt(c.m) \o TagOf(c.k2)

Admissible(c) ==
    CASE c.fam = "around"  -> AdmText(c.l, TRUE) /\ AdmText(c.r, FALSE)
      [] c.fam = "alone"   -> AdmText(c.t, FALSE)
      [] c.fam = "comment" -> AdmComment(c.b)
      [] c.fam = "verbatim" -> c.b \in HandVerb \/ AdmVerbatim(c.b)
      [] c.fam = "between" -> AdmText(c.m, TRUE)

Ctx == ("v" :> VS(vV))
Ref(c) == Render(MkW(("main" :> Prog(c)), {}, {}, NoFault), "main", Ctx)

\* the property on the model: output = concatenation of the literal segments and tag values
CaseOf(c) ==
    LET ref == Ref(c) IN
    [prop |-> "C04", key |-> ToJson(c),
     tags |-> {"fam:" \o c.fam} \cup (IF c.fam \in {"around", "between"} THEN {"tag:" \o c.k} ELSE {}),
     entry |-> "main", ctx |-> Ctx,
     runs |-> {[label |-> c.fam, tp |-> ("main" :> Source(Prog(c), LMin)), xcalls |-> [id \in {} |-> 0]]},
     expect |-> [ok |-> ref.ok, out |-> ref.out, err |-> ref.err, calls |-> [id \in {"s1"} |-> 0]]]

\* verbatim bodies that contain tag syntax: the property demands that they are not
\* evaluated (same output for every context, no context data, no callback invoked),
\* not that the bytes inside the inner delimiters are reproduced exactly
Ctx2 == ("v" :> VS(<<81, 90, 81>>))          \* "QZQ"
CaseOfVerbTags(c) ==
    [prop |-> "C04", key |-> ToJson(c), tags |-> {"fam:verbatim", "verbatim-tags"},
     entry |-> "main", ctx |-> Ctx, rel |-> "same",
     runs |-> <<[label |-> "ctx1", tp |-> ("main" :> Source(Prog(c), LMin)), xcalls |-> [id \in {} |-> 0]],
                [label |-> "ctx2", tp |-> ("main" :> Source(Prog(c), LMin)), xcalls |-> [id \in {} |-> 0], ctx |-> Ctx2],
                [label |-> "ctx3", tp |-> ("main" :> Source(Prog(c), LMin)), xcalls |-> [id \in {} |-> 0], ctx |-> EmptyFn]>>,
     expect |-> [ok |-> TRUE, out |-> <<>>, noout |-> TRUE, err |-> "", calls |-> [id \in {"s1"} |-> 0],
                 always |-> [id \in {"s1"} |-> 0], absent |-> <<81, 90, 81>>]]

Parts == {"around", "alone", "comment", "verbatim", "between", "stray", "special"}
SetOf(p) == CASE p = "around" -> Around [] p = "alone" -> AloneC [] p = "comment" -> Comments
              [] p = "verbatim" -> Verbs [] p = "between" -> Between [] p = "stray" -> StrayCases [] p = "special" -> SpecialCases

\* partitions: the big family is cut by tag kind and left literal so that TLC's workers share it
Init == cs \in {[part |-> p, k |-> "", l |-> <<>>] : p \in Parts \ {"around"}}
             \cup {[part |-> "around", k |-> k, l |-> l] : k \in TagKinds, l \in Strs(Alphabet, Side)}
Next == "part" \in DOMAIN cs /\
        cs' \in (IF cs.part = "around"
                 THEN {c \in {[fam |-> "around", k |-> cs.k, l |-> cs.l, r |-> r] : r \in Strs(Alphabet, Side)} : Admissible(c)}
                 ELSE {c \in SetOf(cs.part) : c.fam \in {"stray", "special"} \/ Admissible(c)})
Spec == Init /\ [][Next]_cs
IsCase == "fam" \in DOMAIN cs
CaseOfSpecial(c) ==
    LET ref == Render(MkW(SpecialTp(c), {}, {}, NoFault), "main", Ctx) IN
    [prop |-> "C04", key |-> ToJson(c), tags |-> {"fam:special", "pl:" \o c.pl}, entry |-> "main", ctx |-> Ctx,
     runs |-> {[label |-> "special", tp |-> Sources(SpecialTp(c), LMin), xcalls |-> [id \in {} |-> 0]]},
     expect |-> [ok |-> ref.ok, out |-> ref.out, err |-> ref.err, calls |-> [id \in {} |-> 0]]]
CaseOfStray(c) ==
    [prop |-> "C04", key |-> ToJson(c), tags |-> {"fam:stray", "tag:" \o c.tag}, entry |-> "main", ctx |-> Ctx,
     runs |-> {[label |-> "stray", tp |-> ("main" :> StraySource(c)), xcalls |-> [id \in {} |-> 0]]},
     expect |-> [ok |-> FALSE, out |-> <<>>, err |-> "any", calls |-> [id \in {} |-> 0]]]
Emit == IsCase => PrintT(ToJson(IF cs.fam = "stray" THEN CaseOfStray(cs) ELSE IF cs.fam = "special" THEN CaseOfSpecial(cs) ELSE IF cs.fam = "verbatim" /\ cs.b \in HandVerb THEN CaseOfVerbTags(cs) ELSE CaseOf(cs)))
ModelOK == (IsCase /\ cs.fam \notin {"stray", "special"}) => Ref(cs).ok
=============================================================================
