------------------------------- MODULE MC_C07 -------------------------------
(***************************************************************************)
(* C07: the escape filter neutralises every HTML-significant character.    *)
(* A pure function: TLC is the exhaustive small-scope generator (every     *)
(* string up to MaxLen over an alphabet of special characters, reference   *)
(* fragments, multi-byte and invalid bytes, NUL) x every position a filter *)
(* can be applied in x both names, and -- in Trace_C07 -- the oracle:      *)
(* ValidEscape(in, out) is evaluated by TLC on the output the engine       *)
(* produced.  escape == e is checked as a metamorphic pair.                *)
(***************************************************************************)
EXTENDS TwigSyntax, Json

CONSTANTS MaxLen,      \* strings up to this length in every position
          MaxLenPrint  \* strings up to this length in the print position only
VARIABLE cs

\* < > & " ' a ; # 3 9 é € 0xFF NUL
Alphabet == {60, 62, 38, 34, 39, 97, 59, 35, 51, 57, 233, 8364, -255, 0}
Strs(n) == UNION {[1..k -> Alphabet] : k \in 0..n}
Seeds == { <<38, 97, 109, 112, 59>>, <<38, 35, 51, 57, 59>>, <<38, 108, 116, 59, 60>>,
           <<60, 115, 99, 114, 105, 112, 116, 62>>, <<97, 32, 60, 32, 98, 32, 38, 38, 32, 99>>,
           \* backslashes next to quotes (as literals in the source they are written with escapes)
           <<60, 98, 62, 92, 39>>, <<92, 39>>, <<92, 92, 39>>, <<39, 92>>, <<92>>, <<60, 92, 92>>, <<92, 34, 60>> }

Positions == {"print", "afterfilter", "beforefilter", "apply", "macro", "include", "ifcond", "set", "concat",
              "afterraw", "afterrawtrim", "twice", "twicetrim", "applytwice", "settwice", "mixed",
              "nestedchain", "nestedarg", "nestedboth", "sandboxdefault", "foreign", "forseq",
              "litdefault", "litformat", "litreplace", "applychain", "applychain2", "applyargs",
              "foreigninc", "literal", "literalset", "macroout", "macrooutset", "macrooutarg", "parentset", "parentprint"}
OtherName(f) == IF f = "e" THEN "escape" ELSE "e"

\* program for filter name f applied to variable s in position pos; pre/post are the
\* literal bytes expected around the escaped text
Prog(pos, f) ==
    CASE pos = "print"        -> ("main" :> <<Text(<<91>>), PrintS(Filt(f, Var("s"), <<>>)), Text(<<93>>)>>)
      [] pos = "afterfilter"  -> ("main" :> <<Text(<<91>>), PrintS(Filt(f, Filt("default", Var("s"), <<LS(<<100>>)>>), <<>>)), Text(<<93>>)>>)
      [] pos = "beforefilter" -> ("main" :> <<Text(<<91>>), PrintS(Filt("default", Filt(f, Var("s"), <<>>), <<LS(<<100>>)>>)), Text(<<93>>)>>)
      [] pos = "apply"        -> ("main" :> <<Text(<<91>>), Apply(f, <<>>, <<PrintS(Var("s"))>>), Text(<<93>>)>>)
      [] pos = "macro"        -> ("main" :> <<Macro("mm", <<Param("x")>>, <<Text(<<60>>), PrintS(Filt(f, Var("x"), <<>>)), Text(<<62>>)>>),
                                             Text(<<91>>), PrintS(Call("mm", <<Var("s")>>)), Text(<<93>>)>>)
      [] pos = "include"      -> ("main" :> <<Text(<<91>>), Inc(LS(NT.t1)), Text(<<93>>)>>) @@ ("t1" :> <<PrintS(Filt(f, Var("s"), <<>>))>>)
      [] pos = "ifcond"       -> ("main" :> <<Text(<<91>>), If1(LB(TRUE), <<PrintS(Filt(f, Var("s"), <<>>))>>), Text(<<93>>)>>)
      [] pos = "set"          -> ("main" :> <<Set("z", Filt(f, Var("s"), <<>>)), Text(<<91>>), PrintS(Var("z")), Text(<<93>>)>>)
      \* raw marks a value as safe for automatic escaping; an explicit escape after it still escapes
      [] pos = "afterraw"     -> ("main" :> <<Text(<<91>>), PrintS(Filt(f, Filt("raw", Var("s"), <<>>), <<>>)), Text(<<93>>)>>)
      [] pos = "afterrawtrim" -> ("main" :> <<Text(<<91>>), PrintS(Filt("trim", Filt(f, Filt("raw", Var("s"), <<>>), <<>>), <<>>)), Text(<<93>>)>>)
      \* the filter applied to its own output escapes again (the "&" of every reference)
      [] pos = "twice"        -> ("main" :> <<Text(<<91>>), PrintS(Filt(f, Filt(f, Var("s"), <<>>), <<>>)), Text(<<93>>)>>)
      [] pos = "twicetrim"    -> ("main" :> <<Text(<<91>>), PrintS(Filt(f, Filt(f, Filt("trim", Var("s"), <<>>), <<>>), <<>>)), Text(<<93>>)>>)
      [] pos = "mixed"        -> ("main" :> <<Text(<<91>>), PrintS(Filt(OtherName(f), Filt(f, Var("s"), <<>>), <<>>)), Text(<<93>>)>>)
      [] pos = "applytwice"   -> ("main" :> <<Text(<<91>>), Apply(f, <<>>, <<PrintS(Filt(f, Var("s"), <<>>))>>), Text(<<93>>)>>)
      [] pos = "settwice"     -> ("main" :> <<Set("z", Filt(f, Var("s"), <<>>)), Text(<<91>>), PrintS(Filt(f, Var("z"), <<>>)), Text(<<93>>)>>)
      \* a chain of filters whose subject, or whose argument, is itself a chain of filters
      [] pos = "nestedchain"  -> ("main" :> <<Text(<<91>>), PrintS(Filt(f, Filt("trim", Bin("~", Filt("trim", Filt("trim", Var("s"), <<>>), <<>>), LS(<<>>)), <<>>), <<>>)), Text(<<93>>)>>)
      [] pos = "nestedarg"    -> ("main" :> <<Text(<<91>>), PrintS(Filt(f, Filt("default", Var("nosuchvar"), <<Filt("trim", Filt("trim", Var("s"), <<>>), <<>>)>>), <<>>)), Text(<<93>>)>>)
      [] pos = "nestedboth"   -> ("main" :> <<Text(<<91>>), PrintS(Filt(f, Filt("trim", Filt("default", Filt("trim", Filt("trim", LS(<<>>), <<>>), <<>>),
                                                                                          <<Filt(f, Filt("trim", Filt("raw", Var("s"), <<>>), <<>>), <<>>)>>), <<>>), <<>>)), Text(<<93>>)>>)
      \* inside a sandboxed include under the policy the engine provides by default; other engines of the process redefine the names
      [] pos = "sandboxdefault" -> ("main" :> <<Text(<<91>>), Include(LS(NT.t1), Lit(Null), FALSE, FALSE, FALSE, TRUE), Text(<<93>>)>>) @@ ("t1" :> <<PrintS(Filt(f, Var("s"), <<>>))>>)
      [] pos = "foreign"      -> ("main" :> <<Text(<<91>>), PrintS(Filt(f, Var("s"), <<>>)), Text(<<93>>)>>)
      [] pos = "foreigninc"   -> ("main" :> <<Text(<<91>>), Inc(LS(NT.t1)), Text(<<93>>)>>) @@ ("t1" :> <<For1("i", Arr(<<Var("s")>>), <<PrintS(Filt(f, Var("i"), <<>>))>>)>>)
      [] pos = "forseq"       -> ("main" :> <<Text(<<91>>), For1("i", Arr(<<Var("s")>>), <<PrintS(Filt(f, Var("i"), <<>>))>>), Text(<<93>>)>>)
      \* the subject of the chain is a literal, the data arrive through an argument (and differ from render to render)
      [] pos = "litdefault"   -> ("main" :> <<Text(<<91>>), PrintS(Filt(f, Filt("default", LS(<<>>), <<Var("s")>>), <<>>)), Text(<<93>>)>>)
      [] pos = "litformat"    -> ("main" :> <<Text(<<91>>), PrintS(Filt(f, Filt("format", LS(<<37, 115>>), <<Var("s")>>), <<>>)), Text(<<93>>)>>)
      [] pos = "litreplace"   -> ("main" :> <<Text(<<91>>), PrintS(Filt(f, Filt("replace", LS(<<81>>), <<LS(<<81>>), Var("s")>>), <<>>)), Text(<<93>>)>>)
      \* (raw source: a chain of filters, a filter with arguments on the apply tag -- constructs the engine may refuse)
      [] pos = "applychain"   -> ("main" :> <<Text(<<91>>), RawStmt(<<W("{% apply trim|"), W(f), W(" %}{{ s }}{% endapply %}")>>), Text(<<93>>)>>)
      [] pos = "applychain2"  -> ("main" :> <<Text(<<91>>), RawStmt(<<W("{% apply raw|trim|"), W(f), W(" %}{{ s }}{% endapply %}")>>), Text(<<93>>)>>)
      [] pos = "applyargs"    -> ("main" :> <<Text(<<91>>), RawStmt(<<W("{% apply "), W(f), W("('html') %}{{ s }}{% endapply %}")>>), Text(<<93>>)>>)
      \* the string stands in the source as a literal
      [] pos = "literal"      -> ("main" :> <<Text(<<91>>), PrintS(Filt(f, Lit(VS(<<>>)), <<>>)), Text(<<93>>)>>)     \* (placeholder: see ProgOf)
      [] pos = "literalset"   -> ("main" :> <<Text(<<91>>), PrintS(Filt(f, Lit(VS(<<>>)), <<>>)), Text(<<93>>)>>)
      \* what a macro rendered (markup of its own around its argument) is a string like any other: escaping it escapes all of it
      [] pos = "macroout"     -> ("main" :> <<Macro("mm", <<Param("x")>>, <<Text(<<60>>), PrintS(Var("x")), Text(<<62>>)>>),
                                             Text(<<91>>), PrintS(Filt(f, Call("mm", <<Var("s")>>), <<>>)), Text(<<93>>)>>)
      [] pos = "macrooutset"  -> ("main" :> <<Macro("mm", <<Param("x")>>, <<Text(<<60>>), PrintS(Var("x")), Text(<<62>>)>>),
                                             Set("z", Call("mm", <<Var("s")>>)), Text(<<91>>), PrintS(Filt(f, Var("z"), <<>>)), Text(<<93>>)>>)
      [] pos = "macrooutarg"  -> ("main" :> <<Macro("mm", <<Param("x")>>, <<Text(<<60>>), PrintS(Var("x")), Text(<<62>>)>>), Macro("id", <<Param("y")>>, <<PrintS(Filt(f, Var("y"), <<>>))>>),
                                             Text(<<91>>), PrintS(Call("id", <<Call("mm", <<Var("s")>>)>>)), Text(<<93>>)>>)
      \* what parent() rendered, escaped and kept in a variable while other text is written, then printed
      [] pos = "parentset"    -> ("main" :> <<Extends(LS(NT.t1)), Block("bb", <<Set("p", Filt(f, Call("parent", <<>>), <<>>)), Text(<<91, 60, 104, 49, 32, 99, 108, 97, 115, 115, 61, 34, 116, 34, 62>>),
                                                                                  PrintS(Var("p")), Text(<<60, 47, 104, 49, 62, 93>>)>>)>>)
                                 @@ ("t1" :> <<Block("bb", <<PrintS(Var("s"))>>)>>)
      [] pos = "parentprint"  -> ("main" :> <<Extends(LS(NT.t1)), Block("bb", <<Text(<<91>>), PrintS(Filt(f, Call("parent", <<>>), <<>>)), Text(<<93>>)>>)>>)
                                 @@ ("t1" :> <<Block("bb", <<Text(<<60>>), PrintS(Var("s")), Text(<<62>>)>>)>>)
      [] pos = "concat"       -> ("main" :> <<Text(<<91>>), PrintS(Bin("~", Filt(f, Var("s"), <<>>), LS(<<122>>))), Text(<<93>>)>>)
ProgOf(c, f) == CASE c.pos = "literal" -> ("main" :> <<Text(<<91>>), PrintS(Filt(f, Lit(c.v), <<>>)), Text(<<93>>)>>)
                  [] c.pos = "literalset" -> ("main" :> <<Set("z", Bin("~", Lit(c.v), LS(<<>>))), Text(<<91>>), PrintS(Filt(f, Var("z"), <<>>)), Text(<<93>>)>>)
                  [] OTHER -> Prog(c.pos, f)
Pre(pos)  == CASE pos = "macro" -> <<91, 60>> [] pos = "parentset" -> <<91, 60, 104, 49, 32, 99, 108, 97, 115, 115, 61, 34, 116, 34, 62>> [] OTHER -> <<91>>
Post(pos) == CASE pos = "macro" -> <<62, 93>> [] pos = "concat" -> <<122, 93>> [] pos = "parentset" -> <<60, 47, 104, 49, 62, 93>> [] OTHER -> <<93>>
\* the text that is escaped: default('d') replaces the empty string before / after
InText(pos, v) == IF pos \in {"afterfilter"} /\ TextOf(v) = <<>> THEN <<100>>
                  ELSE IF pos \in {"macroout", "macrooutset", "macrooutarg", "parentprint"} THEN <<60>> \o TextOf(v) \o <<62>> ELSE TextOf(v)
WholeIsD(pos, v) == pos = "beforefilter" /\ TextOf(v) = <<>>

\* non-string values whose text form holds markup
Markup == {<<60, 98, 62>>, <<39, 120>>, <<97, 38, 98>>, <<34>>}
\* (enum / uenum / fenum: types whose underlying kind is int / uint8 / float64 and whose String method gives the text)
GoValues == {VGo(k, m) : k \in {"bytes", "named", "stringer", "err", "enum", "uenum", "fenum"}, m \in Markup}
\* integers beyond the range of int64 / at its ends
BigInts == {VBig(<<57, 50, 50, 51, 51, 55, 50, 48, 51, 54, 56, 53, 52, 55, 55, 53, 56, 48, 56>>),       \* 9223372036854775808
            VBig(<<49, 56, 52, 52, 54, 55, 52, 52, 48, 55, 51, 55, 48, 57, 53, 53, 49, 54, 49, 53>>),    \* 18446744073709551615
            VBig(<<57, 50, 50, 51, 51, 55, 50, 48, 51, 54, 56, 53, 52, 55, 55, 53, 56, 48, 55>>),        \* 9223372036854775807
            VBig(<<45, 57, 50, 50, 51, 51, 55, 50, 48, 51, 54, 56, 53, 52, 55, 55, 53, 56, 48, 56>>)}   \* -9223372036854775808
Values == {VS(s) : s \in Strs(MaxLen) \cup Seeds} \cup {VI(5), VI(-3), Null} \cup GoValues \cup BigInts
PrintOnly == {VS(s) : s \in Strs(MaxLenPrint) \ Strs(MaxLen)}
\* (what the format filter makes of a value that is not a string is Go's business: %!s(int=5))
Cases == {c \in {[pos |-> p, v |-> v] : p \in Positions, v \in Values} : c.pos \in {"litformat", "literal", "literalset"} => (c.v.t = "str" /\ \A i \in 1..Len(c.v.s) : c.v.s[i] > 0)} \cup {[pos |-> "print", v |-> v] : v \in PrintOnly}

\* (the policy the engine provides by default allows escape -- so the documentation -- and hence its alias)
Ref(c, f) == Render(MkW(ProgOf(c, f), {"escape", "e"}, {}, NoFault), "main", ("s" :> c.v))

MayFail == {"applychain", "applychain2", "applyargs"}
\* ("rerender": the same engine renders again with another value of s; a fresh engine decides what that must give)
RunOpts(pos) == CASE pos = "sandboxdefault" -> [defaultpolicy |-> TRUE]
                  [] pos \in {"litdefault", "litformat", "litreplace", "print", "set", "macro"} -> [rerender |-> ("s" :> VS(<<60, 122, 62>>))]
                  [] pos \in {"foreign", "foreigninc"} -> [foreign |-> <<"e", "escape", "trim", "raw">>]
                  [] OTHER -> EmptyFn
CaseOf(c) ==
    [prop |-> "C07", key |-> ToJson(c),
     tags |-> {"pos:" \o c.pos, "vt:" \o c.v.t},
     entry |-> "main", ctx |-> ("s" :> c.v), rel |-> "same",
     aux |-> [in |-> InText(c.pos, c.v), pre |-> Pre(c.pos), post |-> Post(c.pos), isd |-> WholeIsD(c.pos, c.v),
              twice |-> c.pos \in {"twice", "twicetrim", "applytwice", "settwice", "mixed", "nestedboth"},
              mayfail |-> c.pos \in MayFail],
     runs |-> <<[label |-> "escape", tp |-> Sources(ProgOf(c, "escape"), LMin), xcalls |-> [id \in {} |-> 0]] @@ RunOpts(c.pos),
                [label |-> "e", tp |-> Sources(ProgOf(c, "e"), LMin), xcalls |-> [id \in {} |-> 0]] @@ RunOpts(c.pos)>>,
     \* the exact spelling of a reference is not fixed by the property: the output is judged by Trace_C07
     expect |-> [ok |-> TRUE, out |-> <<>>, noout |-> TRUE, err |-> "", calls |-> [id \in {} |-> 0], anyoutcome |-> c.pos \in MayFail]]

Parts == Positions
Init == cs \in {[part |-> p] : p \in Parts}
Next == "part" \in DOMAIN cs /\ cs' \in {c \in Cases : c.pos = cs.part}
Spec == Init /\ [][Next]_cs
IsCase == "v" \in DOMAIN cs
Emit == IsCase => PrintT(ToJson(CaseOf(cs)))

\* model-level: the reference escape satisfies the property's three clauses
RECURSIVE Unescape(_)
Unescape(s) ==
    IF s = <<>> THEN <<>>
    ELSE IF s[1] = cAMP THEN
            LET hit == {c \in HtmlSpecial : IsPrefixOf(EscOne(c), s)} IN
            IF hit = {} THEN <<s[1]>> \o Unescape(Tail(s))
            ELSE LET c == CHOOSE x \in hit : TRUE IN <<c>> \o Unescape(Drop(s, Len(EscOne(c))))
    ELSE <<s[1]>> \o Unescape(Tail(s))
RefEscapeOK ==
    IsCase /\ cs.v.t = "str" /\ cs.pos \notin (MayFail \cup {"litformat", "litreplace"}) =>
        LET o == Escape(cs.v.s) IN
        /\ ValidEscape(cs.v.s, o)
        /\ \A i \in 1..Len(o) : o[i] \notin {cLT, cGT, cDQ, cSQ}
        /\ Unescape(o) = cs.v.s
        /\ (Ref(cs, "escape").ok /\ Ref(cs, "escape").out = Ref(cs, "e").out)
=============================================================================
