----------------------------- MODULE TwigValues -----------------------------
(***************************************************************************)
(* The value universe of the reference semantics: tagged records with      *)
(* type-specific field names, so that TLC never compares an integer with   *)
(* a string.  Strings are code-point sequences (TwigText).                 *)
(*                                                                         *)
(*   [t |-> "null"]                                                        *)
(*   [t |-> "bool", b |-> BOOLEAN]                                         *)
(*   [t |-> "int",  i |-> Int]                                             *)
(*   [t |-> "dec",  m |-> Int, e |-> Nat]      m * 10^-e, exact decimal    *)
(*   [t |-> "str",  s |-> Seq(Int)]                                        *)
(*   [t |-> "list", xs |-> Seq(Value), g |-> GoType]                       *)
(*   [t |-> "map",  ks |-> Seq(Value), vs |-> Seq(Value), g |-> GoType]    *)
(*   [t |-> "obj",  shape |-> STRING, ptr |-> BOOLEAN, fs |-> Seq(Value)]  *)
(*                                                                         *)
(* g says which Go type the harness builds for a context value ("any" =    *)
(* []interface{} / map[string]interface{}; "strs" = []string; "ints" =     *)
(* []int; "mss" = map[string]string; "msi" = map[string]int ...).  The     *)
(* reference semantics never looks at g.                                   *)
(***************************************************************************)
EXTENDS TwigText

Null      == [t |-> "null"]
VB(b)     == [t |-> "bool", b |-> b]
VI(i)     == [t |-> "int", i |-> i]
VS(s)     == [t |-> "str", s |-> s]
VD(m, e)  == [t |-> "dec", m |-> m, e |-> e]
VL(xs)    == [t |-> "list", xs |-> xs, g |-> "any"]
VLg(xs,g) == [t |-> "list", xs |-> xs, g |-> g]
VM(ks,vs) == [t |-> "map", ks |-> ks, vs |-> vs, g |-> "any"]
VMg(ks,vs,g) == [t |-> "map", ks |-> ks, vs |-> vs, g |-> g]

IsNull(v) == v.t = "null"
IsInt(v)  == v.t = "int"
IsStr(v)  == v.t = "str"
IsBool(v) == v.t = "bool"
IsList(v) == v.t = "list"
IsMap(v)  == v.t = "map"

\* The property's falsy set: false, 0, "", null, [], {} -- everything else truthy.
Truthy(v) ==
    CASE v.t = "null" -> FALSE
      [] v.t = "bool" -> v.b
      [] v.t = "int"  -> v.i # 0
      [] v.t = "dec"  -> v.m # 0
      [] v.t = "str"  -> v.s # <<>>
      [] v.t = "list" -> v.xs # <<>>
      [] v.t = "map"  -> v.ks # <<>>
      \* a defined or sized Go type (type Flag bool, int8, float32 ...) is as truthy as its underlying value
      [] v.t = "named" -> (CASE v.u.t = "bool" -> v.u.b [] v.u.t = "int" -> v.u.i # 0 [] v.u.t = "dec" -> v.u.m # 0
                             [] v.u.t = "str" -> v.u.s # <<>> [] OTHER -> TRUE)
      [] v.t = "nilptr" -> FALSE         \* a nil pointer of some Go type is null
      [] OTHER        -> TRUE

\* Printed form where the property fixes one (null -> "", int -> decimal digits,
\* string -> itself).  Booleans, lists, maps are never printed directly by the
\* generators (they are observed through `if` or through the harness dump filter).
\* [t |-> "gostr", kind, s]: a Go value that is not a string but has a text form: kind in
\* bytes ([]byte) | named (type T string) | stringer (String() method) | err (error)
VGo(kind, s) == [t |-> "gostr", kind |-> kind, s |-> s]
VBig(digits) == [t |-> "int", i |-> 0, big |-> digits]        \* an integer given by its decimal digits (with a leading - if negative)
VN(u, kind) == [t |-> "named", u |-> u, kind |-> kind]   \* kind: def | i8 | i64 | u16 | u64 | f32
\* exact decimals m * 10^-e: canonical text has no trailing zeros, no "-0"
RECURSIVE Pow10(_)
Pow10(k) == IF k = 0 THEN 1 ELSE 10 * Pow10(k - 1)
RECURSIVE StripZeros(_, _)
StripZeros(m, e) == IF e > 0 /\ m % 10 = 0 THEN StripZeros(m \div 10, e - 1) ELSE [m |-> m, e |-> e]
RECURSIVE PadDigits(_, _)
PadDigits(ds, n) == IF Len(ds) >= n THEN ds ELSE PadDigits(<<48>> \o ds, n)
DecText(m0, e0) ==
    LET c == StripZeros(m0, e0)
        a == IF c.m < 0 THEN -c.m ELSE c.m
        ip == a \div Pow10(c.e)
        fp == a % Pow10(c.e)
    IN (IF c.m < 0 THEN <<45>> ELSE <<>>) \o NatDigits(ip)
       \o (IF c.e = 0 THEN <<>> ELSE <<46>> \o PadDigits(NatDigits(fp), c.e))
\* rounding to p decimal places (p may be negative); methods common (ties away from zero), floor, ceil
RoundDec(m, e, p, method) ==
    IF p >= e THEN [m |-> m, e |-> e]
    ELSE LET scale == Pow10(e - p)
             q == m \div scale          \* floor
             r == m % scale             \* 0 <= r < scale
             q2 == CASE method = "floor" -> q
                     [] method = "ceil" -> IF r > 0 THEN q + 1 ELSE q
                     [] OTHER -> IF 2 * r > scale THEN q + 1 ELSE IF 2 * r < scale THEN q ELSE (IF m >= 0 THEN q + 1 ELSE q)
         IN IF p >= 0 THEN [m |-> q2, e |-> p] ELSE [m |-> q2 * Pow10(-p), e |-> 0]
\* number_format: the exact decimal m * 10^-e rounded to p >= 0 places, digits grouped in threes from the right.
\* Which way an exact tie goes is not stated by any property: NumFmtDetermined is false there and the generators drop
\* the case.  A negative number that rounds to zero is zero (there is no negative zero in decimal arithmetic).
RECURSIVE GroupDigits(_, _)
GroupDigits(ds, ts) == IF Len(ds) <= 3 THEN ds
                       ELSE GroupDigits(SubSeq(ds, 1, Len(ds) - 3), ts) \o ts \o SubSeq(ds, Len(ds) - 2, Len(ds))
NumFmtTie(m, e, p) == p < e /\ 2 * (m % Pow10(e - p)) = Pow10(e - p)
NumFmtScaled(m, e, p) == IF p >= e THEN m * Pow10(p - e) ELSE RoundDec(m, e, p, "common").m
NumFmtDetermined(m, e, p) == ~NumFmtTie(m, e, p)
NumFmtText(m, e, p, dp, ts) ==
    LET q == NumFmtScaled(m, e, p)
        a == IF q < 0 THEN -q ELSE q
    IN (IF q < 0 THEN <<45>> ELSE <<>>) \o GroupDigits(NatDigits(a \div Pow10(p)), ts)
       \o (IF p = 0 THEN <<>> ELSE dp \o PadDigits(NatDigits(a % Pow10(p)), p))
Printable(v) == v.t \in {"null", "int", "str", "gostr", "dec"}
TextOf(v) ==
    CASE v.t = "null" -> <<>>
      [] v.t = "int"  -> IF "big" \in DOMAIN v THEN v.big ELSE IntText(v.i)      \* big: the digits of an integer beyond TLC's range
      [] v.t = "str"  -> v.s
      [] v.t = "gostr" -> v.s
      [] v.t = "dec" -> DecText(v.m, v.e)
      [] OTHER        -> <<63, 63>>          \* "??" never expected: generators exclude it

\* map lookup by key value (keys are str or int values); Null when absent
RECURSIVE IndexOfKey(_, _, _)
IndexOfKey(ks, k, i) == IF i > Len(ks) THEN 0 ELSE IF ks[i] = k THEN i ELSE IndexOfKey(ks, k, i + 1)
MapHas(m, k) == IndexOfKey(m.ks, k, 1) # 0
MapGet(m, k) == LET i == IndexOfKey(m.ks, k, 1) IN IF i = 0 THEN Null ELSE m.vs[i]
MapPut(m, k, v) ==
    LET i == IndexOfKey(m.ks, k, 1) IN
    IF i = 0 THEN [m EXCEPT !.ks = Append(m.ks, k), !.vs = Append(m.vs, v)]
    ELSE [m EXCEPT !.vs[i] = v]

\* values that compare numerically
NumEq(a, b) == a.t = "int" /\ b.t = "int" /\ a.i = b.i

\* Loose equality restricted to the fragment the generators use: same type.
SameTypeEq(a, b) ==
    CASE a.t = "int"  /\ b.t = "int"  -> a.i = b.i
      [] a.t = "str"  /\ b.t = "str"  -> a.s = b.s
      [] a.t = "bool" /\ b.t = "bool" -> a.b = b.b
      [] a.t = "null" /\ b.t = "null" -> TRUE
      [] OTHER -> FALSE

RECURSIVE Pow(_, _)
Pow(b, e) == IF e = 0 THEN 1 ELSE b * Pow(b, e - 1)

Abs(n) == IF n < 0 THEN -n ELSE n
\* TLC integers are 32-bit: the models stay within +-10^9 (inside the property's +-2^53)
Lim53 == 1000000000

=============================================================================
