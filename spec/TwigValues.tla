----------------------------- MODULE TwigValues -----------------------------
(***************************************************************************)
(* The value universe of the reference semantics: tagged records with      *)
(* type-specific field names, so that TLC never compares an integer with   *)
(* a string.  Strings are code-point sequences (TwigText).                 *)
(*                                                                         *)
(*   [t |-> "null"]                                                        *)
(*   [t |-> "bool", b |-> BOOLEAN]                                         *)
(*   [t |-> "int",  i |-> Int]                                             *)
(*   [t |-> "dec",  m |-> Int, e |-> Nat]      m * 10^-e, exact decimal    *)
(*   [t |-> "str",  s |-> Seq(Int)]                                        *)
(*   [t |-> "list", xs |-> Seq(Value), g |-> GoType]                       *)
(*   [t |-> "map",  ks |-> Seq(Value), vs |-> Seq(Value), g |-> GoType]    *)
(*   [t |-> "obj",  shape |-> STRING, ptr |-> BOOLEAN, fs |-> Seq(Value)]  *)
(*                                                                         *)
(* g says which Go type the harness builds for a context value ("any" =    *)
(* []interface{} / map[string]interface{}; "strs" = []string; "ints" =     *)
(* []int; "mss" = map[string]string; "msi" = map[string]int ...).  The     *)
(* reference semantics never looks at g.                                   *)
(***************************************************************************)
EXTENDS TwigText

Null      == [t |-> "null"]
VB(b)     == [t |-> "bool", b |-> b]
VI(i)     == [t |-> "int", i |-> i]
VS(s)     == [t |-> "str", s |-> s]
VD(m, e)  == [t |-> "dec", m |-> m, e |-> e]
VL(xs)    == [t |-> "list", xs |-> xs, g |-> "any"]
VLg(xs,g) == [t |-> "list", xs |-> xs, g |-> g]
VM(ks,vs) == [t |-> "map", ks |-> ks, vs |-> vs, g |-> "any"]
VMg(ks,vs,g) == [t |-> "map", ks |-> ks, vs |-> vs, g |-> g]

IsNull(v) == v.t = "null"
IsInt(v)  == v.t = "int"
IsStr(v)  == v.t = "str"
IsBool(v) == v.t = "bool"
IsList(v) == v.t = "list"
IsMap(v)  == v.t = "map"

\* The property's falsy set: false, 0, "", null, [], {} -- everything else truthy.
Truthy(v) ==
    CASE v.t = "null" -> FALSE
      [] v.t = "bool" -> v.b
      [] v.t = "int"  -> v.i # 0
      [] v.t = "dec"  -> v.m # 0
      [] v.t = "str"  -> v.s # <<>>
      [] v.t = "list" -> v.xs # <<>>
      [] v.t = "map"  -> v.ks # <<>>
      [] OTHER        -> TRUE

\* Printed form where the property fixes one (null -> "", int -> decimal digits,
\* string -> itself).  Booleans, lists, maps are never printed directly by the
\* generators (they are observed through `if` or through the harness dump filter).
Printable(v) == v.t \in {"null", "int", "str"}
TextOf(v) ==
    CASE v.t = "null" -> <<>>
      [] v.t = "int"  -> IntText(v.i)
      [] v.t = "str"  -> v.s
      [] OTHER        -> <<63, 63>>          \* "??" never expected: generators exclude it

\* map lookup by key value (keys are str or int values); Null when absent
RECURSIVE IndexOfKey(_, _, _)
IndexOfKey(ks, k, i) == IF i > Len(ks) THEN 0 ELSE IF ks[i] = k THEN i ELSE IndexOfKey(ks, k, i + 1)
MapHas(m, k) == IndexOfKey(m.ks, k, 1) # 0
MapGet(m, k) == LET i == IndexOfKey(m.ks, k, 1) IN IF i = 0 THEN Null ELSE m.vs[i]
MapPut(m, k, v) ==
    LET i == IndexOfKey(m.ks, k, 1) IN
    IF i = 0 THEN [m EXCEPT !.ks = Append(m.ks, k), !.vs = Append(m.vs, v)]
    ELSE [m EXCEPT !.vs[i] = v]

\* values that compare numerically
NumEq(a, b) == a.t = "int" /\ b.t = "int" /\ a.i = b.i

\* Loose equality restricted to the fragment the generators use: same type.
SameTypeEq(a, b) ==
    CASE a.t = "int"  /\ b.t = "int"  -> a.i = b.i
      [] a.t = "str"  /\ b.t = "str"  -> a.s = b.s
      [] a.t = "bool" /\ b.t = "bool" -> a.b = b.b
      [] a.t = "null" /\ b.t = "null" -> TRUE
      [] OTHER -> FALSE

RECURSIVE Pow(_, _)
Pow(b, e) == IF e = 0 THEN 1 ELSE b * Pow(b, e - 1)

Abs(n) == IF n < 0 THEN -n ELSE n
\* TLC integers are 32-bit: the models stay within +-10^9 (inside the property's +-2^53)
Lim53 == 1000000000

=============================================================================
