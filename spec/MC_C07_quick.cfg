SPECIFICATION Spec
CONSTANTS
  MaxLen = 2
  MaxLenPrint = 3
INVARIANTS
  RefEscapeOK
  Emit
CHECK_DEADLOCK FALSE
