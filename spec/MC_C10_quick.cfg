SPECIFICATION Spec
CONSTANTS
  MaxFull = 1
  MaxOne = 3
INVARIANTS
  NoOverrideIsBase
  Emit
CHECK_DEADLOCK FALSE
