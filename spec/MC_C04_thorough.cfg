SPECIFICATION Spec
CONSTANTS
  Side = 2
  Alone = 4
  BodyLen = 3
INVARIANTS
  ModelOK
  Emit
CHECK_DEADLOCK FALSE
