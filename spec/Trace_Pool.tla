----------------------------- MODULE Trace_Pool -----------------------------
(***************************************************************************)
(* Validates the traffic of the engine's render-context pools, recorded by   *)
(* the verif hooks while the cases of a check are replayed, against          *)
(* PoolDiscipline.  One line of trace.ndjson per event:                      *)
(*   start            a new process (pools are process-wide: everything is   *)
(*                    forgotten)                                             *)
(*   caller id        the map with this identity belongs to the caller       *)
(*   get pool id n    the object was taken from the pool with n entries      *)
(*   ready ctx id n   a context is handed to its user; n entries of its      *)
(*                    variable map were not asked for                        *)
(*   put pool id n    the object is about to be given back with n entries    *)
(*   case key         the events that follow belong to the case with this    *)
(*                    digest (no effect)                                     *)
(*   gc               a garbage collection ran: identities may be reused,    *)
(*                    what is known about unowned objects is forgotten        *)
(* The users are not told apart (one set `owned`): Exclusive becomes "an      *)
(* object that is owned is not handed out again" and "an object that is in    *)
(* the pool is not put again".  A line that breaks the discipline is          *)
(* recorded in `bad` with its number and reason; the step is taken anyway so  *)
(* that the rest of the trace is checked.                                     *)
(***************************************************************************)
EXTENDS Integers, Sequences, FiniteSets, TLC, Json

Trace == ndJsonDeserialize("trace.ndjson")
VARIABLES l,          \* next line
          owned,      \* identities with a user
          inpool,     \* identities known to sit in a pool: id -> pool name
          caller,     \* identities of the caller's maps
          bad         \* set of <<line, reason>>
vars == <<l, owned, inpool, caller, bad>>

Init == l = 1 /\ owned = {} /\ inpool = <<>> /\ caller = {} /\ bad = {}
E == Trace[l]
\* (the first 20 are enough for a verdict; a state that carries thousands of them makes the replay quadratic)
Flag(cond, why) == IF cond /\ Cardinality(bad) < 20 THEN {<<l, why>>} ELSE {}

Start == /\ E.ev = "start"
         /\ owned' = {} /\ inpool' = <<>> /\ caller' = {} /\ UNCHANGED bad
\* (the recorder numbers the objects anew after a collection: nothing that is known refers to anything that follows)
GC == /\ E.ev = "gc"
      /\ inpool' = <<>> /\ caller' = {} /\ owned' = {} /\ UNCHANGED bad
CaseMark == E.ev = "case" /\ UNCHANGED <<owned, inpool, caller, bad>>
Caller == /\ E.ev = "caller"
          /\ caller' = caller \cup {E.id}
          /\ UNCHANGED <<owned, inpool>>
          /\ bad' = bad \cup Flag(E.id \in DOMAIN inpool, "the caller's map sits in a pool")
Get == /\ E.ev = "get"
       /\ owned' = owned \cup {E.id}
       /\ inpool' = [i \in (DOMAIN inpool) \ {E.id} |-> inpool[i]]
       /\ UNCHANGED caller
       /\ bad' = bad \cup Flag(E.id \in owned, "handed out while another user has it")
                     \cup Flag(E.n # 0, "handed out with entries in it")
                     \cup Flag(E.id \in caller, "the caller's map handed out by a pool")
                     \cup Flag(E.id \in DOMAIN inpool /\ inpool[E.id] # E.pool, "taken from another pool than it was put into")
Ready == /\ E.ev = "ready"
         /\ UNCHANGED <<owned, inpool, caller>>
         /\ bad' = bad \cup Flag(E.n # 0, "a context starts with variables nobody gave it")
                       \cup Flag(E.id \notin owned, "a context in use that was not taken from the pool")
Put == /\ E.ev = "put"
       /\ owned' = owned \ {E.id}
       /\ inpool' = (E.id :> E.pool) @@ inpool
       /\ UNCHANGED caller
       /\ bad' = bad \cup Flag(E.id \in DOMAIN inpool, "given back twice")
                     \cup Flag(E.n # 0, "given back with entries in it")
                     \cup Flag(E.id \in caller, "the caller's map given to a pool")
Step == l <= Len(Trace) /\ l' = l + 1 /\ (Start \/ GC \/ CaseMark \/ Caller \/ Get \/ Ready \/ Put)
Spec == Init /\ [][Step]_vars

\* verdict (POSTCONDITION): all lines consumed; the rejected ones by number
Consumed == TLCSet(1, l - 1) /\ TLCSet(2, bad)
Verdict == /\ PrintT(<<"CONSUMED", TLCGet(1)>>)
           /\ PrintT(<<"REJECTED", {b[1] : b \in TLCGet(2)}>>)
           /\ PrintT(<<"REASONS", TLCGet(2)>>)
=============================================================================
