SPECIFICATION Spec
CONSTANTS
  Cap = 2
  MaxLen = 2
  KeyWithoutType = TRUE
  FirstIndexOnly = FALSE
  NameSet = {"X", "Y", "Z", "W", "Q", "K", "Name", "PName", "AName", "ARename", "hidden", "nosuch", "x", "name", "Cust", "V", "U", "Uelan", "uelan"}
INVARIANTS
  CacheUnobservable
  Bounded
VIEW View
CHECK_DEADLOCK FALSE
