SPECIFICATION Spec
CONSTANTS
  Objs = {"o1", "o2"}
  CallerObjs = {"c1"}
  Users = {"u1", "u2"}
  DoublePut = FALSE
  UseAfterPut = FALSE
  DirtyPut = FALSE
  CallerPut = FALSE
INVARIANTS
  Discipline
CHECK_DEADLOCK FALSE
