SPECIFICATION Spec
CONSTANTS
  Prepared = FALSE
  MaxLen = 3
  RenderReleasesRoot = FALSE
INVARIANTS
  NoStaleRender
  Emit
PROPERTIES
  RenderPure
  FailedOpsPure
CHECK_DEADLOCK FALSE
