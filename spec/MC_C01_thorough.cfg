SPECIFICATION Spec
CONSTANTS
  MaxLen = 4
  RenderReleasesRoot = FALSE
INVARIANTS
  NoStaleRender
  Emit
PROPERTIES
  RenderPure
  FailedOpsPure
CHECK_DEADLOCK FALSE
