------------------------------ MODULE C08Reader ------------------------------
(***************************************************************************)
(* A reference reader for expression text: precedence climbing driven only  *)
(* by the operator table Prec (all binary operators group from the left,    *)
(* parentheses override).  It is the inverse the printer of TwigSyntax must  *)
(* have: TableSound (checked by TLC in MC_C08) says that reading the         *)
(* minimal-parentheses text, or the fully parenthesised text, of a tree       *)
(* gives the tree back -- so "minimal" really means minimal *with respect to  *)
(* the table* and a disagreement between the two spellings on the real        *)
(* engine is the engine's, not the printer's.                                 *)
(* Handles literals, variables, list literals, parentheses, binary operators. *)
(***************************************************************************)
EXTENDS TwigSyntax

\* pieces -> tokens: blanks dropped, 'text' joined into one string token
RECURSIVE Toks(_)
Toks(ps) ==
    IF ps = <<>> THEN <<>>
    ELSE LET p == Head(ps) IN
         IF "w" \in DOMAIN p /\ p.w \in {" ", "  "} THEN Toks(Tail(ps))
         ELSE IF "w" \in DOMAIN p /\ p.w = "'" THEN
                 <<[k |-> "str", s |-> ps[2].c]>> \o Toks(SubSeq(ps, 4, Len(ps)))          \* ' chars '
         ELSE IF "c" \in DOMAIN p THEN <<[k |-> "num", s |-> p.c]>> \o Toks(Tail(ps))
         ELSE <<[k |-> "w", w |-> p.w]>> \o Toks(Tail(ps))

RECURSIVE DigitsVal(_)
DigitsVal(ds) == IF ds = <<>> THEN 0 ELSE DigitsVal(SubSeq(ds, 1, Len(ds) - 1)) * 10 + (ds[Len(ds)] - 48)
IsOpTok(t) == t.k = "w" /\ t.w \in BinOps

RECURSIVE ReadExpr(_, _, _), ReadPrimary(_, _), ReadList(_, _, _)
\* list literal: after "[" ; returns [v, pos] with pos after "]"
ReadList(ts, pos, acc) ==
    IF ts[pos].k = "w" /\ ts[pos].w = "]" THEN [e |-> Lit(VL(acc)), pos |-> pos + 1]
    ELSE IF ts[pos].k = "w" /\ ts[pos].w = "," THEN ReadList(ts, pos + 1, acc)
    ELSE ReadList(ts, pos + 1, Append(acc, VI(DigitsVal(ts[pos].s))))
ReadPrimary(ts, pos) ==
    LET t == ts[pos] IN
    CASE t.k = "num" -> [e |-> LI(DigitsVal(t.s)), pos |-> pos + 1]
      [] t.k = "str" -> [e |-> LS(t.s), pos |-> pos + 1]
      [] t.k = "w" /\ t.w = "(" ->
           LET inner == ReadExpr(ts, pos + 1, 0) IN [e |-> inner.e, pos |-> inner.pos + 1]      \* skip ")"
      [] t.k = "w" /\ t.w = "[" -> ReadList(ts, pos + 1, <<>>)
      [] t.k = "w" /\ t.w = "true" -> [e |-> LB(TRUE), pos |-> pos + 1]
      [] t.k = "w" /\ t.w = "false" -> [e |-> LB(FALSE), pos |-> pos + 1]
      [] OTHER -> [e |-> Var(t.w), pos |-> pos + 1]
RECURSIVE Climb(_, _, _)
Climb(ts, left, minPrec) ==
    IF left.pos <= Len(ts) /\ IsOpTok(ts[left.pos]) /\ Prec(ts[left.pos].w) >= minPrec
    THEN LET op == ts[left.pos].w
             rhs == ReadExpr(ts, left.pos + 1, Prec(op) + 1)
         IN Climb(ts, [e |-> Bin(op, left.e, rhs.e), pos |-> rhs.pos], minPrec)
    ELSE left
ReadExpr(ts, pos, minPrec) == Climb(ts, ReadPrimary(ts, pos), minPrec)
Read(pieces) == ReadExpr(Toks(pieces), 1, 0).e

RECURSIVE PureBinary(_)
PureBinary(e) == (e.k \in {"lit", "var"} /\ "raw" \notin DOMAIN e) \/ (e.k = "bin" /\ PureBinary(e.l) /\ PureBinary(e.r))
=============================================================================
