SPECIFICATION Spec
CONSTANTS
  SeqLen = 2
  SeqLenSmall = 2
INVARIANTS
  Emit
CHECK_DEADLOCK FALSE
