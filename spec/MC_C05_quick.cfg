SPECIFICATION Spec
CONSTANTS
  SeqLen = 1
  SeqLenSmall = 2
INVARIANTS
  Emit
CHECK_DEADLOCK FALSE
