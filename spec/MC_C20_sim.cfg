SPECIFICATION Spec
CONSTANTS
  Cap = 2
  MaxLen = 10
  KeyWithoutType = FALSE
  FirstIndexOnly = FALSE
  NameSet = {"X", "Y", "Z", "W", "Q", "Name", "PName", "hidden", "nosuch", "x", "name"}
INVARIANTS
  CacheUnobservable
  Bounded
  Emit
VIEW View
CHECK_DEADLOCK FALSE
