SPECIFICATION Spec
CONSTANTS
  Depth2 = FALSE
INVARIANTS
  ModelOK
  Emit
CHECK_DEADLOCK FALSE
