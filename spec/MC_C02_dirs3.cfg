SPECIFICATION Spec
CONSTANTS
  NG = 3
  Workload = "dirs"
  EarlyTokPut = FALSE
  UnguardedPaths = FALSE
  SharedCurrent = FALSE
  BlindInsert = FALSE
INVARIANTS
  NoConflictingAccess
  TokensIntact
  RelativeNameOwn
  SerialEquivalent
  RegistrationLasts
  SingleOwner
CHECK_DEADLOCK FALSE
VIEW View
