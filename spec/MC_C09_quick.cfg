SPECIFICATION Spec
CONSTANTS
  MaxConds = 2
  MaxList = 3
  MaxStr = 18
  MaxSetLen = 2
INVARIANTS
  Emit
CHECK_DEADLOCK FALSE
