------------------------------- MODULE MC_C13 -------------------------------
(***************************************************************************)
(* C13: whitespace-control dashes trim adjacent whitespace and change      *)
(* nothing else.                                                           *)
(*                                                                         *)
(* Programs carry *symbolic* text pieces (one symbol per text node).  The  *)
(* printer gives the piece sequence in document order; a layout D is a set  *)
(* of delimiter sides (delimiter index in document order) that get a dash. *)
(*   Dashed(p, D)    the source with dashes                                *)
(*   HandTrim(p, D)  the source without dashes in which the text piece     *)
(*                   adjacent to a dashed delimiter has lost its maximal   *)
(*                   run of {SP, TAB, CR, LF} on that side                 *)
(* Expected output of both: Exec of the program (symbols pass through      *)
(* Exec untouched) with every symbol replaced by its trimmed text.  Both   *)
(* are rendered by the real engine; parse success must be the same.        *)
(***************************************************************************)
EXTENDS TwigSyntax, Json

CONSTANTS AllSubsetsUpTo     \* templates with at most this many delimiter sides get every subset D
VARIABLE cs

SymBase == PadBase + 1048576         \* text symbols live above the pad tokens
Sym(k) == Text(<<SymBase + k>>)
IsSym(x) == x >= SymBase
L12 == Lit(VL(<<VI(1), VI(2)>>))

\* ---- corpus: every tag kind, opening / middle / closing tags ---------------------------
Corpus ==
  [ print   |-> ("main" :> <<Sym(1), PrintS(Var("x")), Sym(2)>>),
    print2  |-> ("main" :> <<Sym(1), PrintS(Var("x")), Sym(2), PrintS(LI(7)), Sym(3)>>),
    printadj |-> ("main" :> <<Sym(1), PrintS(Var("x")), PrintS(LI(7)), Sym(2)>>),
    ifelse  |-> ("main" :> <<Sym(1), IfElse(Var("x"), <<Sym(2)>>, <<Sym(3)>>), Sym(4)>>),
    ifelsef |-> ("main" :> <<Sym(1), IfElse(Var("no"), <<Sym(2)>>, <<Sym(3)>>), Sym(4)>>),
    elseif  |-> ("main" :> <<Sym(1), If(<<Var("no"), Var("x")>>, <<<<Sym(2)>>, <<Sym(3)>>>>, <<Sym(4)>>, TRUE), Sym(5)>>),
    ifprint |-> ("main" :> <<Sym(1), If1(Var("x"), <<Sym(2), PrintS(Var("x")), Sym(3)>>), Sym(4)>>),
    forloop |-> ("main" :> <<Sym(1), For("i", "", L12, <<Sym(2), PrintS(Var("i")), Sym(3)>>, <<Sym(4)>>, TRUE), Sym(5)>>),
    forelse |-> ("main" :> <<Sym(1), For("i", "", Var("no"), <<Sym(2)>>, <<Sym(3)>>, TRUE), Sym(4)>>),
    setv    |-> ("main" :> <<Sym(1), Set("z", LI(1)), Sym(2), PrintS(Var("z")), Sym(3)>>),
    dotag   |-> ("main" :> <<Sym(1), Do(Bin("+", LI(1), LI(2))), Sym(2)>>),
    blockt  |-> ("main" :> <<Sym(1), Block("bb", <<Sym(2)>>), Sym(3)>>),
    macrot  |-> ("main" :> <<Sym(1), Macro("mm", <<Param("a")>>, <<Sym(2), PrintS(Var("a")), Sym(3)>>), Sym(4), PrintS(Call("mm", <<LI(5)>>)), Sym(5)>>),
    include |-> ("main" :> <<Sym(1), Inc(LS(NT.t1)), Sym(2)>>) @@ ("t1" :> <<Sym(3), PrintS(Var("x")), Sym(4)>>),
    importt |-> ("main" :> <<Sym(1), Import(LS(NT.t1), "L"), Sym(2), PrintS(MCall("L", "mm", <<LI(5)>>)), Sym(3)>>)
                @@ ("t1" :> <<Macro("mm", <<Param("a")>>, <<Sym(4), PrintS(Var("a")), Sym(5)>>)>>),
    fromt   |-> ("main" :> <<Sym(1), From(LS(NT.t1), <<"mm">>, <<"mm">>), Sym(2), PrintS(Call("mm", <<LI(5)>>)), Sym(3)>>)
                @@ ("t1" :> <<Macro("mm", <<Param("a")>>, <<Sym(4), PrintS(Var("a")), Sym(5)>>)>>),
    applyt  |-> ("main" :> <<Sym(1), Apply("upper", <<>>, <<Sym(2), PrintS(Var("s")), Sym(3)>>), Sym(4)>>),
    extendst |-> ("main" :> <<Extends(LS(NT.t1)), Block("bb", <<Sym(1), PrintS(Var("x")), Sym(2)>>)>>)
                @@ ("t1" :> <<Sym(3), Block("bb", <<Sym(4)>>), Sym(5)>>),
    nestedif |-> ("main" :> <<Sym(1), For1("i", L12, <<Sym(2), If1(Var("x"), <<Sym(3)>>), Sym(4)>>), Sym(5)>>),
    tagtag  |-> ("main" :> <<Sym(1), If1(Var("x"), <<If1(Var("x"), <<Sym(2)>>)>>), Sym(3)>>),
    edge    |-> ("main" :> <<PrintS(Var("x")), Sym(1), PrintS(Var("x"))>>),
    \* a verbatim body that holds a comment and tag syntax: reproduced, at every template size
    verbc   |-> ("main" :> <<Sym(1), Verbatim(<<97, 123, 35, 32, 99, 32, 35, 125, 98>>), Sym(2), PrintS(Var("x")), Sym(3)>>),
    \* comments between text and tags: a dash works on the text next to it, whatever follows that text
    cmt1    |-> ("main" :> <<Sym(1), PrintS(Var("x")), Sym(2), Comment(<<32, 99, 32>>), Sym(3)>>),
    cmt2    |-> ("main" :> <<Sym(1), Comment(<<>>), Sym(2), PrintS(Var("x")), Sym(3), Comment(<<32, 99, 32>>), Sym(4)>>),
    cmt3    |-> ("main" :> <<Sym(1), If1(Var("x"), <<Sym(2), Comment(<<99>>), Sym(3)>>), Comment(<<99>>), Sym(4)>>),
    \* no tag at all; names that differ in the case of their letters, alone in a print tag
    textonly |-> ("main" :> <<Sym(1), Comment(<<32, 99, 32>>), Sym(2)>>),
    textonly2 |-> ("main" :> <<Sym(1)>>),
    caseids |-> ("main" :> <<Sym(1), PrintS(Var("ID")), Sym(2), PrintS(Var("id")), PrintS(Var("Class")), Sym(3), PrintS(Var("userName")), PrintS(Var("username")), PrintS(Var("A"))>>),
    \* a child that overrides one block with nothing and one with a comment only
    emptyblk |-> ("main" :> <<Extends(LS(NT.t1)), Block("bb", <<>>), Block("cc", <<Sym(1), PrintS(Var("x"))>>), Block("dd", <<Comment(<<32, 99, 32>>)>>)>>)
                @@ ("t1" :> <<Sym(2), Block("bb", <<Sym(3)>>), Block("cc", <<Sym(4)>>), Block("dd", <<Sym(5)>>)>>),
    \* an expression that ends in the closing brace of a hash, directly before the closing delimiter in the tight layout
    condhash |-> ("main" :> <<Sym(1), PrintS(Cond(Var("x"), LI(5), Hash(<<LS(NT.a)>>, <<LI(1)>>))), Sym(2), Set("h", Hash(<<LS(NT.a)>>, <<Hash(<<LS(NT.b)>>, <<LI(6)>>)>>)), Sym(3),
                               PrintS(Attr(Attr(Var("h"), "a"), "b"))>>),
    \* print tags whose expression begins and ends with a string literal (one quote kind)
    strcat  |-> ("main" :> <<Sym(1), PrintS(Bin("~", LS(<<97>>), LS(<<98>>))), Sym(2), PrintS(Cond(LS(<<121>>), LS(<<84>>), LS(<<70>>))), Sym(3),
                             PrintS(Bin("~", Bin("~", LS(<<97>>), Var("x")), LS(<<99>>))), If1(Bin("==", LS(<<120>>), LS(<<120>>)), <<Sym(4)>>)>>),
    \* empty comments glued to tags; an end tag that repeats the block's name; a filter on an attribute path written without blanks
    cmtadj  |-> ("main" :> <<Sym(1), Comment(<<>>), PrintS(Var("x")), Comment(<<>>), Sym(2), Comment(<<>>), If1(Var("x"), <<Sym(3)>>), Comment(<<>>), Sym(4)>>),
    namedend |-> ("main" :> <<Sym(1), Block("bb", <<Sym(2)>>) @@ [nm |-> TRUE], Sym(3), Block("cc", <<PrintS(Var("x"))>>) @@ [nm |-> TRUE], Sym(4)>>),
    attrfilt |-> ("main" :> <<Sym(1), PrintS(Filt("upper", Attr(Var("o"), "k"), <<>>)), Sym(2), PrintS(Filt("e", Attr(Attr(Var("o"), "p"), "q"), <<>>)), Sym(3), PrintS(Filt("length", Attr(Var("o"), "k"), <<>>))>>),
    printnum |-> ("main" :> <<Sym(1), PrintS(LI(42)), Sym(2), PrintS(LI(7)), Sym(3), If1(LI(1), <<Sym(4)>>)>>)
  ]
Ctx == ("o" :> VM(<<VS(<<107>>), VS(<<112>>)>>, <<VS(<<97, 60>>), VM(<<VS(<<113>>)>>, <<VS(<<60, 98, 62>>)>>)>>)) @@ ("x" :> VI(3)) @@ ("s" :> VS(<<97>>)) @@ ("ID" :> VI(11)) @@ ("id" :> VI(12)) @@ ("Class" :> VI(13)) @@ ("userName" :> VI(14)) @@ ("username" :> VI(15)) @@ ("A" :> VI(16))

\* ---- whitespace styles of the text pieces ----------------------------------------------
\* a style maps symbol k to its text
Letter(k) == 64 + k      \* A, B, C ...
\* (bsl: a backslash is the last / first byte of the text next to a tag; nonascii: the text ends in a multi-byte character, then
\* whitespace; nonascii0: ... with no whitespace at all)
Styles == {"sp", "lf", "mix", "none", "onlyws", "inner", "ctl", "ctl2", "bsl", "nonascii", "nonascii0"}
\* a style is [ws |-> name, padAt |-> set of symbols that carry pad token #k in their middle]
\* (pads are used by MC_C14; they never touch a delimiter, so trimming is unaffected)
Mid(sty, k) == IF k \in sty.padAt THEN <<Letter(k), PadBase + k - 1, Letter(k)>> ELSE <<Letter(k)>>   \* pad token #k-1 (0-based on the Go side)
TextOfSym(sty, k) ==
    CASE sty.ws = "sp"     -> <<cSP>> \o Mid(sty, k) \o <<cSP>>
      [] sty.ws = "lf"     -> <<cLF>> \o Mid(sty, k) \o <<cLF>>
      [] sty.ws = "mix"    -> <<cSP, cTAB, cCR, cLF>> \o Mid(sty, k) \o <<cSP, cLF, cTAB>>
      [] sty.ws = "none"   -> Mid(sty, k)
      [] sty.ws = "onlyws" -> IF k % 2 = 0 /\ k \notin sty.padAt THEN <<cSP, cLF>> ELSE <<cSP>> \o Mid(sty, k) \o <<cSP>>
      [] sty.ws = "inner"  -> Mid(sty, k) \o <<cSP, cSP, Letter(k), cLF>>
      \* control bytes are not whitespace: a dash stops at NUL, VT, FF, ESC
      [] sty.ws = "ctl"    -> <<cLF, 0, cSP>> \o Mid(sty, k) \o <<cSP, 12, cTAB>>
      [] sty.ws = "ctl2"   -> <<cSP, 11>> \o Mid(sty, k) \o <<27, cLF>>
      [] sty.ws = "bsl"    -> <<92>> \o Mid(sty, k) \o <<67, 58, 92>>
      [] sty.ws = "nonascii" -> <<cSP, 201>> \o Mid(sty, k) \o <<8364, cSP, cLF>>       \* (letters without another case: the apply-upper entry)
      [] sty.ws = "nonascii0" -> <<26085>> \o Mid(sty, k) \o <<201>>
Sty(c) == [ws |-> c.style, padAt |-> IF "padAt" \in DOMAIN c THEN c.padAt ELSE {}]

\* ---- layouts over the piece sequence ------------------------------------------------------
IsDelim(p) == "o" \in DOMAIN p \/ "cl" \in DOMAIN p
IsOpen(p) == "o" \in DOMAIN p
IsSymPiece(p) == "c" \in DOMAIN p /\ Len(p.c) = 1 /\ IsSym(p.c[1])

\* delimiter number of piece i (1-based count of delimiter pieces up to i)
DelimNo(ps, i) == Cardinality({j \in 1..i : IsDelim(ps[j])})
NDelims(ps) == DelimNo(ps, Len(ps))

\* Dashed: replace delimiter number d in D by its dashed spelling, substitute texts
DashedPieces(ps, D, style) ==
    [i \in 1..Len(ps) |->
        IF IsDelim(ps[i]) THEN
            LET d == DelimNo(ps, i) IN
            IF IsOpen(ps[i]) THEN W(IF d \in D THEN ps[i].o \o "-" ELSE ps[i].o)
            ELSE W(IF d \in D THEN "-" \o ps[i].cl ELSE ps[i].cl)
        ELSE IF IsSymPiece(ps[i]) THEN C(TextOfSym(style, ps[i].c[1] - SymBase))
        ELSE ps[i]]

\* which side(s) of symbol piece i are trimmed under D
TrimRightOf(ps, i, D) == i < Len(ps) /\ IsDelim(ps[i + 1]) /\ IsOpen(ps[i + 1]) /\ DelimNo(ps, i + 1) \in D
TrimLeftOf(ps, i, D)  == i > 1 /\ IsDelim(ps[i - 1]) /\ ~IsOpen(ps[i - 1]) /\ DelimNo(ps, i - 1) \in D
Trimmed(t, l, r) == LET a == IF l THEN TrimL(t) ELSE t IN IF r THEN TrimR(a) ELSE a

HandPieces(ps, D, style) ==
    [i \in 1..Len(ps) |->
        IF IsDelim(ps[i]) THEN (IF IsOpen(ps[i]) THEN W(ps[i].o) ELSE W(ps[i].cl))
        ELSE IF IsSymPiece(ps[i]) THEN C(Trimmed(TextOfSym(style, ps[i].c[1] - SymBase), TrimLeftOf(ps, i, D), TrimRightOf(ps, i, D)))
        ELSE ps[i]]

\* trimmed text of each symbol of template body ps (symbols are unique per template set)
SymTexts(ps, D, style) ==
    {[k |-> ps[i].c[1] - SymBase, t |-> Trimmed(TextOfSym(style, ps[i].c[1] - SymBase), TrimLeftOf(ps, i, D), TrimRightOf(ps, i, D))]
        : i \in {j \in 1..Len(ps) : IsSymPiece(ps[j])}}

Subst(out, table) ==
    Flatten([i \in 1..Len(out) |->
        IF IsSym(out[i]) THEN (CHOOSE e \in table : e.k = out[i] - SymBase).t ELSE <<out[i]>>])

\* ---- tight tags: nothing between a delimiter (with or without its dash) and the tag's content ---
IsGap(p) == "w" \in DOMAIN p /\ p.w = " "
TightGap(ps, i) == IsGap(ps[i]) /\ ((i > 1 /\ IsDelim(ps[i - 1]) /\ IsOpen(ps[i - 1])) \/ (i < Len(ps) /\ IsDelim(ps[i + 1]) /\ ~IsOpen(ps[i + 1])))
Tighten(ps) == Flatten([i \in 1..Len(ps) |-> IF TightGap(ps, i) THEN <<>> ELSE <<ps[i]>>])
IsTight(c) == "tight" \in DOMAIN c /\ c.tight

\* ---- cases -----------------------------------------------------------------------------------
\* a layout assigns a dash set to the entry template only (the other templates stay plain)
Pieces(name, t) == UBody(Corpus[name][t], LMin)
MainPieces(name) == Pieces(name, "main")
PiecesOf(c, t) == IF IsTight(c) /\ t = "main" THEN Tighten(Pieces(c.s, t)) ELSE Pieces(c.s, t)

DashSets(n) ==
    IF n <= AllSubsetsUpTo THEN SUBSET (1..n)
    ELSE {{}} \cup {{d} : d \in 1..n} \cup {1..n}
         \cup {{d, d + 1} : d \in 1..(n - 1)} \cup {(1..n) \ {e} : e \in 1..n}

Cases == UNION {{[s |-> name, D |-> D, style |-> style] : D \in DashSets(NDelims(MainPieces(name))), style \in Styles}
                : name \in DOMAIN Corpus}
         \cup UNION {{[s |-> name, D |-> D, style |-> style, tight |-> TRUE] : D \in DashSets(NDelims(MainPieces(name))), style \in {"sp", "none", "mix"}}
                : name \in DOMAIN Corpus}

AllTexts(c) ==
    UNION {SymTexts(PiecesOf(c, t), IF t = "main" THEN c.D ELSE {}, Sty(c)) : t \in DOMAIN Corpus[c.s]}

Ref(c) == Render(MkW(Corpus[c.s], {"upper"}, {}, NoFault), "main", Ctx)
Expected(c) == Subst(Ref(c).out, AllTexts(c))

SourcesOf(c, hand) ==
    [t \in DOMAIN Corpus[c.s] |->
        IF hand THEN HandPieces(PiecesOf(c, t), IF t = "main" THEN c.D ELSE {}, Sty(c))
        ELSE DashedPieces(PiecesOf(c, t), IF t = "main" THEN c.D ELSE {}, Sty(c))]

CaseOf(c) ==
    [prop |-> "C13", key |-> ToJson(c),
     tags |-> {"s:" \o c.s, "style:" \o c.style, "ndash:" \o ToString(Cardinality(c.D))} \cup (IF IsTight(c) THEN {"tight"} ELSE {}),
     entry |-> "main", ctx |-> Ctx, rel |-> "same",
     runs |-> <<[label |-> "dashed", tp |-> SourcesOf(c, FALSE), xcalls |-> [id \in {} |-> 0]],
                [label |-> "hand", tp |-> SourcesOf(c, TRUE), xcalls |-> [id \in {} |-> 0]]>>,
     expect |-> [ok |-> TRUE, out |-> Expected(c), err |-> "", calls |-> [id \in {} |-> 0]]]

\* ---- tag syntax with dashes inside verbatim ------------------------------------------------------
\* The body of verbatim is not parsed.  Whether a dash written there belongs to C13 at all can be argued: either
\* the body comes out as written (alt), or - where the engine treats the dashed delimiter as one - the dashed body
\* and the hand-trimmed body come out alike.  Anything else is a dash with an effect of its own.
VbWs(w) == CASE w = "sp" -> <<cSP, cSP>> [] w = "lf" -> <<cLF>> [] w = "mix" -> <<cSP, cTAB, cCR, cLF>>
VbOpen(kind, d) == (IF kind = "print" THEN <<123, 123>> ELSE <<123, 37>>) \o (IF d THEN <<45>> ELSE <<>>)
VbClose(kind, d) == (IF d THEN <<45>> ELSE <<>>) \o (IF kind = "print" THEN <<125, 125>> ELSE <<37, 125>>)
VbInner(kind) == IF kind = "print" THEN <<cSP, 120, cSP>> ELSE <<cSP, 105, 102, cSP, 120, cSP>>
VbBody(c, hand) == <<97>> \o (IF hand /\ c.dl THEN <<>> ELSE VbWs(c.ws)) \o VbOpen(c.kind, c.dl /\ ~hand) \o VbInner(c.kind)
                   \o VbClose(c.kind, c.dr /\ ~hand) \o (IF hand /\ c.dr THEN <<>> ELSE VbWs(c.ws)) \o <<98>>
VbCases == {[vb |-> kind, kind |-> kind, dl |-> dl, dr |-> dr, ws |-> ws] : kind \in {"print", "block"}, dl \in BOOLEAN, dr \in BOOLEAN, ws \in {"sp", "lf", "mix"}}
VbTp(c, hand) == ("main" :> <<Text(<<65, cSP>>), Verbatim(VbBody(c, hand)), Text(<<cSP, 66>>)>>)
CaseOfVb(c) ==
    [prop |-> "C13", key |-> ToJson(c), tags |-> {"verbatim-tags", "vb:" \o c.kind, "ndash:" \o ToString((IF c.dl THEN 1 ELSE 0) + (IF c.dr THEN 1 ELSE 0))},
     entry |-> "main", ctx |-> Ctx, rel |-> "same",
     runs |-> <<[label |-> "dashed", tp |-> Sources(VbTp(c, FALSE), LMin), xcalls |-> [id \in {} |-> 0], alt |-> <<65, cSP>> \o VbBody(c, FALSE) \o <<cSP, 66>>],
                [label |-> "hand", tp |-> Sources(VbTp(c, TRUE), LMin), xcalls |-> [id \in {} |-> 0], alt |-> <<65, cSP>> \o VbBody(c, TRUE) \o <<cSP, 66>>]>>,
     expect |-> [ok |-> TRUE, anyoutcome |-> TRUE, out |-> <<>>, noout |-> TRUE, err |-> "", calls |-> [id \in {} |-> 0]]]

\* ---- tags the tokenizer reads on paths of its own: odd spacing after the tag name, keywords in capitals, a comparison in a do tag,
\* a keyword inside a quoted name.  Whether such a tag is accepted at all is not C13's business -- but a dash does not change it,
\* nor what the template renders (the dashed and the hand-trimmed source agree in outcome and output).
OddTags == [ ifnl |-> <<"if\nx", "T", "{% endif %}">>, iftab |-> <<"if\tx", "T", "{% endif %}">>, ifparen |-> <<"if(x)", "T", "{% endif %}">>,
             forIN |-> <<"for i IN [1, 2]", "T", "{% endfor %}">>, incWITH |-> <<"include 't1' WITH {'x': 1}", "", "">>,
             impAS |-> <<"import 't2' AS L", "T", "">>, doeq |-> <<"do x == 1", "T", "">>, incwithname |-> <<"include 'a with b'", "", "">>,
             setnl |-> <<"set\tz = 1", "T", "">>, plainif |-> <<"if x", "T", "{% endif %}">> ]
OddCases == {[odd |-> k, dl |-> dl, dr |-> dr, ws |-> ws] : k \in DOMAIN OddTags, dl \in BOOLEAN, dr \in BOOLEAN, ws \in {"sp", "mix"}}
OddPieces(c, hand) ==
    <<C(<<65>> \o (IF hand /\ c.dl THEN <<>> ELSE VbWs(c.ws))), W(IF c.dl /\ ~hand THEN "{%-" ELSE "{%"), W(" "), W(OddTags[c.odd][1]), W(" "),
      W(IF c.dr /\ ~hand THEN "-%}" ELSE "%}"), C((IF hand /\ c.dr THEN <<>> ELSE VbWs(c.ws)) \o <<66>>), W(OddTags[c.odd][2]), W(OddTags[c.odd][3]), C(<<32, 67>>)>>
OddTp(c, hand) == ("main" :> OddPieces(c, hand)) @@ ("t1" :> <<W("<{{ x }}>")>>) @@ ("t2" :> <<W("{% macro m() %}m{% endmacro %}")>>) @@ ("a with b" :> <<W("AWB")>>)
CaseOfOdd(c) ==
    [prop |-> "C13", key |-> ToJson(c), tags |-> {"odd-tag", "odd:" \o c.odd, "ndash:" \o ToString((IF c.dl THEN 1 ELSE 0) + (IF c.dr THEN 1 ELSE 0))},
     entry |-> "main", ctx |-> Ctx, rel |-> "same",
     runs |-> <<[label |-> "dashed", tp |-> OddTp(c, FALSE), xcalls |-> [id \in {} |-> 0]],
                [label |-> "hand", tp |-> OddTp(c, TRUE), xcalls |-> [id \in {} |-> 0]]>>,
     expect |-> [ok |-> TRUE, anyoutcome |-> TRUE, out |-> <<>>, noout |-> TRUE, err |-> "", calls |-> [id \in {} |-> 0]]]

Init == cs \in Cases \cup VbCases \cup OddCases
Next == UNCHANGED cs
Spec == Init /\ [][Next]_cs
Emit == PrintT(ToJson(IF "vb" \in DOMAIN cs THEN CaseOfVb(cs) ELSE IF "odd" \in DOMAIN cs THEN CaseOfOdd(cs) ELSE CaseOf(cs)))

\* model-level: with no dash the two formulations are the same source, and a dash never
\* removes anything but whitespace from the expected output
NoDashIdentity == cs.D = {} => SourcesOf(cs, FALSE) = SourcesOf(cs, TRUE)
OnlyWhitespaceRemoved ==
    LET full == Subst(Ref(cs).out, AllTexts([cs EXCEPT !.D = {}]))
        NonWs(s) == SelectSeq(s, LAMBDA ch : ch \notin WS)
    IN NonWs(Expected(cs)) = NonWs(full)
ModelOK == "vb" \in DOMAIN cs \/ "odd" \in DOMAIN cs \/ (Ref(cs).ok /\ NoDashIdentity /\ OnlyWhitespaceRemoved)
=============================================================================
