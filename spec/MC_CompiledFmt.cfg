SPECIFICATION Spec
