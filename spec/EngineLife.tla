----------------------------- MODULE EngineLife -----------------------------
(***************************************************************************)
(* Engine lifecycle: what a sequence of public calls does to the *logical* *)
(* state of engines, and what a render may depend on.                      *)
(*                                                                         *)
(*   reg[e][n]   source registered under name n on engine e (0 = none)     *)
(*   cfg[e]      [cache, debug]                                            *)
(*   handles     sources of templates the caller obtained from              *)
(*               ParseTemplate and still holds (sequence)                   *)
(*   hist        the operations so far (history variable; each render op    *)
(*               carries the key its result may depend on)                  *)
(*                                                                         *)
(* Rendering is an uninterpreted function of the logical state only:        *)
(*     result(render e n c) = Obs[ key(reg[e], cfg[e], n, c) ]             *)
(* -- the model knows nothing about what templates mean.  The properties:  *)
(*   RenderPure     a render (successful or failing) changes neither reg,  *)
(*                  cfg nor handles                                        *)
(*   FailedOpsPure  a failing register / parse changes nothing             *)
(*   KeyDeterminesResult  two renders with equal keys have equal results   *)
(*                  (checked on recorded traces: Trace_C01, memo R)        *)
(* The implementation-level refinement (what must NOT happen: a render     *)
(* releasing or recycling nodes of a cached template) is the deviation     *)
(* RenderReleasesRoot below: with it, the second render of a name sees an  *)
(* empty tree -- TLC finds the 2-step counterexample to KeyDetermines.     *)
(***************************************************************************)
EXTENDS TwigSyntax, Json

CONSTANTS MaxLen,               \* length of the emitted histories
          RenderReleasesRoot,   \* deviation switch: the pinned tree's defect (must be FALSE to conform)
          Prepared              \* TRUE: behaviours start after a prefix of registrations (one of Preps) and go on with renders only
VARIABLES reg, cfg, handles, hist, tree

Engines == {1, 2}
Names == {"n1", "n2"}
LoaderNames == {"n3", "pm", "ph", "sh"}     \* served by an array loader on every engine (pm: p/m, which includes its neighbour p/b; p/h and s/h call the library lb)
FsNames == {"n4", "n5"}         \* served by a file-system loader with two search paths on every engine
HasPolicy(e) == e = 1           \* engine 2 has no security policy: a sandboxed include fails there

\* ---- the fixed corpus of sources (ids); meaning is irrelevant to this model ----------
T(s) == Text(s)
RawSyntaxError == <<W("a{% if x %}unclosed")>>
SrcBody(id) ==
    CASE id = 1 -> <<T(<<97>>), PrintS(Var("x")), T(<<98>>), For1("i", Lit(VL(<<VI(1), VI(2)>>)), <<PrintS(Var("i"))>>)>>
      [] id = 2 -> <<IfElse(Var("x"), <<T(<<89>>)>>, <<T(<<78>>)>>), PrintS(Filt("upper", Var("x"), <<>>)), Set("z", LI(3)), PrintS(Var("z"))>>
      [] id = 4 -> <<T(<<112>>), PrintS(Filt("nofilter", Var("x"), <<>>))>>
      [] id = 5 -> <<T(<<91>>), Inc(LS(NT.n2)), T(<<93>>), PrintS(Var("x"))>>
      [] id = 6 -> <<Extends(LS(NT.n2)), Block("b", <<T(<<88>>), PrintS(Var("x")), PrintS(Call("parent", <<>>))>>)>>
      [] id = 7 -> <<T(<<60>>), Block("b", <<T(<<68>>)>>), T(<<62>>), PrintS(Var("x"))>>
      [] id = 8 -> <<Import(LS(NT.n2), "L"), PrintS(MCall("L", "mm", <<Var("x")>>)), T(<<33>>)>>
      [] id = 9 -> <<Macro("mm", <<Param("a")>>, <<T(<<40>>), PrintS(Var("a")), T(<<41>>)>>), T(<<77>>)>>
      [] id = 10 -> <<Inc(LS(NT.n3)), T(<<33>>), Apply("upper", <<>>, <<PrintS(Var("x"))>>)>>
      [] id = 11 -> <<T(<<108>>), PrintS(Var("x")), IfElse(Test(Var("x"), "defined", <<>>, FALSE), <<T(<<100>>)>>, <<T(<<117>>)>>),
                      T(<<60>>), Block("b", <<T(<<76>>)>>), T(<<62>>)>>
      \* sandboxed include (every engine has a policy that allows upper but not lower)
      [] id = 13 -> <<T(<<91>>), Include(LS(NT.n2), Lit(Null), FALSE, FALSE, FALSE, TRUE), T(<<93>>)>>
      [] id = 14 -> <<T(<<108>>), PrintS(Filt("lower", Var("x"), <<>>)), PrintS(Filt("upper", Var("x"), <<>>))>>
      \* identifiers that differ only in case
      [] id = 15 -> <<PrintS(Var("Xv")), T(<<124>>), PrintS(Var("xV")), T(<<124>>), PrintS(Attr(Var("m"), "Ab"))>>
      [] id = 16 -> <<PrintS(Var("xv")), T(<<124>>), PrintS(Var("XV")), T(<<124>>), PrintS(Attr(Var("m"), "aB"))>>
      [] id = 12 -> <<Extends(Var("p")), Block("b", <<T(<<90>>), PrintS(Var("x"))>>)>>       \* dynamic parent: depends on the context
      \* three render contexts alive at once: n1 (source 5) includes n2 (this), which includes n3
      [] id = 17 -> <<T(<<60>>), Inc(LS(NT.n3)), T(<<62>>), PrintS(Var("x")), Include(LS(NT.n3), Hash(<<LS(NT.x)>>, <<LI(7)>>), TRUE, TRUE, FALSE, FALSE)>>
      \* macro defaults that read the context: the value differs from render to render
      [] id = 18 -> <<Macro("g", <<Param("a"), ParamD("b", Var("x"))>>, <<T(<<40>>), PrintS(Var("a")), PrintS(Var("b")), T(<<41>>)>>),
                      PrintS(MCall("_self", "g", <<LI(1)>>)), PrintS(Call("g", <<LI(2)>>))>>
      [] id = 19 -> <<Macro("mm", <<Param("a"), ParamD("b", Bin("~", Var("x"), LS(<<33>>)))>>, <<T(<<40>>), PrintS(Var("a")), PrintS(Var("b")), T(<<41>>)>>), T(<<77>>)>>
      \* files of the file-system loader: n5 in both search paths (the first wins), n4 only in the second
      [] id = 20 -> <<T(<<116, 53, 58>>), PrintS(Var("x"))>>
      [] id = 21 -> <<T(<<98, 52, 58>>), PrintS(Var("x"))>>
      [] id = 22 -> <<T(<<98, 53, 58>>), PrintS(Var("x"))>>
      \* the same pattern body with and without the case-insensitivity flag (x = 'q': 23 says y, 24 says n)
      [] id = 23 -> <<PrintS(Cond(Bin("matches", Var("x"), LS(<<47, 81, 47, 105>>)), LS(<<121>>), LS(<<110>>)))>>
      [] id = 24 -> <<PrintS(Cond(Bin("matches", Var("x"), LS(<<47, 81, 47>>)), LS(<<121>>), LS(<<110>>)))>>
      \* an include whose with-values fail to evaluate (error path of the include), before and after a working one
      [] id = 25 -> <<T(<<91>>), Include(LS(NT.n2), Hash(<<LS(NT.a)>>, <<LI(1)>>), TRUE, FALSE, FALSE, FALSE),
                      Include(LS(NT.n2), Hash(<<LS(NT.a), LS(NT.b)>>, <<LI(1), Filt("nofilter", Var("x"), <<>>)>>), TRUE, FALSE, FALSE, FALSE), T(<<93>>)>>
      \* a template without a name of its own (parsed and kept by the caller) that refers to a neighbour by a relative name:
      \* there is no directory to look in, whatever the engine loaded last; p/m and p/b are served by the array loader
      [] id = 26 -> <<T(<<91>>), Include(LS(<<46, 47, 98>>), Lit(Null), FALSE, FALSE, TRUE, FALSE), T(<<93>>), PrintS(Var("x"))>>
      [] id = 27 -> <<T(<<80, 91>>), Inc(LS(<<46, 47, 98>>)), T(<<93>>)>>
      [] id = 28 -> <<T(<<66>>), PrintS(Var("x"))>>
      \* an engine global (every engine has its own value of g)
      [] id = 29 -> <<T(<<103, 61>>), PrintS(Var("g")), PrintS(Var("x"))>>
      \* pages in two directories that call one library macro, which includes its caller's neighbour ./b
      \* (... and which imports its caller's neighbour ./hq for a macro of its own)
      [] id = 30 -> <<Import(LS(<<108, 98>>), "L"), T(<<60>>), PrintS(MCall("L", "inc", <<>>)), T(<<124>>), PrintS(MCall("L", "imp", <<>>)), T(<<62>>), PrintS(Var("x"))>>
      [] id = 31 -> <<T(<<83>>), PrintS(Var("x"))>>
      [] id = 32 -> <<Macro("inc", <<>>, <<T(<<105, 58>>), Inc(LS(<<46, 47, 98>>))>>),
                      Macro("imp", <<>>, <<Import(LS(<<46, 47, 104, 113>>), "H"), PrintS(MCall("H", "hm", <<>>))>>)>>
      \* two sources that differ in two bytes and have the same 31-multiplier hash ("Aa" / "BB")
      [] id = 33 -> <<T(<<72, 105, 32, 65, 97, 44>>), PrintS(Var("x"))>>
      [] id = 34 -> <<T(<<72, 105, 32, 66, 66, 44>>), PrintS(Var("x"))>>
      \* the helpers ./hq of the two directories
      [] id = 35 -> <<Macro("hm", <<>>, <<T(<<80, 104>>)>>)>>
      [] id = 36 -> <<Macro("hm", <<>>, <<T(<<83, 104>>)>>)>>
      \* a page that from-imports the macro of n2 and calls it by its plain name (n2: source 9 or 19)
      [] id = 37 -> <<From(LS(NT.n2), <<"mm">>, <<"mm">>), PrintS(Call("mm", <<Var("x")>>)), T(<<35>>), For1("i", Lit(VL(<<VI(1), VI(2)>>)), <<PrintS(Call("mm", <<Var("i")>>))>>)>>
SrcPieces(id) == IF id = 3 THEN RawSyntaxError ELSE Source(SrcBody(id), LMin)
AllSrc == 1..37
IsSyntaxError(id) == id = 3
RefersToN2 == {5, 6, 8, 13, 25, 37}
SrcFor(n) == IF n = "n1" THEN {1, 2, 3, 4, 5, 6, 8, 10, 12, 13, 14, 15, 16, 18, 23, 25, 33, 37} ELSE {1, 3, 4, 7, 9, 10, 14, 15, 16, 17, 19, 24, 34}     \* no recursion: only n1 refers to n2
LoaderSrc == 11                   \* content of n3 in the loader
CtxIds == {1, 2, 3}              \* 3: context 1 plus 70 more variables (a large variable map)
Filler == [n \in {"f" \o ToString(i) : i \in 1..70} |-> VI(1)]
CaseVars == ("Xv" :> VS(<<65>>)) @@ ("xV" :> VS(<<66>>)) @@ ("xv" :> VS(<<67>>)) @@ ("XV" :> VS(<<68>>))
            @@ ("m" :> VM(<<VS(<<65, 98>>), VS(<<97, 66>>)>>, <<VI(1), VI(2)>>))
CtxOf(c) == IF c \in {1, 3} THEN ("x" :> VS(<<113>>)) @@ ("p" :> VS(NT.n2)) @@ CaseVars @@ (IF c = 3 THEN Filler ELSE EmptyFn)
            ELSE ("p" :> VS(NT.n3)) @@ CaseVars

\* ---- operations -------------------------------------------------------------------------
\* the key a render result may depend on: logical state only
Key(e, what, c) == [regs |-> reg[e], cache |-> cfg[e].cache, debug |-> cfg[e].debug, what |-> what, c |-> c, pol |-> HasPolicy(e)]

Op(name, e, args) == [op |-> name, e |-> e] @@ args

Routes == <<"string", "template", "compiled", "data">>
Register(e, n, s) ==
    /\ cfg[e].cache                               \* registering while the cache is off: see DESIGN 5.1 (not determined)
    /\ reg' = IF IsSyntaxError(s) THEN reg ELSE [reg EXCEPT ![e][n] = s]
    /\ tree' = IF IsSyntaxError(s) THEN tree ELSE [tree EXCEPT ![e][n] = "intact"]
    \* the route: which of the engine's four ways of putting a source under a name this registration takes (RegisterString;
    \* ParseTemplate + RegisterTemplate; RegisterCompiledTemplate; LoadFromCompiledData).  The state change is the same for all
    \* four; the route is fixed by the position in the history, so that every route occurs in every surrounding
    /\ hist' = Append(hist, Op("reg", e, [n |-> n, s |-> s, ok |-> ~IsSyntaxError(s), route |-> Routes[(Len(hist) % 4) + 1]]))
    /\ UNCHANGED <<cfg, handles>>
ParseOnly(e, s) ==
    /\ hist' = Append(hist, Op("parse", e, [s |-> s, keep |-> FALSE, ok |-> ~IsSyntaxError(s)]))
    /\ UNCHANGED <<reg, cfg, handles, tree>>
ParseKeep(e, s) ==
    /\ ~IsSyntaxError(s) /\ Len(handles) < 2
    /\ handles' = Append(handles, [e |-> e, s |-> s])
    /\ hist' = Append(hist, Op("parse", e, [s |-> s, keep |-> TRUE, ok |-> TRUE]))
    /\ UNCHANGED <<reg, cfg, tree>>
DoRender(e, n, c, via) ==
    /\ hist' = Append(hist, Op("render", e, [n |-> n, c |-> c, via |-> via, key |-> ToJson(Key(e, [name |-> n], c)),
                                             \* what the deviation would make observable
                                             stale |-> (n \in Names /\ tree[e][n] = "released")]))
    /\ tree' = IF RenderReleasesRoot /\ n \in Names /\ reg[e][n] # 0 /\ cfg[e].cache
               THEN [tree EXCEPT ![e][n] = "released"] ELSE tree
    /\ UNCHANGED <<reg, cfg, handles>>
RenderHandle(h, c) ==
    /\ h \in 1..Len(handles)
    /\ hist' = Append(hist, Op("renderh", handles[h].e, [h |-> h, c |-> c,
                                key |-> ToJson(Key(handles[h].e, [src |-> handles[h].s], c)), stale |-> FALSE]))
    /\ UNCHANGED <<reg, cfg, handles, tree>>
\* the template object the caller keeps is also registered with the other engine (under a name nobody renders): the object
\* is shared, what it renders on its own engine stays what it was
RegHandle(h) ==
    /\ h \in 1..Len(handles)
    /\ hist' = Append(hist, Op("reghandle", 2, [h |-> h]))
    /\ UNCHANGED <<reg, cfg, handles, tree>>
SetCache(e, b) ==
    /\ cfg[e].cache # b
    /\ cfg' = [cfg EXCEPT ![e].cache = b]
    /\ hist' = Append(hist, Op("setcache", e, [b |-> b]))
    /\ UNCHANGED <<reg, handles, tree>>
SetDebug(e, b) ==
    /\ cfg[e].debug # b
    /\ cfg' = [cfg EXCEPT ![e].debug = b]
    /\ hist' = Append(hist, Op("setdebug", e, [b |-> b]))
    /\ UNCHANGED <<reg, handles, tree>>
GC ==
    /\ hist' = Append(hist, Op("gc", 0, EmptyFn))
    /\ UNCHANGED <<reg, cfg, handles, tree>>

\* prepared prefixes: a pair of sources that reach each other on engine 1 (include / extends / import / sandboxed include,
\* failing and succeeding ones), and a source on engine 2 (which has no policy: 13 fails there)
RichPairs == {<<37, 9>>, <<37, 19>>, <<23, 24>>, <<25, 17>>, <<25, 1>>, <<5, 17>>, <<6, 7>>, <<8, 9>>, <<8, 19>>, <<13, 14>>, <<13, 1>>, <<12, 7>>, <<18, 1>>, <<4, 1>>, <<10, 17>>}
Preps == {[p |-> p, o |-> o] : p \in RichPairs, o \in {13, 1}}
PrepReg(q) == [e \in Engines |-> IF e = 1 THEN ("n1" :> q.p[1]) @@ ("n2" :> q.p[2]) ELSE ("n1" :> q.o) @@ ("n2" :> 7)]
PrepHist(q) == <<Op("reg", 1, [n |-> "n1", s |-> q.p[1], ok |-> TRUE]), Op("reg", 1, [n |-> "n2", s |-> q.p[2], ok |-> TRUE]),
                 Op("reg", 2, [n |-> "n2", s |-> 7, ok |-> TRUE]), Op("reg", 2, [n |-> "n1", s |-> q.o, ok |-> TRUE])>>
Init == /\ cfg = [e \in Engines |-> [cache |-> TRUE, debug |-> FALSE]]
        /\ handles = <<>>
        /\ IF Prepared
           THEN \E q \in Preps : /\ reg = PrepReg(q) /\ hist = PrepHist(q)
                                  /\ tree = [e \in Engines |-> [n \in Names |-> IF PrepReg(q)[e][n] # 0 THEN "intact" ELSE "none"]]
           ELSE /\ reg = [e \in Engines |-> [n \in Names |-> 0]] /\ hist = <<>>
                /\ tree = [e \in Engines |-> [n \in Names |-> "none"]]

\* engine 1 gets the full alphabet, engine 2 ("activity on another engine") a reduced one
PreparedNext ==
    /\ Len(hist) < MaxLen
    /\ \/ \E n \in Names \cup LoaderNames : \E c \in {1, 2} : DoRender(1, n, c, IF c = 1 THEN "render" ELSE "renderto")
       \/ DoRender(1, "n1", 3, "render")
       \/ \E n \in FsNames : DoRender(1, n, 1, "render")
       \/ DoRender(2, "n1", 1, "render")
       \/ GC
       \* (the second name is registered again with a source of the same kind -- a library, a layout, an included page: what the
       \* first name renders from then on is what a fresh engine with these registrations renders)
       \/ \E s \in {9, 19, 7, 17} : (reg[1]["n2"] \in {9, 19, 7, 17} /\ reg[1]["n2"] # s /\ Register(1, "n2", s))
FullNext ==
    /\ Len(hist) < MaxLen
    /\ \/ \E n \in Names : \E s \in SrcFor(n) : Register(1, n, s)
       \/ \E s \in {1, 3, 6} : ParseOnly(1, s)
       \/ \E s \in {2, 5, 26, 29} : ParseKeep(1, s)
       \/ \E h \in 1..2 : RegHandle(h)
       \/ \E n \in Names \cup LoaderNames : \E c \in {1, 2} : DoRender(1, n, c, IF c = 1 THEN "render" ELSE "renderto")
       \/ DoRender(1, "n1", 3, "render")
       \/ \E n \in FsNames : DoRender(1, n, 1, "render")
       \/ \E h \in 1..2 : RenderHandle(h, 1)
       \/ \E b \in BOOLEAN : SetCache(1, b)
       \/ \E b \in BOOLEAN : SetDebug(1, b)
       \/ GC
       \/ Register(2, "n1", 1) \/ Register(2, "n2", 7) \/ Register(2, "n1", 6) \/ Register(2, "n1", 13)
       \/ DoRender(2, "n1", 1, "render") \/ ParseOnly(2, 3)
Next == IF Prepared THEN PreparedNext ELSE FullNext
vars == <<reg, cfg, handles, hist, tree>>
Spec == Init /\ [][Next]_vars

\* ---- properties ---------------------------------------------------------------------------
IsRenderStep == hist' # hist /\ hist'[Len(hist')].op \in {"render", "renderh"}
RenderPure == [][IsRenderStep => UNCHANGED <<reg, cfg, handles>>]_vars
FailedOpsPure == [][(hist' # hist /\ "ok" \in DOMAIN hist'[Len(hist')] /\ ~hist'[Len(hist')].ok) => UNCHANGED <<reg, cfg, handles>>]_vars
\* refinement obligation: no render ever observes a released tree
NoStaleRender == \A i \in 1..Len(hist) : hist[i].op \in {"render", "renderh"} => ~hist[i].stale

\* ---- emission ---------------------------------------------------------------------------------
Header == [hdr |-> TRUE, prop |-> "C01",
           sources |-> [id \in AllSrc |-> SrcPieces(id)],       \* printed as a JSON array: index id-1
           ctxs |-> [c \in CtxIds |-> CtxOf(c)],
           loader |-> [n3 |-> LoaderSrc, pm |-> 27, pb |-> 28, ph |-> 30, sh |-> 30, sb |-> 31, lb |-> 32, phq |-> 35, shq |-> 36],
           fs |-> <<[n5 |-> 20], [n4 |-> 21, n5 |-> 22]>>,          \* search paths in order: name -> source id
           nopolicy |-> {e \in Engines : ~HasPolicy(e)},
           policy |-> [filters |-> {"upper", "default", "escape"}, functions |-> {"parent", "range"}]]
Complete == Len(hist) = MaxLen /\ hist[MaxLen].op \in {"render", "renderh"}
OpTags == {hist[i].op : i \in 1..Len(hist)}
ASSUME PrintT(ToJson(Header))
Emit == Complete => PrintT(ToJson([prop |-> "C01", key |-> ToJson(hist), tags |-> {"op:" \o o : o \in OpTags}, ops |-> hist]))
=============================================================================
