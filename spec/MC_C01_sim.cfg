SPECIFICATION Spec
CONSTANTS
  MaxLen = 24
  RenderReleasesRoot = FALSE
INVARIANTS
  NoStaleRender
  Emit
CHECK_DEADLOCK FALSE
