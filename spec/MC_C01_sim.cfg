SPECIFICATION Spec
CONSTANTS
  Prepared = FALSE
  MaxLen = 24
  RenderReleasesRoot = FALSE
INVARIANTS
  NoStaleRender
  Emit
CHECK_DEADLOCK FALSE
