------------------------------- MODULE MC_C12 -------------------------------
(***************************************************************************)
(* C12: macros bind arguments positionally with defaults, alike however    *)
(* they are reached.  Signatures of arity 0..MaxArity with every subset of *)
(* defaults, argument lists of 0..arity+1 arguments, three body kinds,     *)
(* five call forms (local, _self, import as, from import, from import as)  *)
(* and the call sites top / loop / block / if / include / other macro.     *)
(* All call forms of a case have the same expectation (checked on the      *)
(* model: FormsAgree) and are rendered by the real engine.                 *)
(***************************************************************************)
EXTENDS TwigSyntax, Json

CONSTANTS MaxArity
VARIABLE cs

T(s) == Text(s)
PNames == <<"a", "b", "c">>
DefaultOf(i) == CASE i = 1 -> Bin("+", LI(2), LI(3)) [] i = 2 -> LS(<<100, 39, 92, 101>>) [] i = 3 -> LI(0)      \* (a string with a quote and a backslash in it)
ArgOf(i) == CASE i = 1 -> LI(10) [] i = 2 -> Bin("+", Var("x"), LI(1)) [] i = 3 -> LS(<<113>>) [] i = 4 -> LI(40)

Params(ar, defs) == [i \in 1..ar |-> IF i \in defs THEN ParamD(PNames[i], DefaultOf(i)) ELSE Param(PNames[i])]
Args(n) == [i \in 1..n |-> ArgOf(i)]
\* an explicit null is an argument like any other: it is bound, the default is not used
ArgsNullLast(n) == [i \in 1..n |-> IF i = n THEN Lit(Null) ELSE ArgOf(i)]
ArgsUndefLast(n) == [i \in 1..n |-> IF i = n THEN Var("nosuchvar") ELSE ArgOf(i)]
\* an argument that is itself a macro call (the helper hh, reached the same way as the macro): every argument keeps its own value
HelperCall(form, as) == CASE form \in {"self", "selfshadow"} -> MCall("_self", "hh", as) [] form = "import" -> MCall("L", "hh", as) [] OTHER -> Call("hh", as)
ArgsNested(n, form, pos) == [i \in 1..n |-> IF (pos = "last" /\ i = n) \/ (pos = "first" /\ i = 1) \/ pos = "all" THEN HelperCall(form, <<ArgOf(i)>>) ELSE ArgOf(i)]
ArgsOfF(c, form) == IF "argstyle" \notin DOMAIN c \/ c.argstyle = "plain" THEN Args(c.n)
             ELSE IF c.argstyle = "nulllast" THEN ArgsNullLast(c.n) ELSE IF c.argstyle = "undeflast" THEN ArgsUndefLast(c.n)
             ELSE IF c.argstyle = "nestedlast" THEN ArgsNested(c.n, form, "last") ELSE IF c.argstyle = "nestedfirst" THEN ArgsNested(c.n, form, "first")
             ELSE ArgsNested(c.n, form, "all")

BodyKinds == {"print", "sets", "nested"}
\* a body reads only its own parameters and what it assigns itself (whether it may
\* read the caller's other variables is not stated by the property)
PrintParams(ar) == <<T(<<91>>)>> \o Flatten([i \in 1..ar |-> <<PrintS(Var(PNames[i])), T(<<124>>)>>]) \o <<T(<<93>>)>>
MacroBody(bk, ar) ==
    CASE bk = "print" -> PrintParams(ar)
      [] bk = "sets"  -> <<Set("a", LI(99)), Set("w", LI(7))>> \o PrintParams(ar) \o <<PrintS(Var("w")), PrintS(Var("a"))>>
      [] bk = "nested" -> <<T(<<60>>), PrintS(Call("hh", <<Var("a")>>)), T(<<62>>)>> \o PrintParams(ar)
Helper == Macro("hh", <<Param("v")>>, <<T(<<104>>), PrintS(Var("v"))>>)

\* (localshadow / selfshadow / fromshadow: a library that has a macro of the same name is imported under an alias afterwards;
\* the plain name and _self still mean the template's own macro)
Forms == {"local", "self", "import", "from", "fromas", "rebind", "localshadow", "selfshadow", "fromshadow"}
Sites == {"top", "loop", "block", "if", "include", "macro", "childblock"}

\* the call expression in the given form
\* mn: the macro's name ("mm", or the name of a built-in function: a macro is called, not the function)
MName(c) == IF "mn" \in DOMAIN c THEN c.mn ELSE "mm"
CallExpr(mn, form, as) ==
    CASE form = "local"  -> Call(mn, as)
      [] form = "self"   -> MCall("_self", mn, as)
      [] form = "import" -> MCall("L", mn, as)
      [] form = "from"   -> Call(mn, as)
      [] form = "fromas" -> Call("qq", as)
      [] form = "rebind" -> Call(mn, as)
      [] form = "localshadow" -> Call(mn, as)
      [] form = "selfshadow" -> MCall("_self", mn, as)
      [] form = "fromshadow" -> Call(mn, as)
ImportStmt(mn, form) ==
    CASE form = "import" -> <<Import(LS(NT.t1), "L")>>
      [] form = "from"   -> <<From(LS(NT.t1), <<mn>>, <<mn>>)>>
      [] form = "fromas" -> <<From(LS(NT.t1), <<mn>>, <<"qq">>)>>
      [] form = "rebind" -> <<From(LS(NT.t3), <<mn>>, <<mn>>), From(LS(NT.t1), <<mn>>, <<mn>>)>>
      [] form = "fromshadow" -> <<From(LS(NT.t1), <<mn>>, <<mn>>), Import(LS(NT.t3), "L")>>
      [] OTHER -> <<>>
OtherLib(mn) == <<Macro(mn, <<Param("a"), Param("b"), Param("c")>>, <<T(<<79, 84, 72, 69, 82>>)>>),     \* prints OTHER
                  Macro("hh", <<Param("v")>>, <<T(<<79, 72>>)>>)>>                                            \* a helper of the same name: OH
IsLocalForm(form) == form \in {"local", "self", "localshadow", "selfshadow"}

\* the caller's probe after the call: assignments in the body are invisible
After == <<T(<<94>>), PrintS(Var("a")), T(<<124>>), PrintS(Var("w")), T(<<36>>)>>

\* dk = "spy": the default expressions are spy calls (every call that omits the argument evaluates its default again)
ParamsOf(c) == IF "dk" \in DOMAIN c /\ c.dk = "spy"
               THEN [i \in 1..c.ar |-> IF i \in c.defs THEN ParamD(PNames[i], Spy("sp", "d" \o ToString(i), DefaultOf(i))) ELSE Param(PNames[i])]
               ELSE Params(c.ar, c.defs)
Defs(c) == <<Helper, Macro(MName(c), ParamsOf(c), MacroBody(c.bk, c.ar))>>
\* what stands before the call site
Prefix(c, form) == IF form \in {"localshadow", "selfshadow"} THEN Defs(c) \o <<Import(LS(NT.t3), "L")>>
                   ELSE IF IsLocalForm(form) THEN Defs(c) ELSE ImportStmt(MName(c), form)

Site(c, form, callStmts) ==
    CASE c.site = "top"   -> callStmts \o After
      [] c.site = "loop"  -> <<For1("i", Lit(VL(<<VI(1), VI(2)>>)), callStmts)>> \o After
      [] c.site = "block" -> <<Block("bb", callStmts)>> \o After
      [] c.site = "if"    -> <<IfElse(Var("x"), callStmts, <<T(<<78>>)>>)>> \o After
      [] c.site = "macro" -> <<Macro("oo", <<Param("x")>>, <<T(<<40>>)>> \o callStmts \o <<T(<<41>>)>>),
                               PrintS(Call("oo", <<Var("x")>>))>> \o After
      [] c.site = "include" -> <<Inc(LS(NT.t2))>> \o After
      \* the template extends a layout: what it defines / imports at its top level is in force inside its blocks
      [] c.site = "childblock" -> <<Block("bb", callStmts)>>

Tp(c, form) ==
    LET ce == CallExpr(MName(c), form, ArgsOfF(c, form))
        \* use = "expr": the call inside larger expressions means the text it renders
        call == IF "use" \in DOMAIN c /\ c.use = "expr"
                THEN <<PrintS(Filt("upper", ce, <<>>)), PrintS(Bin("~", ce, LS(<<122>>))), Set("q", ce), PrintS(Var("q")), PrintS(Filt("length", ce, <<>>)),
                       \* the name alone is no call: there is no such variable
                       T(<<40>>), PrintS(Var(MName(c))), PrintS(Filt("default", Var(MName(c)), <<LS(<<122>>)>>)), T(<<41>>)>>
                ELSE <<PrintS(ce)>> IN
    IF c.site = "include" THEN
        ("main" :> Site(c, form, <<>>))
        @@ ("t2" :> Prefix(c, form) \o call)
        @@ ("t1" :> Defs(c)) @@ ("t3" :> OtherLib(MName(c)))
    ELSE IF c.site = "childblock" THEN
        ("main" :> <<Extends(LS(NT.t4))>> \o Prefix(c, form) \o <<T(<<106>>)>> \o Site(c, form, call))
        @@ ("t4" :> <<T(<<91>>), Block("bb", <<T(<<100>>)>>), T(<<93>>)>>)
        @@ ("t1" :> Defs(c)) @@ ("t3" :> OtherLib(MName(c)))
    ELSE
        ("main" :> Prefix(c, form) \o Site(c, form, call))
        @@ ("t1" :> Defs(c)) @@ ("t3" :> OtherLib(MName(c)))

\* sibling calls and calls from inside another macro only in the local forms (the
\* property does not say which imports a macro body sees)
\* (a macro of a library sees the library's other macros: "nested" bodies by every route; which imports the body of a
\* macro of the calling template sees is not stated: site "macro" only in the local form)
FormApplies(c, form) == /\ (c.site = "macro") => form = "local"
                        /\ (c.argstyle \in {"nestedlast", "nestedfirst", "nestedall"}) => form \in {"local", "self", "import", "localshadow", "selfshadow"}

Cases == {[ar |-> ar, defs |-> defs, n |-> n, bk |-> bk, site |-> site, argstyle |-> st]
            : ar \in 0..MaxArity, defs \in SUBSET (1..MaxArity), n \in 0..(MaxArity + 1), bk \in BodyKinds, site \in Sites,
              st \in {"plain", "nulllast", "undeflast", "nestedlast", "nestedfirst", "nestedall"}}
\* macros named like built-in functions; defaults that are spy calls, the macro called several times (loop) and in two renders
NamedCases == {[ar |-> 2, defs |-> {2}, n |-> n, bk |-> "print", site |-> site, argstyle |-> "plain", mn |-> mn]
                 : n \in 0..3, site \in {"top", "loop", "include"}, mn \in {"max", "range", "min", "date", "length"}}
SpyDefCases == {[ar |-> ar, defs |-> defs, n |-> n, bk |-> "print", site |-> site, argstyle |-> "plain", dk |-> "spy"]
                 : ar \in 1..2, defs \in (SUBSET (1..2)) \ {{}}, n \in 0..2, site \in {"top", "loop", "block", "include"}}
ExprCases == {[ar |-> 1, defs |-> {}, n |-> 1, bk |-> bk, site |-> site, argstyle |-> "plain", use |-> "expr"]
                : bk \in {"print", "nested"}, site \in {"top", "loop", "block", "childblock"}}
Valid(c) == /\ c.defs \subseteq 1..c.ar /\ c.n <= c.ar + 1 /\ (c.bk = "nested" => c.ar >= 1)
            /\ (c.argstyle \in {"nulllast", "undeflast"} => c.n >= 1 /\ c.n <= c.ar /\ c.bk = "print" /\ c.site \in {"top", "loop"})
            /\ (c.argstyle \in {"nestedlast", "nestedfirst", "nestedall"} => c.n >= 2 /\ c.n <= c.ar /\ c.bk \in {"print", "nested"} /\ c.site \in {"top", "loop", "block", "macro", "include"})

Ctx == ("a" :> VI(1)) @@ ("x" :> VI(5))
World(tp) == MkW(tp, {}, {}, NoFault)
Ref(c, form) == Render(World(Tp(c, form)), "main", Ctx)

FormsAgree(c) == \A f \in {g \in Forms : FormApplies(c, g)} : Ref(c, f).ok = Ref(c, "local").ok /\ Ref(c, f).out = Ref(c, "local").out

CaseOf(c) ==
    LET ref == Ref(c, "local") IN
    [prop |-> "C12", key |-> ToJson(c),
     tags |-> {"arity:" \o ToString(c.ar), "argc:" \o ToString(c.n), "body:" \o c.bk, "site:" \o c.site}
              \cup {"default:" \o ToString(i) : i \in c.defs}
              \cup {"args:" \o c.argstyle, "name:" \o MName(c)} \cup (IF "use" \in DOMAIN c THEN {"use:expr"} ELSE {}) \cup (IF "dk" \in DOMAIN c THEN {"spydefault"} ELSE {}) \cup (IF c.n > c.ar THEN {"extra-arg"} ELSE {}) \cup (IF c.n < c.ar THEN {"omitted-arg"} ELSE {}),
     entry |-> "main", ctx |-> Ctx,
     runs |-> {[label |-> f, tp |-> Sources(Tp(c, f), LMin), xcalls |-> [id \in {} |-> 0], again |-> 1]
                : f \in {g \in Forms : FormApplies(c, g)}},
     expect |-> [ok |-> ref.ok, out |-> ref.out, err |-> ref.err, calls |-> [id \in {"d1", "d2"} |-> CountOf(ref.calls, id)]]]

\* ---- one name, from-imported from the other library AND defined by the template itself -------------------------------------
\* Which of the two the name then means is stated nowhere.  Either way the macro that runs is one macro: the template's own
\* (and what it calls are the template's own macros) or the library's (with the library's) -- never the body of one with the
\* siblings of the other.  Expectation: the first; alternative accepted: the second.
ClashCases == {[clash |-> order, ar |-> 1, defs |-> {}, n |-> 1, bk |-> bk, site |-> site, argstyle |-> "plain"]
                 : order \in {"fromfirst", "localfirst"}, bk \in {"print", "nested"}, site \in {"top", "loop", "block", "if"}}
ClashCall(c) == <<PrintS(CallExpr("mm", "local", ArgsOfF(c, "local")))>>
ClashTp(c) == ("main" :> (IF c.clash = "fromfirst" THEN <<From(LS(NT.t3), <<"mm">>, <<"mm">>)>> \o Defs(c) ELSE Defs(c) \o <<From(LS(NT.t3), <<"mm">>, <<"mm">>)>>)
                         \o Site(c, "local", ClashCall(c)))
              @@ ("t3" :> OtherLib("mm"))
LibOnlyTp(c) == ("main" :> <<From(LS(NT.t3), <<"mm">>, <<"mm">>)>> \o Site(c, "local", ClashCall(c))) @@ ("t3" :> OtherLib("mm"))
CaseOfClash(c) ==
    LET own == Ref(c, "local")
        lib == Render(World(LibOnlyTp(c)), "main", Ctx) IN
    [prop |-> "C12", key |-> ToJson(c), tags |-> {"clash:" \o c.clash, "body:" \o c.bk, "site:" \o c.site}, entry |-> "main", ctx |-> Ctx,
     runs |-> {[label |-> "clash", tp |-> Sources(ClashTp(c), LMin), xcalls |-> [id \in {} |-> 0], again |-> 1, alt |-> lib.out]},
     expect |-> [ok |-> TRUE, out |-> own.out, err |-> "", calls |-> [id \in {} |-> 0]]]
ClashModelOK(c) == Ref(c, "local").ok /\ Render(World(LibOnlyTp(c)), "main", Ctx).ok /\ Ref(c, "local").out # Render(World(LibOnlyTp(c)), "main", Ctx).out

\* ---- two libraries with macros of the same names --------------------------------------------------------------------------
\* The template from-imports mm from library A (t1: mm calls its sibling hh) and reaches library B (t3: its own mm, its own hh)
\* by import-as, by an aliased from-import, or through an included template that defines the pair itself.  A macro calls the
\* siblings of its own library, whatever the caller has imported under the same names.
LibB == <<Macro("mm", <<Param("a")>>, <<T(<<66>>), PrintS(Call("hh", <<Var("a")>>))>>), Macro("hh", <<Param("v")>>, <<T(<<79, 72>>), PrintS(Var("v"))>>)>>
TwoLibCases == {[twolibs |-> r, ar |-> 1, defs |-> {}, n |-> 1, bk |-> "nested", site |-> site, argstyle |-> "plain"]
                  \* (ownhelper / ownhelperimp: the calling template has a macro of its own under the NAME of the library's helper)
                  : r \in {"import", "fromas", "include", "includefrom", "ownhelper", "ownhelperimp"}, site \in {"top", "loop", "block"}}
TwoLibTp(c) ==
    LET callA == IF c.twolibs = "ownhelperimp" THEN PrintS(MCall("K", "mm", <<LI(10)>>)) ELSE PrintS(Call("mm", <<LI(10)>>))
        own == IF c.twolibs \in {"ownhelper", "ownhelperimp"} THEN <<Macro("hh", <<Param("v")>>, <<T(<<76, 79, 67>>)>>)>> ELSE <<>>
        reach == CASE c.twolibs = "import" -> <<Import(LS(NT.t3), "L")>> [] c.twolibs = "fromas" -> <<From(LS(NT.t3), <<"mm">>, <<"qq">>)>> [] OTHER -> <<>>
        callB == CASE c.twolibs = "import" -> PrintS(MCall("L", "mm", <<LI(7)>>)) [] c.twolibs = "fromas" -> PrintS(Call("qq", <<LI(7)>>))
                   [] c.twolibs \in {"ownhelper", "ownhelperimp"} -> PrintS(Call("hh", <<LI(7)>>)) [] OTHER -> Inc(LS(NT.t2))
    IN ("main" :> own \o (IF c.twolibs = "ownhelperimp" THEN <<Import(LS(NT.t1), "K")>> ELSE <<From(LS(NT.t1), <<"mm">>, <<"mm">>)>>) \o reach \o Site(c, "local", <<callA, T(<<124>>), callB, T(<<124>>), callA>>))
       @@ ("t1" :> Defs(c)) @@ ("t3" :> LibB)
       @@ ("t2" :> IF c.twolibs = "include" THEN LibB \o <<PrintS(Call("mm", <<LI(7)>>))>> ELSE <<From(LS(NT.t3), <<"mm">>, <<"mm">>), PrintS(Call("mm", <<LI(7)>>))>>)
CaseOfTwoLibs(c) ==
    LET ref == Render(World(TwoLibTp(c)), "main", Ctx) IN
    [prop |-> "C12", key |-> ToJson(c), tags |-> {"twolibs:" \o c.twolibs, "site:" \o c.site}, entry |-> "main", ctx |-> Ctx,
     runs |-> {[label |-> "twolibs", tp |-> Sources(TwoLibTp(c), LMin), xcalls |-> [id \in {} |-> 0], again |-> 1]},
     expect |-> [ok |-> ref.ok, out |-> ref.out, err |-> ref.err, calls |-> [id \in {} |-> 0]]]

\* ---- a library reached through a hash that holds it ------------------------------------------------------------------------
\* {% set ui = {'forms': L} %}{{ ui.forms.mm(..) }}: whether a macro can be called through such a path is not stated (the call may
\* fail); if it renders, it renders the library's macro -- not the template's own macro of that name
PathCases == {[path |-> w, ar |-> 1, defs |-> {}, n |-> 1, bk |-> bk, site |-> site, argstyle |-> "plain"] : w \in {"hash"}, bk \in {"print", "nested"}, site \in {"top", "loop", "block", "if"}}
PathTp(c, viaPath) ==
    LET own == Macro("mm", <<Param("a")>>, <<T(<<111, 119, 110>>)>>)
        call == IF viaPath THEN PrintS([k |-> "mcall", al |-> "ui.forms", f |-> "mm", args |-> <<LI(10)>>]) ELSE PrintS(MCall("L", "mm", <<LI(10)>>)) IN
    IF c.path = "hash"
    THEN ("main" :> <<own, Import(LS(NT.t1), "L")>> \o (IF viaPath THEN <<Set("ui", Hash(<<LS(<<102, 111, 114, 109, 115>>)>>, <<Var("L")>>))>> ELSE <<>>) \o Site(c, "local", <<call>>)) @@ ("t1" :> Defs(c))
    ELSE ("main" :> <<own, Import(LS(NT.t1), "L"), Include(LS(NT.t2), IF viaPath THEN Hash(<<LS(<<117, 105>>)>>, <<Hash(<<LS(<<102, 111, 114, 109, 115>>)>>, <<Var("L")>>)>>) ELSE Hash(<<LS(<<76>>)>>, <<Var("L")>>), TRUE, FALSE, FALSE, FALSE)>>)
         @@ ("t2" :> <<own>> \o Site(c, "local", <<call>>)) @@ ("t1" :> Defs(c))
CaseOfPath(c) ==
    LET ref == Render(World(PathTp(c, FALSE)), "main", Ctx) IN
    [prop |-> "C12", key |-> ToJson(c), tags |-> {"path:" \o c.path, "body:" \o c.bk, "site:" \o c.site}, entry |-> "main", ctx |-> Ctx,
     runs |-> {[label |-> "path", tp |-> Sources(PathTp(c, TRUE), LMin), xcalls |-> [id \in {} |-> 0], again |-> 1, mayfail |-> TRUE]},
     expect |-> [ok |-> ref.ok, out |-> ref.out, err |-> ref.err, calls |-> [id \in {} |-> 0]]]

\* ---- macros that call themselves / each other to a depth of n: every level binds its own argument -------------------------
\* (the expectation is written down directly: n, n-1, ... 0 separated by dots)
DeepNs == {3, 31, 32, 33, 34, 64, 100}
DeepForms == {"name", "self", "import", "pair"}
DeepCases == {[deep |-> n, form |-> f] : n \in DeepNs, f \in DeepForms}
Down(callself) == Macro("down", <<Param("n")>>, <<PrintS(Var("n")), T(<<46>>), If1(Bin(">", Var("n"), LI(0)), <<PrintS(callself)>>)>>)
DeepTp(c) ==
    CASE c.form = "name" -> ("main" :> <<Down(Call("down", <<Bin("-", Var("n"), LI(1))>>)), PrintS(Call("down", <<LI(c.deep)>>))>>)
      [] c.form = "self" -> ("main" :> <<Down(MCall("_self", "down", <<Bin("-", Var("n"), LI(1))>>)), PrintS(MCall("_self", "down", <<LI(c.deep)>>))>>)
      [] c.form = "import" -> ("main" :> <<Import(LS(NT.t1), "L"), PrintS(MCall("L", "down", <<LI(c.deep)>>))>>)
                              @@ ("t1" :> <<Down(MCall("_self", "down", <<Bin("-", Var("n"), LI(1))>>))>>)
      [] c.form = "pair" -> ("main" :> <<Macro("down", <<Param("n")>>, <<PrintS(Var("n")), T(<<46>>), If1(Bin(">", Var("n"), LI(0)), <<PrintS(Call("up", <<Bin("-", Var("n"), LI(1))>>))>>)>>),
                                         Macro("up", <<Param("m")>>, <<PrintS(Call("down", <<Var("m")>>))>>), PrintS(Call("down", <<LI(c.deep)>>))>>)
RECURSIVE CountDown(_)
CountDown(n) == NatDigits(n) \o <<46>> \o (IF n = 0 THEN <<>> ELSE CountDown(n - 1))
CaseOfDeep(c) ==
    [prop |-> "C12", key |-> ToJson(c), tags |-> {"deep", "form:" \o c.form}, entry |-> "main", ctx |-> Ctx,
     runs |-> {[label |-> "deep", tp |-> Sources(DeepTp(c), LMin), xcalls |-> [id \in {} |-> 0], again |-> 1]},
     expect |-> [ok |-> TRUE, out |-> CountDown(c.deep), err |-> "", calls |-> [id \in {} |-> 0]]]
\* on the model: for a depth the reference semantics reaches, it agrees with the formula
DeepAgrees == \A f \in DeepForms : Render(World(DeepTp([deep |-> 2, form |-> f])), "main", Ctx).out = CountDown(2)
ASSUME DeepAgrees

Init == cs \in DeepCases \cup ClashCases \cup TwoLibCases \cup PathCases \cup {c \in Cases \cup NamedCases \cup SpyDefCases \cup ExprCases : Valid(c) /\ Ref(c, "local").ok}
Next == UNCHANGED cs
Spec == Init /\ [][Next]_cs
Emit == PrintT(ToJson(IF "deep" \in DOMAIN cs THEN CaseOfDeep(cs) ELSE IF "clash" \in DOMAIN cs THEN CaseOfClash(cs) ELSE IF "twolibs" \in DOMAIN cs THEN CaseOfTwoLibs(cs)
                      ELSE IF "path" \in DOMAIN cs THEN CaseOfPath(cs) ELSE CaseOf(cs)))
ModelOK == "deep" \in DOMAIN cs \/ (IF "clash" \in DOMAIN cs THEN ClashModelOK(cs)
                                  ELSE IF "twolibs" \in DOMAIN cs THEN Render(World(TwoLibTp(cs)), "main", Ctx).ok
                                  ELSE IF "path" \in DOMAIN cs THEN Render(World(PathTp(cs, FALSE)), "main", Ctx).ok ELSE FormsAgree(cs))
=============================================================================
