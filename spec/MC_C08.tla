------------------------------- MODULE MC_C08 -------------------------------
(***************************************************************************)
(* C08: expressions follow the operator table and mean the same in every   *)
(* position.  TLC enumerates typed expression trees (every well-typed      *)
(* choice of operators on every tree shape with up to MaxOps operators),   *)
(* evaluates them with the reference semantics, prints each with minimal   *)
(* and full parentheses / several spacings / in every syntactic position,  *)
(* and emits one JSON case per tree.  Model-level invariants:              *)
(*   TableSound  - a precedence-climbing reader driven only by Prec        *)
(*                 recovers the tree from its minimal-parentheses text      *)
(*   PositionsAgree - the reference semantics itself gives the same        *)
(*                 observation in every position (sanity of the wrappers)   *)
(***************************************************************************)
EXTENDS C08Reader, Json

CONSTANTS RichLeaves,    \* TRUE: leaves also include attribute/index access, filters, tests, function calls
          MaxOps,        \* trees with 0..MaxOps binary operators
          PosOps         \* trees with <= PosOps operators are also placed in every position / spacing
VARIABLE cs

\* ---- context -----------------------------------------------------------------
sAB == <<97, 98>>      \* "ab"
sB  == <<98>>          \* "b"
Ctx == ("a" :> VI(7)) @@ ("b" :> VI(2)) @@ ("s" :> VS(sB)) @@ ("p" :> VB(TRUE)) @@ ("q" :> VB(FALSE))

\* RichLeaves: operands that are attribute / index accesses, filter applications (with arguments), tests and calls
IntLeaves  == {LI(2), LI(3), Var("a")} \cup (IF RichLeaves THEN {Attr(Var("o"), "x"), Item(Var("l"), LI(1)), Filt("length", Var("s"), <<>>),
                                                                Filt("default", Var("nosuchvar"), <<LI(4)>>), Call("max", <<LI(1), LI(5)>>)} ELSE {})
StrLeaves  == {LS(sAB), Var("s")} \cup (IF RichLeaves THEN {Filt("upper", Var("s"), <<>>), Filt("join", Var("l"), <<LS(<<45>>)>>)} ELSE {})
BoolLeaves == {LB(TRUE), Var("q")} \cup (IF RichLeaves THEN {Test(Var("a"), "defined", <<>>, FALSE), Test(Var("nosuchvar"), "defined", <<>>, FALSE),
                                                             Test(Var("b"), "even", <<>>, FALSE), Test(Var("a"), "even", <<>>, TRUE)} ELSE {})
ListLeaves == {Lit(VL(<<VI(2), VI(6)>>))}
PatLeaves  == {LS(<<47, 98, 47>>), LS(<<47, 66, 47, 105>>), LS(<<47, 66, 47>>)}          \* '/b/', '/B/i', '/B/'

ArithOps == {"+", "-", "*", "/", "%", "^"}
CmpIOps  == {"==", "!=", "<", ">", "<=", ">="}
CmpSOps  == {"==", "!=", "starts with", "ends with", "in"}

\* GenOp(ty, n, op): trees of type ty with exactly n >= 1 binary operators and top operator op
\* Gen(ty, n): all trees of type ty with exactly n binary operators
RECURSIVE Gen(_, _), GenOp(_, _, _)
Splits(n) == {<<i, n - 1 - i>> : i \in 0..(n - 1)}
OpsOf(ty) == CASE ty = "int" -> ArithOps [] ty = "str" -> {"~"}
               [] ty = "bool" -> CmpIOps \cup CmpSOps \cup {"matches", "in", "not in", "and", "or"}
               [] OTHER -> {}
\* operand types of op when the result type is ty: set of <<left type, right type>>
Sig(ty, op) ==
    CASE ty = "int" -> {<<"int", "int">>}
      [] ty = "str" -> {<<"is", "is">>}
      [] ty = "bool" ->
           (IF op \in CmpIOps THEN {<<"int", "int">>} ELSE {})
           \cup (IF op \in CmpSOps THEN {<<"str", "str">>} ELSE {})
           \cup (IF op = "matches" THEN {<<"str", "pat">>} ELSE {})
           \cup (IF op \in {"in", "not in"} THEN {<<"int", "list">>} ELSE {})
           \cup (IF op \in {"and", "or"} THEN {<<"bool", "bool">>} ELSE {})
GenOp(ty, n, op) ==
    UNION { UNION { {Bin(op, l, r) : l \in Gen(sg[1], sp[1]), r \in Gen(sg[2], sp[2])} : sg \in Sig(ty, op) } : sp \in Splits(n) }
Gen(ty, n) ==
    IF n = 0 THEN
        CASE ty = "int" -> IntLeaves [] ty = "str" -> StrLeaves [] ty = "bool" -> BoolLeaves
          [] ty = "list" -> ListLeaves [] ty = "pat" -> PatLeaves [] ty = "is" -> IntLeaves \cup StrLeaves
    ELSE IF ty \in {"list", "pat"} THEN {}
    ELSE IF ty = "is" THEN Gen("int", n) \cup Gen("str", n)
    ELSE UNION {GenOp(ty, n, op) : op \in OpsOf(ty)}

\* The tree space is cut into partitions (type, operator count, top operator) so that
\* TLC's workers expand them in parallel: the initial states are the partitions, the
\* successors of a partition are its trees.
TopOps(ty) == OpsOf(ty)
Parts == {[k |-> "part", ty |-> ty, n |-> n, op |-> op] : ty \in {"int", "str", "bool"}, n \in 1..MaxOps, op \in BinOps}
         \cup {[k |-> "part", ty |-> ty, n |-> 0, op |-> "leaf"] : ty \in {"int", "str", "bool"}}
         \cup {[k |-> "part", ty |-> "spy", n |-> 0, op |-> "spy"]}
TreesOfPart(p) ==
    IF p.ty = "spy" THEN {}
    ELSE IF p.n = 0 THEN {[ty |-> p.ty, e |-> e] : e \in Gen(p.ty, 0)}
    ELSE IF p.op \notin TopOps(p.ty) THEN {}
    ELSE {[ty |-> p.ty, e |-> e] : e \in GenOp(p.ty, p.n, p.op)}

\* ---- short-circuit / conditional trees with spies (fixed families) -------------
\* operands wrapped in sp('id', x): per-position ids, counts compared, never order
SpyTrees ==
    {[ty |-> "bool", e |-> Bin(op, Spy("sp", "s1", l), Spy("sp", "s2", r))] :
        op \in {"and", "or"}, l \in {LB(TRUE), LB(FALSE)}, r \in {LB(TRUE), LB(FALSE)}}
    \cup {[ty |-> "bool", e |-> Bin(op1, Bin(op2, Spy("sp", "s1", l), Spy("sp", "s2", m)), Spy("sp", "s3", r))] :
        op1 \in {"and", "or"}, op2 \in {"and", "or"}, l \in {LB(TRUE), LB(FALSE)}, m \in {LB(TRUE), LB(FALSE)}, r \in {LB(TRUE), LB(FALSE)}}
    \cup {[ty |-> "bool", e |-> Bin(op1, Spy("sp", "s1", l), Bin(op2, Spy("sp", "s2", m), Spy("sp", "s3", r)))] :
        op1 \in {"and", "or"}, op2 \in {"and", "or"}, l \in {LB(TRUE), LB(FALSE)}, m \in {LB(TRUE), LB(FALSE)}, r \in {LB(TRUE), LB(FALSE)}}
    \* and / or decide by truthiness of any value, and still skip the right operand
    \cup {[ty |-> "bool", e |-> Bin(op, Spy("sp", "s1", l), Spy("sp", "s2", r))] :
        op \in {"and", "or"}, l \in {LI(0), LI(5), LS(<<>>), LS(<<97>>), Lit(Null), Arr(<<>>), Arr(<<LI(0)>>), Var("a"), Bin("-", Var("a"), Var("a"))},
        r \in {LB(TRUE), LI(0), LS(<<97>>)}}
    \cup {[ty |-> "bool", e |-> Bin(op, l, Bin(">", Bin("/", LI(6), Spy("sp", "s2", r)), LI(1)))] :
        op \in {"and", "or"}, l \in {LI(0), LI(5), Var("a"), Bin("-", Var("a"), Var("a")), LS(<<>>)}, r \in {LI(2), LI(3)}}
    \cup {[ty |-> "int", e |-> Cond(Spy("sp", "s1", c), Spy("sp", "s2", LI(2)), Spy("sp", "s3", LI(3)))] :
        c \in {LB(TRUE), LB(FALSE), LI(0), LI(5)}}
    \cup {[ty |-> "int", e |-> Cond(Bin(op, l, r), Bin("+", LI(1), Spy("sp", "s2", LI(2))), Bin("*", Spy("sp", "s3", LI(3)), LI(2)))] :
        op \in {"<", "=="}, l \in {LI(2), Var("a")}, r \in {LI(2), LI(3)}}
    \cup {[ty |-> "int", e |-> Bin(op, Un("-", l), r)] : op \in {"+", "-", "*"}, l \in {LI(2), Var("a")}, r \in {LI(3), Var("b")}}
    \cup {[ty |-> "int", e |-> Bin(op, l, Un("-", r))] : op \in {"+", "-", "*"}, l \in {LI(2), Var("a")}, r \in {LI(3), Var("b")}}
    \cup {[ty |-> "int", e |-> Bin(op2, Bin(op, Un("-", l), r), LI(2))] : op \in {"+", "-", "*"}, op2 \in {"+", "*"}, l \in {LI(2), Var("a")}, r \in {LI(3), Var("b")}}
    \cup {[ty |-> "int", e |-> Bin(op2, LI(2), Bin(op, Un("-", l), r))] : op \in {"+", "-", "*"}, op2 \in {"+", "*", "-"}, l \in {LI(2), Var("a")}, r \in {LI(3), Var("b")}}
    \cup {[ty |-> "bool", e |-> Bin(cmp, Bin(op, Un("-", l), r), LI(1))] : cmp \in {"<", "=="}, op \in {"+", "-"}, l \in {LI(2), Var("a")}, r \in {LI(3), Var("b")}}
    \cup {[ty |-> "bool", e |-> Un("not", Bin(op, l, r))] : op \in {"<", "=="}, l \in {LI(2), Var("a")}, r \in {LI(2), LI(3)}}
    \cup {[ty |-> "bool", e |-> Bin(op, Un("not", l), r)] : op \in {"and", "or"}, l \in BoolLeaves, r \in BoolLeaves}
    \cup {[ty |-> "str", e |-> Bin("~", Filt("upper", l, <<>>), r)] : l \in StrLeaves, r \in StrLeaves \cup IntLeaves}
    \cup {[ty |-> "str", e |-> Bin("~", l, Filt("upper", r, <<>>))] : l \in StrLeaves \cup IntLeaves, r \in StrLeaves}
    \cup {[ty |-> "int", e |-> Bin(op, l, Filt("length", r, <<>>))] : op \in {"+", "*"}, l \in IntLeaves, r \in StrLeaves}
    \cup {[ty |-> "int", e |-> Bin(op, Filt("length", l, <<>>), r)] : op \in {"+", "*"}, l \in StrLeaves, r \in IntLeaves}
    \* a sign or "not" applies to its operand together with the operand's index / attribute / filter suffixes
    \cup {[ty |-> "int", e |-> Un("-", x)] : x \in {Item(Var("l"), LI(1)), Attr(Var("o"), "x"), Filt("abs", LI(5), <<>>), Filt("length", Var("s"), <<>>), Item(Var("o"), LS(<<121>>))}}
    \cup {[ty |-> "int", e |-> Filt("abs", Un("-", x), <<>>)] : x \in {LI(5), Var("a"), Item(Var("l"), LI(1))}}
    \cup {[ty |-> "int", e |-> Bin(op, Un("-", Item(Var("l"), LI(0))), Un("-", Filt("abs", Var("b"), <<>>)))] : op \in {"+", "-", "*"}}
    \cup {[ty |-> "bool", e |-> Un("not", x)] : x \in {Item(Var("l"), LI(0)), Filt("length", Var("s"), <<>>), Filt("length", Lit(VL(<<>>)), <<>>), Attr(Var("o"), "x"),
                                                        Filt("default", Var("nosuchvar"), <<LB(FALSE)>>)}}
    \cup {[ty |-> "bool", e |-> Bin("and", Un("not", Filt("length", Lit(VL(<<>>)), <<>>)), Bin("<", Un("-", Item(Var("l"), LI(1))), LI(0)))]}
    \* a string is equal to itself, whatever it spells
    \cup {[ty |-> "bool", e |-> Bin(op, LS(<<110, 97, 110>>), r)] : op \in {"==", "!="}, r \in {LS(<<110, 97, 110>>), LS(<<78, 97, 78>>), Var("s")}}
    \cup {[ty |-> "bool", e |-> Bin("in", LS(<<110, 97, 110>>), Arr(<<LS(<<120>>), LS(<<110, 97, 110>>)>>))]}
    \cup {[ty |-> "int", e |-> Bin(op, Attr(Var("o"), "x"), Item(Var("o"), LS(<<121>>)))] : op \in {"+", "*", "-"}}
    \cup {[ty |-> "int", e |-> Bin(op, Bin(op2, Item(Var("l"), LI(1)), LI(2)), Attr(Var("o"), "x"))] : op \in {"+", "*"}, op2 \in {"+", "*"}}

\* results beyond 2^24 (what a 32-bit float holds exactly); integer literals written with leading zeros are decimal numbers
NumTrees ==
    {[ty |-> "int", e |-> e] : e \in {Bin("*", LI(4097), LI(4097)), Bin("+", LI(123456700), LI(89)), Bin("+", LI(16777216), LI(1)), Bin("-", LI(16777218), LI(1)),
                                      Bin("*", LI(30000), LI(29999)), Bin("*", Un("-", LI(4097)), LI(4097)), Bin("+", Bin("*", LI(4097), LI(4097)), LI(0)), Bin("^", LI(30), LI(5)),
                                      Bin("/", LI(33570818), LI(2)), Bin("%", LI(16785409), LI(16785408)), Bin("-", LI(0), Bin("*", LI(4099), LI(4099))),
                                      Bin("+", LitRaw(VI(10), "010"), LI(1)), Bin("*", LitRaw(VI(8), "08"), LitRaw(VI(100), "0100")), Bin("-", LitRaw(VI(7), "007"), LitRaw(VI(0), "00")),
                                      Bin("+", LitRaw(VI(190), "0190"), LitRaw(VI(9), "09")), LitRaw(VI(10), "010"), LitRaw(VI(30), "0030"), Un("-", LitRaw(VI(12), "012"))}}
    \* chains of conditionals: a ? b : c ? d : e is a ? b : (c ? d : e); exactly one of the branches is evaluated
    \cup {[ty |-> "int", e |-> Cond(Spy("sp", "s1", c1), Spy("sp", "s2", LI(1)), Cond(Spy("sp", "s3", c2), Spy("sp", "s4", LI(2)), Spy("sp", "s5", LI(3))))]
            : c1 \in {LB(TRUE), LB(FALSE), LI(0)}, c2 \in {LB(TRUE), LB(FALSE)}}
    \cup {[ty |-> "int", e |-> Cond(Bin("==", Var("a"), LI(n)), LI(0), Cond(Bin("==", Var("a"), LI(7)), LI(2), Cond(Bin("<", Var("a"), LI(9)), LI(4), LI(5))))] : n \in {1, 7}}
    \cup {[ty |-> "str", e |-> Cond(c1, LS(<<>>), Cond(c2, LS(<<116>>), LS(<<109>>)))] : c1 \in {LB(TRUE), LB(FALSE)}, c2 \in {LB(TRUE), LB(FALSE)}}
    \* names that differ only in the case of their letters, names that spell a keyword with a capital, are names of their own
    \cup {[ty |-> "int", e |-> e] : e \in {Bin("-", Var("A"), Var("a")), Bin("+", Var("a"), Var("A")), Bin("+", Var("In"), Var("If")), Bin("*", Var("Set"), Var("With")),
                                            Bin("-", Attr(Var("o"), "X"), Attr(Var("o"), "x")), Bin("+", Var("From"), Bin("*", Var("As"), Var("Block"))), Bin("+", Var("Not"), Var("And"))}}
    \cup {[ty |-> "str", e |-> e] : e \in {Bin("~", Var("s"), Var("S")), Bin("~", Var("S"), Var("s")), Bin("~", Var("Or"), Var("s"))}}
    \cup {[ty |-> "str", e |-> e] : e \in {Bin("~", Bin("*", LI(4097), LI(4097)), LS(<<>>)), Bin("~", LitRaw(VI(8), "08"), Bin("~", LS(<<58>>), LitRaw(VI(30), "030")))}}
    \cup {[ty |-> "bool", e |-> e] : e \in {Bin("==", Bin("*", LI(4097), LI(4097)), LI(16785409)), Bin("<", Bin("*", LI(4097), LI(4097)), LI(16785409)),
                                              Bin("==", LitRaw(VI(10), "010"), LI(10)), Bin("<", LitRaw(VI(9), "09"), LitRaw(VI(10), "010")), Bin("in", LitRaw(VI(8), "08"), Arr(<<LI(8)>>))}}

\* string literals that spell a delimiter, hash literals inside hash literals (closing braces in a row): a tag ends where its
\* expression ends, not at the first "}}" or "%}" of the source
DelimTrees ==
    {[ty |-> "str", e |-> Bin("~", LS(d), Var("s"))] : d \in {<<125, 125>>, <<37, 125>>, <<123, 123>>, <<123, 37>>, <<35, 125>>, <<123, 35>>, <<45, 125, 125>>, <<45, 37, 125>>}}
    \cup {[ty |-> "str", e |-> Bin("~", Var("s"), LS(d))] : d \in {<<125, 125>>, <<37, 125>>, <<32, 125, 125, 32>>}}
    \cup {[ty |-> "bool", e |-> Bin("==", LS(d), Var("s"))] : d \in {<<125, 125>>, <<37, 125>>}}
    \cup {[ty |-> "int", e |-> e] : e \in {Item(Item(Hash(<<LS(<<97>>)>>, <<Hash(<<LS(<<98>>)>>, <<LI(1)>>)>>), LS(<<97>>)), LS(<<98>>)),
                                            Bin("+", Var("a"), Item(Hash(<<LS(<<97>>)>>, <<Item(Hash(<<LS(<<98>>)>>, <<LI(3)>>), LS(<<98>>))>>), LS(<<97>>))),
                                            Filt("length", Hash(<<LS(<<97>>)>>, <<Hash(<<LS(<<98>>)>>, <<Hash(<<LS(<<99>>)>>, <<LI(1)>>)>>)>>), <<>>),
                                            \* an attribute of an element: l[0].x, m['k'].x as operands
                                            Bin("+", Attr(Item(Var("lo"), LI(0)), "x"), LI(1)), Bin("*", Attr(Item(Var("mo"), LS(<<107>>)), "x"), Attr(Var("o"), "x")),
                                            Bin("-", Var("a"), Attr(Item(Var("lo"), Bin("-", Var("b"), LI(2))), "x")), Un("-", Attr(Item(Var("mo"), LS(<<107>>)), "x"))}}

\* containment in a long sequence (the engine switches to a lookup table above 50 elements): literal and computed left operands
Big(n) == VL([i \in 1..n |-> VI(i)])
InTrees ==
    {[ty |-> "bool", e |-> Bin(op, l, r)] : op \in {"in", "not in"},
        l \in {LI(7), Var("a"), Bin("+", Var("a"), LI(4)), Bin("+", Bin("*", Var("b"), LI(2)), LI(1)), Bin("-", Var("a"), LI(100)),
                Bin("/", LI(6), LI(3)), Bin("%", Var("a"), LI(4)), Un("-", Var("a")), Filt("length", Var("s"), <<>>), LI(51), LI(61), LI(0)},
        r \in {Var("big"), Var("big50"), Lit(Big(52)), Var("bigt")}}
    \cup {[ty |-> "bool", e |-> Bin("and", Bin("in", Bin("+", Var("a"), LI(4)), Var("big")), Bin("not in", Bin("*", Var("a"), LI(10)), Var("big")))]}

CaseNames == ("A" :> VI(70)) @@ ("S" :> VS(<<90>>)) @@ ("In" :> VI(11)) @@ ("If" :> VI(13)) @@ ("Set" :> VI(17)) @@ ("With" :> VI(19)) @@ ("From" :> VI(23))
             @@ ("As" :> VI(29)) @@ ("Block" :> VI(31)) @@ ("Not" :> VI(37)) @@ ("And" :> VI(41)) @@ ("Or" :> VS(<<111, 114>>))
Ctx2 == Ctx @@ CaseNames @@ ("big" :> Big(60)) @@ ("big50" :> Big(50)) @@ ("bigt" :> VLg([i \in 1..55 |-> VI(i)], "ints")) @@ ("o" :> VM(<<VS(<<120>>), VS(<<121>>), VS(<<88>>)>>, <<VI(5), VI(3), VI(50)>>)) @@ ("l" :> VL(<<VI(4), VI(9)>>))
        @@ ("lo" :> VL(<<VM(<<VS(<<120>>)>>, <<VI(6)>>)>>)) @@ ("mo" :> VM(<<VS(<<107>>)>>, <<VM(<<VS(<<120>>)>>, <<VI(8)>>)>>))

\* ---- observation wrappers ------------------------------------------------------
cT == <<84>>  cF == <<70>>  cX == <<88>>
Obs(ty, x) == IF ty = "bool" THEN <<IfElse(x, <<Text(cT)>>, <<Text(cF)>>)>> ELSE <<PrintS(x)>>

Positions == {"direct", "set", "elseif", "forseq", "forseqfilt", "incwith", "incwithonly", "iftruth", "filtarg", "fnarg", "macarg", "arrelem", "hashval"}

\* templates of position pos for tree e of type ty
PosWorld(pos, ty, e) ==
    CASE pos = "direct"  -> ("main" :> Obs(ty, e))
      [] pos = "set"     -> ("main" :> <<Set("z", e)>> \o Obs(ty, Var("z")))
      [] pos = "elseif"  -> ("main" :> <<If(<<LB(FALSE), e>>, <<<<Text(cX)>>, <<Text(cT)>>>>, <<Text(cF)>>, TRUE)>>)
      [] pos = "forseq"  -> ("main" :> <<For1("z", Arr(<<e>>), Obs(ty, Var("z")))>>)
      \* the sequence is what a filter makes of an undefined name
      [] pos = "forseqfilt" -> ("main" :> <<For1("z", Filt("default", Var("nosuchvar"), <<Arr(<<e>>)>>), Obs(ty, Var("z")))>>)
      [] pos = "incwith" -> ("main" :> <<Include(LS(NT.t1), Hash(<<LS(NT.z)>>, <<e>>), TRUE, FALSE, FALSE, FALSE)>>)
                            @@ ("t1" :> Obs(ty, Var("z")))
      [] pos = "incwithonly" -> ("main" :> <<Include(LS(NT.t1), Hash(<<LS(NT.z), LS(NT.y)>>, <<e, LI(1)>>), TRUE, TRUE, FALSE, FALSE)>>)
                            @@ ("t1" :> Obs(ty, Var("z")))
      \* the value decides an if tag and a conditional expression alike (zero, the empty string are falsy however they were computed)
      [] pos = "iftruth" -> ("main" :> <<IfElse(e, <<Text(cT)>>, <<Text(cF)>>), PrintS(Cond(e, LI(1), LI(2))),
                                        If(<<LB(FALSE), e>>, <<<<Text(cX)>>, <<Text(cT)>>>>, <<Text(cF)>>, TRUE), IfElse(Un("not", e), <<Text(cF)>>, <<Text(cT)>>)>>)
      [] pos = "filtarg" -> ("main" :> Obs(ty, Filt("default", Lit(Null), <<e>>)))
      [] pos = "fnarg"   -> ("main" :> Obs(ty, Spy("sp", "p1", e)))
      [] pos = "macarg"  -> ("main" :> <<Macro("m", <<Param("z")>>, Obs(ty, Var("z"))), PrintS(Call("m", <<e>>))>>)
      [] pos = "arrelem" -> ("main" :> Obs(ty, Item(Arr(<<e>>), LI(0))))
      [] pos = "hashval" -> ("main" :> <<Set("h", Hash(<<LS(NT.k)>>, <<e>>))>> \o Obs(ty, Attr(Var("h"), "k")))

PosApplies(pos, ty) == (pos # "elseif" \/ ty = "bool") /\ (pos # "iftruth" \/ ty \in {"int", "str"})

World(tp) == MkW(tp, {}, {}, NoFault)

\* ---- operator counting / tags ---------------------------------------------------
RECURSIVE NOps(_), AdjTags(_), SpyIds(_)
NOps(e) == CASE e.k = "bin" -> 1 + NOps(e.l) + NOps(e.r)
             [] e.k = "un" -> NOps(e.e) [] e.k = "cond" -> NOps(e.c) + NOps(e.a) + NOps(e.b)
             [] e.k = "spy" -> NOps(e.e) [] e.k = "filt" -> NOps(e.e) [] OTHER -> 0
KindOf(e) == IF e.k = "bin" THEN e.op ELSE e.k
AdjTags(e) ==
    CASE e.k = "bin" -> {e.op \o "<L<" \o KindOf(e.l), e.op \o ">R>" \o KindOf(e.r)} \cup AdjTags(e.l) \cup AdjTags(e.r)
      [] e.k = "un" -> {e.op \o "u>" \o KindOf(e.e)} \cup AdjTags(e.e)
      [] e.k = "cond" -> {"?c>" \o KindOf(e.c), "?a>" \o KindOf(e.a), "?b>" \o KindOf(e.b)} \cup AdjTags(e.c) \cup AdjTags(e.a) \cup AdjTags(e.b)
      [] e.k = "spy" -> AdjTags(e.e)
      [] e.k = "filt" -> {"|" \o e.f \o ">" \o KindOf(e.e)} \cup AdjTags(e.e)
      [] OTHER -> {}
SpyIds(e) ==
    CASE e.k = "bin" -> SpyIds(e.l) \cup SpyIds(e.r)
      [] e.k = "un" -> SpyIds(e.e)
      [] e.k = "cond" -> SpyIds(e.c) \cup SpyIds(e.a) \cup SpyIds(e.b)
      [] e.k = "spy" -> {e.id} \cup SpyIds(e.e)
      [] e.k = "filt" -> SpyIds(e.e)
      [] OTHER -> {}

\* ---- the case of one tree ---------------------------------------------------------
Layouts(small) == IF small THEN {[par |-> p, sp |-> s] : p \in {"min", "full"}, s \in {"normal", "tight", "wide"}}
                  ELSE {LMin, LFull}

Ref(t) == Render(World(PosWorld("direct", t.ty, t.e)), "main", Ctx2)
InFragment(t) == Ref(t).err # "frag"

RunsOf(t) ==
    LET small == NOps(t.e) <= PosOps
        poss == IF small THEN {p \in Positions : PosApplies(p, t.ty)} ELSE {"direct"}
        combos == {<<p, L>> : p \in poss, L \in Layouts(small)}
    IN {[label |-> c[1] \o "/" \o c[2].par \o "/" \o c[2].sp,
         tp |-> Sources(PosWorld(c[1], t.ty, t.e), c[2]),
         xcalls |-> IF c[1] = "fnarg" THEN [id \in {"p1"} |-> 1] ELSE [id \in {} |-> 0]] : c \in {d \in combos : d[1] # "iftruth"}}
       \cup {[label |-> c[1] \o "/" \o c[2].par \o "/" \o c[2].sp,
         tp |-> Sources(PosWorld(c[1], t.ty, t.e), c[2]),
         \* this position evaluates the tree four times and prints its truth value: own expectation
         out |-> Render(World(PosWorld("iftruth", t.ty, t.e)), "main", Ctx2).out,
         xcalls |-> [id \in SpyIds(t.e) |-> 4 * CountOf(Ref(t).calls, id)]] : c \in {d \in combos : d[1] = "iftruth"}}
       \* (trees with callbacks also with the engine in debug mode: what is logged evaluates nothing a second time)
       \cup (IF SpyIds(t.e) = {} THEN {} ELSE
             {[label |-> "direct/debug", tp |-> Sources(PosWorld("direct", t.ty, t.e), LMin), xcalls |-> [id \in {} |-> 0], debug |-> TRUE]})

CaseOf(t) ==
    LET ref == Ref(t)
        ids == SpyIds(t.e)
    IN [prop |-> "C08",
        key |-> ToJson(t.e),
        tags |-> AdjTags(t.e) \cup {"ty:" \o t.ty},
        entry |-> "main",
        ctx |-> Ctx2,
        runs |-> RunsOf(t),
        expect |-> [ok |-> ref.ok, out |-> ref.out, err |-> ref.err,
                    calls |-> [id \in ids |-> CountOf(ref.calls, id)]]]

\* ---- model-level checks ------------------------------------------------------------
\* the reference semantics gives the same observation in every position
PositionsAgree(t) ==
    \A p \in {q \in Positions \ {"iftruth"} : PosApplies(q, t.ty)} :
        LET r == Render(World(PosWorld(p, t.ty, t.e)), "main", Ctx2) IN
        r.ok = Ref(t).ok /\ r.out = Ref(t).out

Init == cs \in Parts
Next == /\ "k" \in DOMAIN cs
        /\ cs' \in {t \in (IF cs.ty = "spy" THEN SpyTrees \cup InTrees \cup NumTrees \cup DelimTrees ELSE TreesOfPart(cs)) : InFragment(t)}
Spec == Init /\ [][Next]_cs

IsTree == "e" \in DOMAIN cs
Emit == IsTree => PrintT(ToJson(CaseOf(cs)))
ModelOK == (IsTree /\ NOps(cs.e) <= PosOps) => PositionsAgree(cs)
\* the printer and the table agree: reading either spelling gives the tree back
TableSound == (IsTree /\ PureBinary(cs.e)) =>
                 /\ Read(UE(cs.e, LMin)) = cs.e
                 /\ Read(UE(cs.e, LFull)) = cs.e
                 /\ Read(UE(cs.e, [par |-> "min", sp |-> "tight"])) = cs.e
=============================================================================
