SPECIFICATION Spec
CONSTANTS
  MaxArity = 3
INVARIANTS
  ModelOK
  Emit
CHECK_DEADLOCK FALSE
