------------------------------- MODULE MC_C18 -------------------------------
(***************************************************************************)
(* C18: rendering never modifies the caller's data.  In the reference      *)
(* semantics values are immutable, so `the context after a render equals    *)
(* the context before it' holds by construction and every intermediate      *)
(* value keeps its meaning after later filters were applied to it.  TLC      *)
(* enumerates filter chains and scope-writing programs over shared nested    *)
(* data and computes what they print; the harness renders each case twice   *)
(* with the SAME context value, compares both outputs with the model and    *)
(* takes a deep snapshot of the caller's data (including the elements        *)
(* between len and cap of every slice) before and after.                     *)
(***************************************************************************)
EXTENDS TwigSyntax, Json

CONSTANTS MaxChain
VARIABLE cs

T(s) == Text(s)
F(f, e) == Filt(f, e, <<>>)
FA(f, e, a) == Filt(f, e, a)
X == Var("x")
D(e) == PrintS(F("vdump", e))

\* ---- shared data -------------------------------------------------------------------------------
I3 == <<VI(3), VI(1), VI(2)>>
S3 == <<VS(<<99>>), VS(<<97>>), VS(<<98>>)>>
Data == [ anycap |-> VLg(I3, "anycap"),               \* []interface{} with spare capacity
          ints   |-> VLg(I3, "intscap"),              \* []int with spare capacity
          strs   |-> VLg(S3, "strs"),
          arr3   |-> VLg(I3, "arr3"),                 \* [3]int
          any    |-> VL(I3),
          \* forty strings k40 .. k01 in descending order: what holds for a list of three holds for a long one
          long   |-> VL([i \in 1..40 |-> VS(<<107, 48 + ((41 - i) \div 10), 48 + ((41 - i) % 10)>>)]),
          tags   |-> VLg(S3, "tags"),                 \* type Tags []string
          i64s   |-> VLg(I3, "i64s"),                 \* []int64
          f32s   |-> VLg(I3, "f32s"),                 \* []float32
          f64s   |-> VLg(I3, "f64s"),                 \* []float64
          \* (keys in sorted order: which order a map is walked in is C03's business, not this property's)
          map    |-> VM(<<VS(<<97>>), VS(<<98>>)>>, <<VI(1), VI(2)>>),
          msi    |-> VMg(<<VS(<<97>>), VS(<<98>>)>>, <<VI(1), VI(2)>>, "msi") ]
IsMapData(d) == d \in {"map", "msi"}

\* ---- filter steps ---------------------------------------------------------------------------------
Steps == {"sort", "reverse", "merge", "slice", "keys", "default", "first", "last", "join", "mergeself", "slicetail"}
Step(f, e) ==
    CASE f = "merge"     -> FA("merge", e, <<Arr(<<LI(9)>>)>>)
      [] f = "mergeself" -> FA("merge", e, <<X>>)
      [] f = "slice"     -> FA("slice", e, <<LI(0), LI(2)>>)
      [] f = "slicetail" -> FA("slice", e, <<LI(1)>>)
      [] f = "default"   -> FA("default", e, <<Arr(<<LI(7)>>)>>)
      [] f = "join"      -> FA("join", e, <<LS(<<44>>)>>)
      [] OTHER           -> F(f, e)
MapSteps == {"keys", "merge2", "default", "first", "length"}
RECURSIVE ChainExpr(_, _)
ChainExpr(fs, e) == IF fs = <<>> THEN e ELSE ChainExpr(Tail(fs), Step(Head(fs), e))
Chains == UNION {[1..k -> Steps] : k \in 1..MaxChain}

\* family 1: a chain, then the data again
\* on maps only keys / default / first / merge with itself are applied directly (what join, last, sort,
\* reverse, slice do to a map is not stated by any property); after keys the value is a list
MapFirstSteps == {"keys", "default", "first", "mergeself"}
RECURSIVE MapChainOK(_)
MapChainOK(fs) == fs = <<>> \/ (Head(fs) \in MapFirstSteps /\ (Head(fs) \in {"default", "mergeself"} => MapChainOK(Tail(fs))))
ChainOK(d, fs) == IsMapData(d) => MapChainOK(fs)
ChainCases == {[fam |-> "chain", d |-> d, fs |-> fs] : d \in DOMAIN Data, fs \in {q \in Chains : TRUE}}
ChainProg(c) == <<D(ChainExpr(c.fs, X)), T(<<124>>), D(X)>>
\* family 2: an intermediate value is observed again after a later filter was applied to it
ReobsCases == {[fam |-> "reobs", d |-> d, f |-> f, g |-> g] : d \in DOMAIN Data, f \in Steps, g \in Steps}
ReobsProg(c) == <<Set("s", Step(c.f, X)), Set("m", Step(c.g, Var("s"))), D(Var("s")), T(<<124>>), D(Var("m")), T(<<124>>), D(Var("s")), T(<<124>>), D(X)>>
\* family 3: writes to names that exist in the caller's context
WriteKinds == {"set", "loopvar", "loopkey", "includewith", "macroparam", "setinloop", "setinblock", "setininclude",
               "importalias", "fromalias", "macroname", "setmerge", "blockname"}
\* a variable that holds the caller's list / hash is assigned the result of merging something new into it (at the top, as a loop
\* variable, as a macro parameter, as an include's with-variable): the assignment is the template's, the caller's value stays
MergeNewKinds == {"setmergenew", "loopmergenew", "macromergenew", "incmergenew"}
WriteCases == {[fam |-> "write", d |-> d, w |-> w] : d \in {"any", "map"}, w \in WriteKinds}
              \cup {[fam |-> "write", d |-> d, w |-> w] : d \in {"any", "anycap", "map"}, w \in MergeNewKinds}
NewFor(d) == IF d = "map" THEN Hash(<<LS(NT.z)>>, <<LI(9)>>) ELSE Arr(<<LI(9)>>)
WriteProg(c) ==
    CASE c.w = "set"          -> <<Set("x", LI(5)), D(X)>>
      [] c.w = "loopvar"      -> <<For1("x", Lit(VL(<<VI(1), VI(2)>>)), <<D(X)>>), T(<<124>>)>>
      [] c.w = "loopkey"      -> <<For("v", "x", Lit(VL(<<VI(1)>>)), <<D(X)>>, <<>>, FALSE), T(<<124>>)>>
      [] c.w = "includewith"  -> <<Include(LS(NT.t1), Hash(<<LS(NT.x)>>, <<LI(6)>>), TRUE, FALSE, FALSE, FALSE), T(<<124>>), D(X)>>
      [] c.w = "macroparam"   -> <<Macro("mm", <<Param("x")>>, <<Set("x", LI(8)), D(X)>>), PrintS(Call("mm", <<LI(4)>>)), T(<<124>>), D(X)>>
      [] c.w = "setinloop"    -> <<For1("i", Lit(VL(<<VI(1), VI(2)>>)), <<Set("x", Var("i"))>>), D(X)>>
      [] c.w = "setinblock"   -> <<Block("bb", <<Set("x", LI(7))>>), D(X)>>
      [] c.w = "setininclude" -> <<Inc(LS(NT.t2)), T(<<124>>), D(X)>>
      \* the name of a context variable used as the alias of an import, of a from-import, as a macro name, a block name
      [] c.w = "importalias"  -> <<Import(LS(NT.t3), "x"), PrintS(MCall("x", "mm", <<>>))>>
      [] c.w = "fromalias"    -> <<From(LS(NT.t3), <<"mm">>, <<"x">>), PrintS(Call("x", <<>>))>>
      [] c.w = "macroname"    -> <<Macro("x", <<>>, <<T(<<109>>)>>), PrintS(MCall("_self", "x", <<>>))>>
      [] c.w = "blockname"    -> <<Block("x", <<T(<<98>>)>>), T(<<124>>), D(X)>>
      [] c.w = "setmerge"     -> <<Set("x", FA("merge", X, <<X>>)), D(X)>>
      [] c.w = "setmergenew"  -> <<Set("x", FA("merge", X, <<NewFor(c.d)>>)), D(X), Set("x", FA("merge", X, <<NewFor(c.d)>>)), D(X)>>
      [] c.w = "loopmergenew" -> <<For1("v", Arr(<<X>>), <<Set("v", FA("merge", Var("v"), <<NewFor(c.d)>>)), D(Var("v"))>>), T(<<124>>), D(X)>>
      [] c.w = "macromergenew" -> <<Macro("mm", <<Param("p")>>, <<Set("p", FA("merge", Var("p"), <<NewFor(c.d)>>)), D(Var("p"))>>), PrintS(Call("mm", <<X>>)), T(<<124>>), D(X)>>
      [] c.w = "incmergenew"  -> <<Include(LS(NT.t5), Hash(<<LS(NT.p)>>, <<X>>), TRUE, TRUE, FALSE, FALSE), T(<<124>>), D(X)>>
\* family 4: nested data reached through attributes
NestCases == {[fam |-> "nested", f |-> f, g |-> g] : f \in {"sort", "reverse", "merge", "slice", "slicetail", "mergeself"}, g \in {"sort", "reverse", "merge"}}
NestCtx == ("o" :> VMg(<<VS(<<73, 116, 101, 109, 115>>)>>, <<VL(I3)>>, "holder"))        \* struct{Items []int}
           @@ ("p" :> VMg(<<VS(<<73, 116, 101, 109, 115>>)>>, <<VL(I3)>>, "holderp"))    \* pointer to one
           @@ ("q" :> VM(<<VS(<<107>>)>>, <<VLg(I3, "anycap")>>))
           @@ ("x" :> VL(<<>>))
NT2 == [Items |-> <<73, 116, 101, 109, 115>>]
NestProg(c) == <<D(Step(c.g, Step(c.f, Attr(Var("q"), "k")))), T(<<124>>), D(Attr(Var("q"), "k")), T(<<124>>),
                 D(Step(c.f, Item(Var("q"), LS(<<107>>)))), T(<<124>>), D(Var("q")), T(<<124>>),
                 \* slices that are fields of a struct / of a struct behind a pointer
                 D(Step(c.g, Step(c.f, Attr(Var("o"), "Items")))), T(<<124>>), D(Attr(Var("o"), "Items")), T(<<124>>),
                 D(Step(c.f, Attr(Var("p"), "Items"))), T(<<124>>), D(Attr(Var("p"), "Items"))>>

\* family 6: two results of the same filter alive at once (applied to two values of the same shape)
Y == Var("y")
PairData == [ lists |-> [x |-> VL(I3), y |-> VL(<<VI(9), VI(8), VI(7)>>)],
              ints  |-> [x |-> VLg(I3, "ints"), y |-> VLg(<<VI(9), VI(8), VI(7)>>, "ints")],
              strs  |-> [x |-> VLg(S3, "strs"), y |-> VLg(<<VS(<<122>>), VS(<<121>>), VS(<<120>>)>>, "strs")],
              \* (an untyped list and a typed one: filters that convert typed lists may keep scratch space between calls)
              mixed |-> [x |-> VL(<<VS(<<97>>), VS(<<98>>), VS(<<99>>), VS(<<100>>)>>), y |-> VLg(<<VI(9), VI(8)>>, "ints")],
              mixed2 |-> [x |-> VLg(S3, "anycap"), y |-> VLg(<<VS(<<122>>), VS(<<121>>)>>, "strs")],
              maps  |-> [x |-> VM(<<VS(<<97>>), VS(<<98>>)>>, <<VI(1), VI(2)>>), y |-> VM(<<VS(<<112>>), VS(<<113>>)>>, <<VI(7), VI(8)>>)],
              msis  |-> [x |-> VMg(<<VS(<<97>>), VS(<<98>>)>>, <<VI(1), VI(2)>>, "msi"), y |-> VMg(<<VS(<<112>>), VS(<<113>>)>>, <<VI(7), VI(8)>>, "msi")] ]
PairSteps == {"sort", "reverse", "slice", "slicetail", "keys", "merge", "default", "join"}
PairCases == {[fam |-> "pair", d |-> d, f |-> f, form |-> fo] : d \in DOMAIN PairData, f \in PairSteps, fo \in {"sets", "nested", "array"}}
PairProg(c) ==
    CASE c.form = "sets"   -> <<Set("a", Step(c.f, X)), Set("b", Step(c.f, Y)), D(Var("a")), T(<<124>>), D(Var("b")), T(<<124>>), D(Var("a")), T(<<124>>), D(X), T(<<124>>), D(Y)>>
      [] c.form = "nested" -> <<D(FA("merge", Step(c.f, X), <<Step(c.f, Y)>>)), T(<<124>>), D(X), T(<<124>>), D(Y)>>
      [] c.form = "array"  -> <<D(Arr(<<Step(c.f, X), Step(c.f, Y), Step(c.f, X)>>)), T(<<124>>), D(X)>>
PairOK(c) == (c.d \in {"maps", "msis"} => c.f \in {"keys", "default", "merge"}) /\ (c.d \notin {"maps", "msis"} => c.f # "keys")
\* family 7: merge with several arguments of mixed kinds on the caller's data: whatever the result is, the data stay as they are
MergeArgs == {Var("undefinedvar"), Lit(Null), Arr(<<LI(9)>>), LS(<<115>>), LI(4), Hash(<<LS(<<122>>), LS(<<97>>)>>, <<LI(9), LI(8)>>), X}
MergeArgCases == {[fam |-> "mergeargs", d |-> d, a1 |-> a1, a2 |-> a2] : d \in {"any", "ints", "map", "msi"}, a1 \in MergeArgs, a2 \in MergeArgs}
MergeArgProg(c) == <<D(FA("merge", X, <<c.a1, c.a2>>)), T(<<124>>), D(X)>>

\* family 8: Go values with methods that change their receiver: a template works on the values it was given (whatever the
\* calls return), the caller's elements stay as they are and a second render with the same values prints the same
ObjData == [ embnils |-> VLg(<<VI(1), VI(5)>>, "embnils"), counters |-> VLg(<<VI(1), VI(5)>>, "counters"), counterptrs |-> VLg(<<VI(1), VI(5)>>, "counterptrs"), counterarr |-> VLg(<<VI(1), VI(5)>>, "counterarr") ]
ObjProgs == [ loopnext |-> <<For1("i", X, <<PrintS(Attr(Var("i"), "Next")), T(<<44>>), PrintS(Attr(Var("i"), "Next")), T(<<59>>)>>)>>,
              looppush |-> <<For1("i", X, <<PrintS(Attr(Var("i"), "Push")), T(<<59>>)>>)>>,
              itemnext |-> <<PrintS(Attr(Item(X, LI(0)), "Next")), PrintS(Attr(Filt("first", X, <<>>), "Next")), PrintS(Attr(Filt("last", X, <<>>), "Push"))>>,
              loopkv   |-> <<For("v", "k", X, <<PrintS(Attr(Var("v"), "Next"))>>, <<>>, FALSE)>>,
              chained  |-> <<For1("i", FA("slice", X, <<LI(0), LI(2)>>), <<PrintS(Attr(Var("i"), "Next"))>>), For1("i", F("reverse", X), <<PrintS(Attr(Var("i"), "Push"))>>)>>,
              setnext  |-> <<Set("e", Item(X, LI(1))), PrintS(Attr(Var("e"), "Next")), PrintS(Attr(Attr(Var("e"), "Reset"), "N"))>>,
              readw    |-> <<For1("i", X, <<PrintS(Attr(Var("i"), "K")), PrintS(Attr(Var("i"), "W")), PrintS(Attr(Var("i"), "X"))>>), PrintS(Attr(Item(X, LI(0)), "W"))>>,
              readdef  |-> <<For1("i", X, <<PrintS(Cond(Test(Attr(Var("i"), "W"), "defined", <<>>, FALSE), LI(1), LI(2))), PrintS(Filt("default", Attr(Var("i"), "X"), <<LI(7)>>))>>)>>,
              incnext  |-> <<Include(LS(NT.t4), Hash(<<LS(NT.e)>>, <<Item(X, LI(0))>>), TRUE, FALSE, FALSE, FALSE)>> ]
\* (pointers handed in by the caller are the caller's invitation to work on the objects: only values and arrays of values)
ObjCases == {[fam |-> "objs", d |-> d, p |-> p] : d \in {"counters", "counterarr"}, p \in DOMAIN ObjProgs}
            \* pointers to structs whose embedded pointer is nil: reading (no method is called) what would be promoted through it
            \cup {[fam |-> "objs", d |-> "embnils", p |-> p] : p \in {"readw", "readdef"}}

\* family 9: functions and filters that walk the whole value (what they give is C19's business or not stated at all:
\* only the caller's data and the repeatability are checked)
MiiMap == VMg(<<VI(1), VS(<<49>>)>>, <<VS(<<97>>), VS(<<98>>)>>, "mii")          \* map[interface{}]interface{}{1: "a", "1": "b"}
WalkData == [ zerotime |-> [t |-> "shape", kind |-> "zerotimeptr"], zeroholder |-> [t |-> "shape", kind |-> "zerotimeholder"],
              secrets |-> VM(<<VS(<<107>>)>>, <<VM(<<VS(<<112, 97, 115, 115, 119, 111, 114, 100>>), VS(<<116, 111, 107, 101, 110>>)>>, <<VS(<<112, 119>>), VM(<<VS(<<115, 101, 99, 114, 101, 116>>)>>, <<VS(<<115>>)>>)>>)>>),
              f64nan |-> VLg(I3, "f64nan"), f32s |-> Data.f32s, strs |-> Data.strs,
              anycap |-> Data.anycap, any |-> Data.any, ints |-> Data.ints, map |-> Data.map, msi |-> Data.msi,
              nestmii |-> VM(<<VS(<<107>>)>>, <<MiiMap>>), listmii |-> VL(<<MiiMap, VI(2)>>),
              deepmii |-> VM(<<VS(<<107>>)>>, <<VL(<<VM(<<VS(<<106>>)>>, <<MiiMap>>)>>)>>) ]
WalkProgs == [ jsonf    |-> <<D(F("json_encode", X)), T(<<124>>), D(X)>>,
               jsonfn   |-> <<D(Call("json_encode", <<X>>)), T(<<124>>), D(X)>>,
               mergefn  |-> <<D(Call("merge", <<X, Arr(<<LI(9)>>)>>)), T(<<124>>), D(X)>>,
               mergefn3 |-> <<D(Call("merge", <<X, X, Arr(<<LI(9), LI(8)>>)>>)), T(<<124>>), D(X)>>,
               mergefnh |-> <<D(Call("merge", <<X, Hash(<<LS(NT.z)>>, <<LI(9)>>)>>)), T(<<124>>), D(X)>>,
               mergefnset |-> <<Set("m", Call("merge", <<X, Arr(<<LI(9)>>)>>)), Set("n", Call("merge", <<X, Arr(<<LI(8)>>)>>)), D(Var("m")), D(Var("n")), D(X)>>,
               lengthf  |-> <<D(F("length", X)), D(F("keys", X)), D(X)>>,
               datef    |-> <<D(FA("date", X, <<LS(<<89>>)>>)), D(FA("date", Attr(X, "at"), <<LS(<<89>>)>>)), T(<<124>>), D(Attr(X, "n"))>>,
               sortf    |-> <<D(F("sort", X)), T(<<124>>), D(X), T(<<124>>), D(F("first", F("sort", X))), D(F("last", F("sort", F("reverse", X))))>>,
               minmaxf  |-> <<D(Call("max", <<X>>)), D(Call("min", <<X>>)), T(<<124>>), D(X)>>,
               joinf    |-> <<D(FA("join", F("sort", X), <<LS(<<44>>)>>)), For1("i", F("sort", X), <<D(Var("i"))>>), T(<<124>>), D(X)>> ]
WalkCases == {[fam |-> "walk", d |-> d, p |-> p] : d \in DOMAIN WalkData, p \in DOMAIN WalkProgs}

\* family 10: engine globals next to the caller's context: the globals are the engine's, the map is the caller's -- a render
\* leaves the map with the keys it had (also when the template assigns the global's name, includes, calls macros)
Globals18 == ("g" :> VS(<<71>>)) @@ ("x" :> VI(0)) @@ ("h" :> VL(<<VI(8)>>))
GlobProgs == [ read    |-> <<PrintS(Var("g")), D(X), D(Var("h"))>>,
               setg    |-> <<Set("g", LI(1)), PrintS(Var("g")), D(X)>>,
               inc     |-> <<Inc(LS(NT.t6)), Include(LS(NT.t6), Lit(Null), FALSE, TRUE, FALSE, FALSE), D(X)>>,
               mac     |-> <<Macro("mm", <<>>, <<PrintS(Var("g"))>>), PrintS(Call("mm", <<>>)), For1("g", X, <<PrintS(Var("g"))>>)>>,
               mergeh  |-> <<Set("h", FA("merge", Var("h"), <<X>>)), D(Var("h")), D(X)>> ]
GlobCases == {[fam |-> "glob", d |-> d, p |-> p] : d \in {"any", "anycap", "map"}, p \in DOMAIN GlobProgs}

\* a context with many keys (size classes of the engine's pooled maps) and top-level writes
BigKeys == {"k01", "k02", "k03", "k04", "k05", "k06", "k07", "k08", "k09", "k10", "k11", "k12", "k13", "k14", "k15", "k16", "k17", "k18", "k19", "k20"}
BigCtx(n) == [k \in {kk \in BigKeys : \E i \in 1..n : kk = (IF i < 10 THEN "k0" \o ToString(i) ELSE "k" \o ToString(i))} |-> VI(1)] @@ ("x" :> VL(I3))
BigCases == {[fam |-> "bigctx", n |-> n, w |-> w] : n \in {3, 15, 16, 17, 20}, w \in {"set", "loopvar", "setinloop", "macroparam"}}
BigProg(c) == <<Set("k01", LI(5)), Set("fresh", LI(6))>> \o WriteProg([w |-> c.w, d |-> "any"]) \o <<PrintS(Var("k01")), PrintS(Var("k02"))>>
Prog(c) == CASE c.fam = "objs" -> ObjProgs[c.p] [] c.fam = "walk" -> WalkProgs[c.p] [] c.fam = "glob" -> GlobProgs[c.p] [] c.fam = "bigctx" -> BigProg(c) [] c.fam = "pair" -> PairProg(c) [] c.fam = "mergeargs" -> MergeArgProg(c) [] c.fam = "chain" -> ChainProg(c) [] c.fam = "reobs" -> ReobsProg(c)
             [] c.fam = "write" -> WriteProg(c) [] c.fam = "nested" -> NestProg(c)
CtxOf(c) == IF c.fam = "objs" THEN ("x" :> ObjData[c.d]) ELSE IF c.fam = "walk" THEN ("x" :> WalkData[c.d]) ELSE IF c.fam = "nested" THEN NestCtx ELSE IF c.fam = "bigctx" THEN BigCtx(c.n)
            ELSE IF c.fam = "pair" THEN ("x" :> PairData[c.d].x) @@ ("y" :> PairData[c.d].y) ELSE ("x" :> Data[c.d])
Tp(c) == ("main" :> Prog(c)) @@ ("t1" :> <<D(X), Set("x", LI(0))>>) @@ ("t2" :> <<Set("x", LI(9)), D(X)>>) @@ ("t3" :> <<Macro("mm", <<>>, <<T(<<109>>)>>)>>)
         @@ ("t4" :> <<PrintS(Attr(Var("e"), "Next")), PrintS(Attr(Var("e"), "Push"))>>)
         @@ ("t6" :> <<T(<<60>>), PrintS(Var("g")), T(<<62>>)>>)
         @@ ("t5" :> <<Set("p", FA("merge", Var("p"), <<NewFor(IF "d" \in DOMAIN c THEN c.d ELSE "any")>>)), D(Var("p"))>>)
Ref(c) == Render(IF c.fam = "glob" THEN WithGlobals(MkW(Tp(c), {}, {}, NoFault), Globals18) ELSE MkW(Tp(c), {}, {}, NoFault), "main", CtxOf(c))

CaseOf(c) ==
    LET ref == Ref(c) IN
    [prop |-> "C18", key |-> ToJson(c),
     tags |-> {"fam:" \o c.fam} \cup (IF "d" \in DOMAIN c THEN {"d:" \o c.d} ELSE {})
              \cup (IF c.fam = "chain" THEN {"f:" \o c.fs[i] : i \in 1..Len(c.fs)} ELSE {})
              \cup (IF c.fam \in {"reobs", "nested"} THEN {"f:" \o c.f, "f:" \o c.g} ELSE {})
              \cup (IF c.fam \in {"write", "bigctx"} THEN {"w:" \o c.w} ELSE {}) \cup (IF c.fam \in {"walk", "glob"} THEN {"p:" \o c.p} ELSE {}) \cup (IF c.fam = "pair" THEN {"f:" \o c.f, "form:" \o c.form} ELSE {}),
     entry |-> "main", ctx |-> CtxOf(c), cfg |-> [globals |-> IF c.fam = "glob" THEN Globals18 ELSE EmptyFn],
     \* (the second run: the engine in debug mode)
     runs |-> {[label |-> c.fam, tp |-> Sources(Tp(c), LMin), xcalls |-> [id \in {} |-> 0], shared |-> 2],
               [label |-> c.fam \o "/debug", tp |-> Sources(Tp(c), LMin), xcalls |-> [id \in {} |-> 0], shared |-> 2, debug |-> TRUE]}
              \cup (IF c.fam = "walk" THEN {[label |-> c.fam \o "/verbose", tp |-> Sources(Tp(c), LMin), xcalls |-> [id \in {} |-> 0], shared |-> 2, debug |-> TRUE, verbose |-> TRUE]} ELSE {}),
     \* (what merge makes of arguments of mixed kinds is not stated: only the caller's data and the repeatability are checked)
     expect |-> IF c.fam \in {"mergeargs", "objs", "walk"} THEN [ok |-> TRUE, anyoutcome |-> TRUE, out |-> <<>>, noout |-> TRUE, err |-> "", calls |-> [id \in {} |-> 0]]
                ELSE [ok |-> ref.ok, out |-> ref.out, err |-> ref.err, calls |-> [id \in {} |-> 0]]]

Fams == {"chain", "reobs", "write", "nested", "bigctx", "pair", "mergeargs", "objs", "walk", "glob"}
All == ChainCases \cup ReobsCases \cup WriteCases \cup NestCases \cup BigCases \cup PairCases \cup MergeArgCases \cup ObjCases \cup WalkCases \cup GlobCases
Init == cs \in {[part |-> f] : f \in Fams}
Valid(c) == CASE c.fam = "chain" -> ChainOK(c.d, c.fs)
             [] c.fam = "reobs" -> (IsMapData(c.d) => c.f \in MapFirstSteps /\ (c.f \in {"default", "mergeself"} => c.g \in MapFirstSteps))
             [] c.fam = "pair" -> PairOK(c)
             [] OTHER -> TRUE
Next == "part" \in DOMAIN cs /\ cs' \in {c \in All : c.fam = cs.part /\ Valid(c) /\ (c.fam \in {"mergeargs", "objs", "walk"} \/ Ref(c).ok)}
Spec == Init /\ [][Next]_cs
IsCase == "fam" \in DOMAIN cs
Emit == IsCase => PrintT(ToJson(CaseOf(cs)))
=============================================================================
