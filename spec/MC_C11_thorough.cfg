SPECIFICATION Spec
CONSTANTS
  Deep = TRUE
INVARIANTS
  NonInterference
  Emit
CHECK_DEADLOCK FALSE
