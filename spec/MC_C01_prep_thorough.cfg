SPECIFICATION Spec
CONSTANTS
  Prepared = TRUE
  MaxLen = 7
  RenderReleasesRoot = FALSE
INVARIANTS
  NoStaleRender
  Emit
PROPERTIES
  RenderPure
  FailedOpsPure
CHECK_DEADLOCK FALSE
