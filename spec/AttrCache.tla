------------------------------ MODULE AttrCache ------------------------------
(***************************************************************************)
(* C20: attribute access returns the right member whatever was looked up   *)
(* before.                                                                 *)
(*                                                                         *)
(* Member(obj, name) is the abstract meaning of obj.name / obj['name']:     *)
(* map key, exported field, field promoted from an embedded struct (the     *)
(* shallowest one wins, an outer field shadows a promoted one), zero-       *)
(* argument method of the dynamic type, nothing otherwise.                  *)
(*                                                                         *)
(* The engine memoises how a (type, name) pair resolves.  The model has the *)
(* memo explicitly: capacity Cap, nondeterministic eviction victims, and     *)
(* the entry is a *resolution* (a field index path / a method / nothing)    *)
(* that is re-applied to the object at hand.  CacheUnobservable says that   *)
(* for every lookup history the value obtained through the memo equals      *)
(* Member.  Deviations (must be FALSE to conform; each one makes TLC find   *)
(* the counterexample): KeyWithoutType (memo keyed by the name only),       *)
(* FirstIndexOnly (a promoted field resolved to the first index of its      *)
(* path -- the pinned tree's defect).                                       *)
(***************************************************************************)
EXTENDS TwigValues, Json

CONSTANTS Cap, MaxLen, KeyWithoutType, FirstIndexOnly, NameSet,
          ShapeSet     \* the shapes and map kinds the objects are taken from (focused configurations for longer histories)
VARIABLES memo, hist

tX == <<88>>  tY == <<89>>  tZ == <<90>>  tW == <<87>>
\* ---- the object shapes the harness declares as Go types ---------------------------------
\* fields in declaration order: [n, v] plain field, [n, emb] embedded struct (n = its type name)
Shapes ==
  [ S1 |-> [fields |-> <<[n |-> "X", v |-> VI(11)], [n |-> "Y", v |-> VS(<<49>>)]>>, methods |-> {}],
    S2 |-> [fields |-> <<[n |-> "Y", v |-> VS(<<50>>)], [n |-> "X", v |-> VI(22)]>>, methods |-> {}],        \* same names, other indexes
    Base |-> [fields |-> <<[n |-> "W", v |-> VS(<<119>>)], [n |-> "X", v |-> VI(33)]>>, methods |-> {}],
    S3 |-> [fields |-> <<[n |-> "Z", v |-> VI(44)], [n |-> "Base", emb |-> "Base"]>>, methods |-> {}],       \* X, W promoted (depth 1)
    S4 |-> [fields |-> <<[n |-> "Base", emb |-> "Base"], [n |-> "X", v |-> VI(55)]>>, methods |-> {}],       \* outer X shadows Base.X
    S5 |-> [fields |-> <<[n |-> "S3", emb |-> "S3"], [n |-> "Q", v |-> VI(66)]>>, methods |-> {}],           \* X, W promoted from depth 2, Z depth 1
    S6 |-> [fields |-> <<[n |-> "X", v |-> VI(77)], [n |-> "hidden", v |-> VI(99)]>>,
            \* AName (pointer receiver) sorts before Name in the method set of *S6 but is absent from that of S6;
            \* the Go type also has ARename(string), which is not a zero-argument method and therefore no member
            methods |-> {[n |-> "Name", v |-> VS(<<109>>), ptr |-> FALSE], [n |-> "PName", v |-> VS(<<112>>), ptr |-> TRUE],
                         [n |-> "AName", v |-> VS(<<97>>), ptr |-> TRUE]}],
    \* embedded by pointer: the promoted fields exist only while the embedded pointer is set (object flag embnil)
    S7 |-> [fields |-> <<[n |-> "Base", emb |-> "Base"], [n |-> "K", v |-> VI(88)]>>, methods |-> {}],
    \* Cust (pointer receiver) hands out a pointer INTO its receiver; two instances (alt) differ in what it points at.  What
    \* printing that pointer gives is not stated (never judged), but a result once obtained must stay what it was
    \* V promoted through four embedded structs (index path of five steps), U through two of them, next to a direct field
    D1 |-> [fields |-> <<[n |-> "T", v |-> VI(12)], [n |-> "V", v |-> VS(<<118>>)]>>, methods |-> {}],
    D2 |-> [fields |-> <<[n |-> "D1", emb |-> "D1"], [n |-> "U", v |-> VI(13)]>>, methods |-> {}],
    D3 |-> [fields |-> <<[n |-> "R", v |-> VI(14)], [n |-> "D2", emb |-> "D2"]>>, methods |-> {}],
    D4 |-> [fields |-> <<[n |-> "D3", emb |-> "D3"]>>, methods |-> {}],
    S10 |-> [fields |-> <<[n |-> "Q", v |-> VI(15)], [n |-> "D4", emb |-> "D4"]>>, methods |-> {}],
    \* the embedded struct's own type is unexported (type ubase struct{...}): its exported fields are promoted all the same
    S11 |-> [fields |-> <<[n |-> "ubase", emb |-> "Base"], [n |-> "K", v |-> VI(21)]>>, methods |-> {}],
    \* a struct with many fields: Y at position 130, Base embedded at position 131 (W promoted from there; X is also a direct field)
    S12 |-> [fields |-> <<[n |-> "X", v |-> VI(41)]>> \o [i \in 1..128 |-> [n |-> "Fill", v |-> VI(i)]] \o <<[n |-> "Y", v |-> VS(<<52>>)], [n |-> "Base", emb |-> "Base"]>>, methods |-> {}],
    \* a field whose name is not ASCII (the harness spells "Uelan" as E-acute l a n; maps have the key e-acute l a n, "uelan")
    S13 |-> [fields |-> <<[n |-> "Uelan", v |-> VS(<<101>>)], [n |-> "X", v |-> VI(17)], [n |-> "Uviet", v |-> VS(<<118>>)]>>,
             \* ("Uviet": a name whose first letter is upper case and three bytes long; "Uvietm": a method of such a name)
             methods |-> {[n |-> "Uvietm", v |-> VS(<<86>>), ptr |-> FALSE]}],
    \* an unnamed struct type (struct{ S6; Q int }) that embeds S6 by value: S6's fields and methods are promoted
    S14 |-> [fields |-> <<[n |-> "S6", emb |-> "S6"], [n |-> "Q", v |-> VI(5)]>>,
             methods |-> {[n |-> "Name", v |-> VS(<<109>>), ptr |-> FALSE], [n |-> "PName", v |-> VS(<<112>>), ptr |-> TRUE], [n |-> "AName", v |-> VS(<<97>>), ptr |-> TRUE]}],
    S9 |-> [fields |-> <<[n |-> "X", v |-> VI(91)]>>, methods |-> {[n |-> "Cust", v |-> [t |-> "embedded", sh |-> "Base"], ptr |-> TRUE]}] ]
ShapeNames == {"S1", "S2", "S3", "S4", "S5", "S6", "S7", "S10", "S11", "S12", "S13", "S14"}
MapKinds == {"any", "mss", "msi", "mii", "mnk"}        \* mii: map[interface{}]interface{}; mnk: map[LabelKey]string with type LabelKey string
\* objects: a struct value, a pointer to it, or a map of one of three Go map types
Objects == {[k |-> "struct", sh |-> sn, ptr |-> p, embnil |-> FALSE] : sn \in ShapeNames \cap ShapeSet, p \in BOOLEAN}
           \cup {[k |-> "struct", sh |-> "S7", ptr |-> p, embnil |-> TRUE] : p \in (IF "S7" \in ShapeSet THEN BOOLEAN ELSE {})}
           \cup {[k |-> "struct", sh |-> "S9", ptr |-> p, embnil |-> FALSE, alt |-> a] : p \in (IF "S9" \in ShapeSet THEN BOOLEAN ELSE {}), a \in BOOLEAN}
           \cup {[k |-> "map", g |-> g] : g \in MapKinds \cap ShapeSet}
           \cup {[k |-> "map", g |-> g, ptr |-> TRUE] : g \in {"any", "mss"} \cap ShapeSet}        \* a pointer to a map
\* (the untyped map also has the keys "0" and "" -- never looked up themselves: an absent key must not fall back to them)
MapVal(g, n) == CASE n = "X" -> (IF g \in {"mss", "mnk"} THEN VS(<<120>>) ELSE VI(8)) [] n = "Y" -> (IF g \in {"mss", "mnk"} THEN VS(<<121>>) ELSE VI(9))
                    [] n = "uelan" -> (IF g \in {"mss", "mnk"} THEN VS(<<117>>) ELSE VI(3)) [] OTHER -> Null
AttrNames == {"X", "Y", "Z", "W", "Q", "K", "Name", "PName", "AName", "ARename", "hidden", "nosuch", "x", "name", "Cust", "V", "U", "Uelan", "uelan", "Uviet", "Uvietm"} \cap NameSet    \* names are case-sensitive

IsExported(n) == n \notin {"hidden"}

\* ---- resolution of a name in a struct shape: an index path, a method, or nothing -------------
\* FieldPaths(sh, depth): all index paths to a field named n at exactly that embedding depth
RECURSIVE PathsAt(_, _, _)
PathsAt(sh, n, depth) ==
    LET fs == Shapes[sh].fields IN
    IF depth = 0 THEN {<<i>> : i \in {j \in 1..Len(fs) : fs[j].n = n /\ "v" \in DOMAIN fs[j]}}
                      \cup {<<i>> : i \in {j \in 1..Len(fs) : fs[j].n = n /\ "emb" \in DOMAIN fs[j]}}
    ELSE UNION {{<<i>> \o p : p \in PathsAt(fs[i].emb, n, depth - 1)} : i \in {j \in 1..Len(fs) : "emb" \in DOMAIN fs[j]}}
Resolve(sh, n) ==
    IF PathsAt(sh, n, 0) # {} THEN [kind |-> "field", path |-> CHOOSE p \in PathsAt(sh, n, 0) : TRUE]
    ELSE IF PathsAt(sh, n, 1) # {} THEN [kind |-> "field", path |-> CHOOSE p \in PathsAt(sh, n, 1) : TRUE]
    ELSE IF PathsAt(sh, n, 2) # {} THEN [kind |-> "field", path |-> CHOOSE p \in PathsAt(sh, n, 2) : TRUE]
    ELSE IF PathsAt(sh, n, 3) # {} THEN [kind |-> "field", path |-> CHOOSE p \in PathsAt(sh, n, 3) : TRUE]
    ELSE IF PathsAt(sh, n, 4) # {} THEN [kind |-> "field", path |-> CHOOSE p \in PathsAt(sh, n, 4) : TRUE]
    ELSE IF \E m \in Shapes[sh].methods : m.n = n THEN [kind |-> "method", path |-> <<>>, n |-> n]
    ELSE [kind |-> "none", path |-> <<>>]

\* apply a resolution to an object of shape sh (the memo may hand us a resolution made for another type)
RECURSIVE FieldAt(_, _)
FieldAt(sh, path) ==
    LET fs == Shapes[sh].fields IN
    IF path = <<>> \/ path[1] > Len(fs) THEN Null
    ELSE LET f == fs[path[1]] IN
         IF Len(path) = 1 THEN (IF "v" \in DOMAIN f THEN (IF IsExported(f.n) THEN f.v ELSE Null) ELSE [t |-> "embedded", sh |-> f.emb])
         ELSE IF "emb" \in DOMAIN f THEN FieldAt(f.emb, Tail(path)) ELSE Null
ThroughNilEmbedded(obj, path) == obj.embnil /\ Len(path) > 1
ApplyRes(res, obj) ==
    CASE res.kind = "field" -> IF ThroughNilEmbedded(obj, res.path) THEN Null
                               ELSE FieldAt(obj.sh, IF FirstIndexOnly THEN <<res.path[1]>> ELSE res.path)
      [] res.kind = "method" ->
           LET ms == {m \in Shapes[obj.sh].methods : m.n = res.n} IN
           IF ms = {} THEN Null
           ELSE LET m == CHOOSE x \in ms : TRUE IN IF m.ptr /\ ~obj.ptr THEN [t |-> "ptrmethod-on-value"] ELSE m.v
      [] OTHER -> Null

\* ---- the abstract meaning ---------------------------------------------------------------------
Member(obj, n) ==
    IF obj.k = "map" THEN MapVal(obj.g, n)
    ELSE LET res == Resolve(obj.sh, n) IN
         CASE res.kind = "field" -> IF ThroughNilEmbedded(obj, res.path) THEN Null ELSE FieldAt(obj.sh, res.path)
           [] res.kind = "method" -> LET m == CHOOSE x \in Shapes[obj.sh].methods : x.n = n IN
                                     IF m.ptr /\ ~obj.ptr THEN [t |-> "ptrmethod-on-value"] ELSE m.v
           [] OTHER -> Null
\* outside the fragment: a pointer-receiver method looked up on a struct value, a name that
\* denotes an embedded struct itself (what printing a struct gives is not stated)
Determined(obj, n) == Member(obj, n).t \in {"null", "int", "str"}

\* ---- the memoised lookup ---------------------------------------------------------------------------
KeyOf(obj, n) == IF KeyWithoutType THEN [sh |-> "*", n |-> n] ELSE [sh |-> obj.sh, n |-> n]
DoLookup(obj, n) ==
    /\ IF obj.k = "map"
       THEN /\ hist' = Append(hist, [obj |-> obj, n |-> n, got |-> MapVal(obj.g, n), evicted |-> 0])
            /\ UNCHANGED memo
       ELSE LET key == KeyOf(obj, n) IN
            IF key \in DOMAIN memo
            THEN /\ hist' = Append(hist, [obj |-> obj, n |-> n, got |-> ApplyRes(memo[key], obj), evicted |-> 0])
                 /\ UNCHANGED memo
            ELSE \E victims \in (IF Cardinality(DOMAIN memo) >= Cap THEN (SUBSET (DOMAIN memo)) \ {{}} ELSE {{}}) :
                   LET kept == [k \in (DOMAIN memo) \ victims |-> memo[k]]
                       res == Resolve(obj.sh, n)
                   IN /\ memo' = (key :> res) @@ kept
                      /\ hist' = Append(hist, [obj |-> obj, n |-> n, got |-> ApplyRes(res, obj), evicted |-> Cardinality(victims)])

Init == memo = [k \in {} |-> 0] /\ hist = <<>>
Next == Len(hist) < MaxLen /\ \E obj \in Objects : \E n \in AttrNames : DoLookup(obj, n)
Spec == Init /\ [][Next]_<<memo, hist>>

\* (lookups whose meaning is not determined are made too -- they go through the memo like any other -- but not judged)
CacheUnobservable == \A i \in 1..Len(hist) : Determined(hist[i].obj, hist[i].n) => hist[i].got = Member(hist[i].obj, hist[i].n)
Bounded == Cardinality(DOMAIN memo) <= Cap + 1

\* ---- emission: complete histories with the value every lookup must print ------------------------------
View == hist            \* which victims were chosen is not observable: one history per lookup sequence
\* (a history may also end in a Cust lookup: the joint render at the end gives it its meaning)
Complete == Len(hist) = MaxLen /\ (Determined(hist[MaxLen].obj, hist[MaxLen].n) \/ hist[MaxLen].n = "Cust")
Emit == Complete => PrintT(ToJson([prop |-> "C20", key |-> ToJson([i \in 1..Len(hist) |-> [obj |-> hist[i].obj, n |-> hist[i].n]]),
                                   tags |-> {"obj:" \o hist[i].obj.k : i \in 1..Len(hist)}, cap |-> Cap,
                                   ops |-> [i \in 1..Len(hist) |-> [obj |-> hist[i].obj, n |-> hist[i].n, any |-> ~Determined(hist[i].obj, hist[i].n),
                                                                   want |-> IF Determined(hist[i].obj, hist[i].n) THEN TextOf(Member(hist[i].obj, hist[i].n)) ELSE <<>>]]]))
=============================================================================
