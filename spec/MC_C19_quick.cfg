SPECIFICATION Spec
CONSTANTS
  MaxStr = 2
  MaxList = 2
  SliceRange = 3
INVARIANTS
  Emit
CHECK_DEADLOCK FALSE
