SPECIFICATION Spec
CONSTANTS
  Prepared = FALSE
  MaxLen = 3
  RenderReleasesRoot = TRUE
INVARIANTS
  NoStaleRender
PROPERTIES
  RenderPure
  FailedOpsPure
CHECK_DEADLOCK FALSE
