--------------------------- MODULE MC_CompiledFmt ---------------------------
EXTENDS CompiledFmt
ASSUME RoundTrip
ASSUME PrefixesRejected
VARIABLE x
Init == x = 0
Next == UNCHANGED x
Spec == Init /\ [][Next]_x
=============================================================================
