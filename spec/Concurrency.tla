---------------------------- MODULE Concurrency ----------------------------
(***************************************************************************)
(* C02: concurrent use of one engine is safe and equals serial use.        *)
(*                                                                         *)
(* Goroutines each run one public call; a call is a sequence of steps at   *)
(* the code's critical points.  Every step names the shared location it    *)
(* touches, whether it writes, and the lock it holds:                      *)
(*                                                                         *)
(*   lookup     templates map      R   mu (RLock)                          *)
(*   pathread   loader path cache  R   pathsMu                              *)
(*   pathwrite  loader path cache  W   pathsMu                              *)
(*   tokget     tokenizer pool         (sync.Pool, safe by itself)          *)
(*   tokenize   own tokenizer buffer W  -- owned                            *)
(*   readtokens own tokenizer buffer R  -- owned                            *)
(*   tokput     tokenizer pool                                               *)
(*   insert     templates map      W   mu (Lock)                            *)
(*   resolve    the name a relative template name is resolved against       *)
(*   render     per-call state only                                          *)
(*                                                                         *)
(* Invariants:                                                              *)
(*   NoConflictingAccess  no two goroutines have enabled steps on the same  *)
(*                        location, one of them writing, without a common   *)
(*                        lock (the model-level definition of a data race)  *)
(*   TokensIntact         the parser reads the tokens of its own source     *)
(*   RelativeNameOwn      a relative name resolves against the template of  *)
(*                        the call that contains it                          *)
(*   SerialEquivalent     a render returns the version that was current at  *)
(*                        its linearization point (lookup hit / own insert)  *)
(* Named deviations (the pinned tree's orderings; each must be FALSE to     *)
(* conform and each makes TLC produce a counterexample):                    *)
(*   EarlyTokPut     tokput before readtokens                                *)
(*   UnguardedPaths  path cache accessed without pathsMu                     *)
(*   SharedCurrent   the current template name is an engine-wide field       *)
(*   BlindInsert     a load overwrites a registration that completed meanwhile *)
(***************************************************************************)
EXTENDS Integers, Sequences, FiniteSets, TLC, Json

CONSTANTS NG,                 \* number of goroutines
          Workload,           \* "cold" | "dirs" | "regrender" | "reload" | "regcold"
          EarlyTokPut, UnguardedPaths, SharedCurrent,
          BlindInsert         \* deviation: a load stores its result whatever the cache holds by then (the pinned tree)
VARIABLES pc, templates, tokFree, tokBuf, mytok, parsed, paths, cur, resolved, result, linver, seen, hist
vars == <<pc, templates, tokFree, tokBuf, mytok, parsed, paths, cur, resolved, result, linver, seen, hist>>

G == 1..NG
Toks == 1..NG
\* what each goroutine does
Op(g) == CASE Workload = "cold"  -> [kind |-> "render", n |-> "same", dir |-> "A", v |-> 1]
           [] Workload = "dirs"  -> [kind |-> "render", n |-> (IF g % 2 = 1 THEN "dirA/main" ELSE "dirB/main"), dir |-> (IF g % 2 = 1 THEN "A" ELSE "B"), v |-> 1]
           \* reload: version 1 is cached, the timestamp-aware loader has held version 2 (newer stamp) since before every call
           [] Workload = "reload" -> [kind |-> "render", n |-> "same", dir |-> "A", v |-> 2]
           \* regcold: nothing is cached, the loader holds version 1; goroutine 1 registers version 2 while the others load
           [] Workload = "regcold" -> IF g = 1 THEN [kind |-> "register", n |-> "same", dir |-> "A", v |-> 2]
                                      ELSE [kind |-> "render", n |-> "same", dir |-> "A", v |-> 1]
           [] Workload = "regrender" -> IF g = 1 THEN [kind |-> "register", n |-> "same", dir |-> "A", v |-> 2]
                                        ELSE [kind |-> "render", n |-> "same", dir |-> "A", v |-> 1]
Names == {Op(g).n : g \in G}
LoaderVersion == IF Workload = "reload" THEN 2 ELSE 1            \* what the loader holds for every name

Init == /\ pc = [g \in G |-> IF SharedCurrent /\ Op(g).kind = "render" THEN "writecur" ELSE IF Op(g).kind = "render" THEN "lookup" ELSE "tokget"]
        /\ templates = [n \in Names |-> IF Workload \in {"regrender", "reload"} THEN 1 ELSE 0]      \* version 1 is cached already
        /\ tokFree = Toks /\ tokBuf = [t \in Toks |-> 0] /\ mytok = [g \in G |-> 0] /\ parsed = [g \in G |-> 0]
        /\ paths = {} /\ cur = "" /\ resolved = [g \in G |-> ""] /\ result = [g \in G |-> 0] /\ linver = [g \in G |-> 0]
        /\ seen = [g \in G |-> 0]            \* what the cache held for the name when the call looked it up
        /\ hist = <<>>

\* hist records the steps at which the implementation has a gate (the others are local
\* to the goroutine: their interleaving is not observable); a schedule is a sequence of
\* goroutine ids, one per gate passed
GateSteps == {"lookup", "tokget", "readtokens", "tokput", "insert", "render"}
Step(g, name) == hist' = IF name \in GateSteps THEN Append(hist, [g |-> g, s |-> name]) ELSE hist
Goto(g, l) == pc' = [pc EXCEPT ![g] = l]

WriteCur(g) == /\ pc[g] = "writecur" /\ cur' = Op(g).n /\ Goto(g, "lookup") /\ Step(g, "writecur")
               /\ UNCHANGED <<templates, tokFree, tokBuf, mytok, parsed, paths, resolved, result, linver, seen>>
Lookup(g) ==
    /\ pc[g] = "lookup" /\ Step(g, "lookup")
    \* auto-reload (workload reload): a cached copy older than what the loader holds is not a hit -- the call re-reads the loader
    /\ seen' = [seen EXCEPT ![g] = templates[Op(g).n]]
    /\ IF templates[Op(g).n] # 0 /\ ~(Workload = "reload" /\ templates[Op(g).n] < LoaderVersion)
       THEN /\ Goto(g, "resolve") /\ linver' = [linver EXCEPT ![g] = templates[Op(g).n]]
       ELSE /\ Goto(g, "pathread") /\ UNCHANGED linver
    /\ UNCHANGED <<templates, tokFree, tokBuf, mytok, parsed, paths, cur, resolved, result>>
PathRead(g) == /\ pc[g] = "pathread" /\ Step(g, "pathread")
               /\ Goto(g, IF Op(g).n \in paths THEN "tokget" ELSE "pathwrite")
               /\ UNCHANGED <<templates, tokFree, tokBuf, mytok, parsed, paths, cur, resolved, result, linver, seen>>
PathWrite(g) == /\ pc[g] = "pathwrite" /\ Step(g, "pathwrite") /\ paths' = paths \cup {Op(g).n} /\ Goto(g, "tokget")
                /\ UNCHANGED <<templates, tokFree, tokBuf, mytok, parsed, cur, resolved, result, linver, seen>>
TokGet(g) == /\ pc[g] = "tokget" /\ Step(g, "tokget")
             /\ \E t \in tokFree : mytok' = [mytok EXCEPT ![g] = t] /\ tokFree' = tokFree \ {t}
             /\ Goto(g, "tokenize")
             /\ UNCHANGED <<templates, tokBuf, parsed, paths, cur, resolved, result, linver, seen>>
SourceOf(g) == IF Op(g).kind = "register" THEN 100 + Op(g).v ELSE 100 + LoaderVersion      \* what g tokenizes
Tokenize(g) == /\ pc[g] = "tokenize" /\ Step(g, "tokenize")
               /\ tokBuf' = [tokBuf EXCEPT ![mytok[g]] = SourceOf(g) * 10 + g]      \* tagged with the writer
               /\ Goto(g, IF EarlyTokPut THEN "tokput" ELSE "readtokens")
               /\ UNCHANGED <<templates, tokFree, mytok, parsed, paths, cur, resolved, result, linver, seen>>
ReadTokens(g) == /\ pc[g] = "readtokens" /\ Step(g, "readtokens")
                 /\ parsed' = [parsed EXCEPT ![g] = tokBuf[mytok[g]]]
                 /\ Goto(g, IF EarlyTokPut THEN "insert" ELSE "tokput")
                 /\ UNCHANGED <<templates, tokFree, tokBuf, mytok, paths, cur, resolved, result, linver, seen>>
TokPut(g) == /\ pc[g] = "tokput" /\ Step(g, "tokput")
             /\ tokFree' = tokFree \cup {mytok[g]}
             /\ Goto(g, IF EarlyTokPut THEN "readtokens" ELSE "insert")
             /\ UNCHANGED <<templates, tokBuf, mytok, parsed, paths, cur, resolved, result, linver, seen>>
\* a registration always stores; a load stores only if the cache still holds what the call saw when it looked the name
\* up -- otherwise something more recent arrived in the meantime, and that is what the call hands out
Insert(g) == /\ pc[g] = "insert" /\ Step(g, "insert")
             /\ IF BlindInsert \/ Op(g).kind = "register" \/ templates[Op(g).n] = seen[g]
                THEN /\ templates' = [templates EXCEPT ![Op(g).n] = parsed[g] \div 10 - 100]
                     /\ linver' = [linver EXCEPT ![g] = parsed[g] \div 10 - 100]
                ELSE /\ UNCHANGED templates
                     /\ linver' = [linver EXCEPT ![g] = templates[Op(g).n]]
             /\ Goto(g, IF Op(g).kind = "register" THEN "done" ELSE "resolve")
             /\ UNCHANGED <<tokFree, tokBuf, mytok, parsed, paths, cur, resolved, result, seen>>
Resolve(g) == /\ pc[g] = "resolve" /\ Step(g, "resolve")
              /\ resolved' = [resolved EXCEPT ![g] = IF SharedCurrent THEN cur ELSE Op(g).n]
              /\ Goto(g, "render")
              /\ UNCHANGED <<templates, tokFree, tokBuf, mytok, parsed, paths, cur, result, linver, seen>>
\* the relative include of the dirs workload looks its (already cached) target up: one more gate
IncLookup(g) == /\ pc[g] = "inclookup" /\ Step(g, "lookup") /\ Goto(g, "done")
                /\ UNCHANGED <<templates, tokFree, tokBuf, mytok, parsed, paths, cur, resolved, result, linver, seen>>
\* the template handed out by Load is rendered: what is rendered is what was current at the linearization point
RenderBody(g) == /\ pc[g] = "render" /\ Step(g, "render")
                 /\ result' = [result EXCEPT ![g] = linver[g]] /\ Goto(g, IF Workload = "dirs" THEN "inclookup" ELSE "done")
                 /\ UNCHANGED <<templates, tokFree, tokBuf, mytok, parsed, paths, cur, resolved, linver, seen>>

Next == \E g \in G : WriteCur(g) \/ Lookup(g) \/ PathRead(g) \/ PathWrite(g) \/ TokGet(g) \/ Tokenize(g) \/ ReadTokens(g)
                     \/ TokPut(g) \/ Insert(g) \/ Resolve(g) \/ IncLookup(g) \/ RenderBody(g)
Spec == Init /\ [][Next]_vars

\* ---- the access table ---------------------------------------------------------------------------------
\* location, write?, lock of the step goroutine g is about to take
Access(g) ==
    CASE pc[g] = "writecur"   -> [loc |-> "cur", w |-> TRUE, lock |-> ""]
      [] pc[g] \in {"lookup", "inclookup"} -> [loc |-> "templates", w |-> FALSE, lock |-> "mu"]
      [] pc[g] = "insert"     -> [loc |-> "templates", w |-> TRUE, lock |-> "mu"]
      [] pc[g] = "pathread"   -> [loc |-> "paths", w |-> FALSE, lock |-> IF UnguardedPaths THEN "" ELSE "pathsMu"]
      [] pc[g] = "pathwrite"  -> [loc |-> "paths", w |-> TRUE, lock |-> IF UnguardedPaths THEN "" ELSE "pathsMu"]
      [] pc[g] = "tokenize"   -> [loc |-> "tokbuf" \o ToString(mytok[g]), w |-> TRUE, lock |-> ""]
      [] pc[g] = "readtokens" -> [loc |-> "tokbuf" \o ToString(mytok[g]), w |-> FALSE, lock |-> ""]
      [] pc[g] = "resolve" /\ SharedCurrent -> [loc |-> "cur", w |-> FALSE, lock |-> ""]
      [] OTHER                -> [loc |-> "", w |-> FALSE, lock |-> ""]
NoConflictingAccess ==
    \A g1, g2 \in G : g1 # g2 =>
        LET a == Access(g1)  b == Access(g2) IN
        ~(a.loc # "" /\ a.loc = b.loc /\ (a.w \/ b.w) /\ (a.lock = "" \/ a.lock # b.lock))
TokensIntact == \A g \in G : parsed[g] # 0 => parsed[g] = SourceOf(g) * 10 + g
RelativeNameOwn == \A g \in G : resolved[g] # "" => resolved[g] = Op(g).n
SerialEquivalent == \A g \in G : (pc[g] = "done" /\ Op(g).kind = "render") =>
                        result[g] \in (IF Workload \in {"regrender", "regcold"} THEN {1, 2} ELSE {LoaderVersion})
\* once the registration has completed, the cache holds the registered version for good: no load that began before it may
\* put an older source back (in every serial order of the calls the registered version is what remains)
RegistrationLasts == \A g \in G : (Op(g).kind = "register" /\ pc[g] = "done") => templates[Op(g).n] = Op(g).v
SingleOwner == \A g1, g2 \in G : g1 # g2 /\ mytok[g1] # 0 /\ mytok[g1] = mytok[g2] =>
                   (pc[g1] \in {"done", "insert", "resolve", "inclookup", "render"} \/ pc[g2] \in {"done", "insert", "resolve", "inclookup", "render"}
                    \/ (EarlyTokPut /\ FALSE))

View == <<pc, templates, tokFree, tokBuf, mytok, parsed, paths, cur, resolved, result, linver, seen>>     \* for configs that only check invariants
\* ---- emission: complete schedules for gate replay ----------------------------------------------------
Done == \A g \in G : pc[g] = "done"
Emit == Done => PrintT(ToJson([prop |-> "C02", key |-> ToJson(hist), workload |-> Workload, ng |-> NG,
                               tags |-> {"wl:" \o Workload}, results |-> [g \in G |-> result[g]],
                               steps |-> hist]))
=============================================================================
