--------------------------- MODULE PoolDiscipline ---------------------------
(***************************************************************************)
(* The engine recycles render contexts and their variable / block / macro   *)
(* maps through process-wide pools.  What a render may depend on (C01), what *)
(* concurrent renders may share (C02) and what happens to the caller's data  *)
(* (C18) all hinge on one discipline:                                        *)
(*                                                                         *)
(*   an object is either in its pool or with exactly one user;              *)
(*   it is given back once, by the user that has it, empty, into the pool    *)
(*   it came from; a user receives it empty; nothing that belongs to the     *)
(*   caller of Render is ever given to a pool.                               *)
(*                                                                         *)
(* Design model: Users take objects from the pool (or fresh ones) and give   *)
(* them back.  Exclusive is the invariant.  The deviation switches are the   *)
(* defect classes (each must be FALSE to conform; with any of them TRUE TLC  *)
(* finds the counterexample): DoublePut (an error path releases explicitly   *)
(* and the deferred release runs as well), UseAfterPut (a user keeps writing *)
(* into an object it has given back), DirtyPut (an object is given back with *)
(* entries in it), CallerPut (the caller's own map is handed to the pool).   *)
(* Trace_Pool.tla replays the Get / Put events recorded from the real pools  *)
(* through the same state.                                                   *)
(***************************************************************************)
EXTENDS Integers, FiniteSets

CONSTANTS Objs,          \* pooled objects (contexts or maps)
          CallerObjs,    \* objects that belong to the caller of Render
          Users,
          DoublePut, UseAfterPut, DirtyPut, CallerPut
VARIABLES pooled,        \* pooled[o] : how many times o sits in the pool
          holds,         \* holds[u] : the objects user u works with
          entries        \* entries[o] : number of entries in o (0 = empty)
vars == <<pooled, holds, entries>>

All == Objs \cup CallerObjs
Init == /\ pooled = [o \in All |-> 0]
        /\ holds = [u \in Users |-> {}]
        /\ entries = [o \in All |-> 0]

Held(o) == \E u \in Users : o \in holds[u]
\* a user takes an object: one from the pool, or a fresh one the pool makes
Get(u, o) == /\ o \in Objs
             /\ pooled[o] > 0 \/ (pooled[o] = 0 /\ ~Held(o))
             /\ pooled' = [pooled EXCEPT ![o] = IF @ > 0 THEN @ - 1 ELSE 0]
             /\ holds' = [holds EXCEPT ![u] = @ \cup {o}]
             /\ UNCHANGED entries
Write(u, o) == /\ o \in holds[u] /\ entries[o] < 2
               /\ entries' = [entries EXCEPT ![o] = @ + 1]
               /\ UNCHANGED <<pooled, holds>>
\* giving back: emptied first
Put(u, o) == /\ o \in holds[u] /\ o \in Objs
             /\ pooled' = [pooled EXCEPT ![o] = @ + (IF DoublePut THEN 2 ELSE 1)]
             /\ holds' = [holds EXCEPT ![u] = IF UseAfterPut THEN @ ELSE @ \ {o}]
             /\ entries' = [entries EXCEPT ![o] = IF DirtyPut THEN @ ELSE 0]
\* the caller hands its own map to a render; the render works on a copy
CallerGives(u, o) == /\ o \in CallerObjs /\ CallerPut /\ pooled[o] = 0
                     /\ pooled' = [pooled EXCEPT ![o] = 1]
                     /\ UNCHANGED <<holds, entries>>
Next == \E u \in Users : \E o \in All : Get(u, o) \/ Write(u, o) \/ Put(u, o) \/ CallerGives(u, o)
Spec == Init /\ [][Next]_vars

\* ---- the discipline -----------------------------------------------------------------------------
Exclusive == /\ \A u, v \in Users : u # v => holds[u] \cap holds[v] = {}          \* one user at a time
             /\ \A o \in All : pooled[o] <= 1                                      \* in the pool once
             /\ \A o \in All : pooled[o] = 1 => ~Held(o)                           \* not in the pool and with a user
CleanInPool == \A o \in All : pooled[o] > 0 => entries[o] = 0                     \* what a user receives is empty
CallerKeeps == \A o \in CallerObjs : pooled[o] = 0                                \* the caller's data never enter a pool
Discipline == Exclusive /\ CleanInPool /\ CallerKeeps
=============================================================================
