SPECIFICATION Spec
CONSTANTS
  NamesUsed = {"l2"}
  InitAuto = TRUE
  Broken = FALSE
  TwoPaths = TRUE
  MaxLen = 6
INVARIANTS
  TypeOK
  Emit
PROPERTIES
  P1
  P2
  P3unchanged
  P3changed
  P4
  P5
  P6
CHECK_DEADLOCK FALSE
