SPECIFICATION Spec
CONSTANTS
  MaxChain = 2
INVARIANTS
  Emit
CHECK_DEADLOCK FALSE
