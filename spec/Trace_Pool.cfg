SPECIFICATION Spec
CONSTRAINT Consumed
POSTCONDITION Verdict
CHECK_DEADLOCK FALSE
