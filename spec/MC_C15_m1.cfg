SPECIFICATION Spec
CONSTANTS
  NamesUsed = {"m1"}
  InitAuto = TRUE
  Broken = TRUE
  TwoPaths = FALSE
  MaxLen = 5
INVARIANTS
  TypeOK
  Emit
PROPERTIES
  P1
  P2
  P3unchanged
  P3changed
  P4
  P5
  P6
  P3broken
CHECK_DEADLOCK FALSE
