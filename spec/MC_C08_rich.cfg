SPECIFICATION Spec
CONSTANTS
  RichLeaves = TRUE
  MaxOps = 2
  PosOps = 1
INVARIANTS
  ModelOK
  Emit
CHECK_DEADLOCK FALSE
