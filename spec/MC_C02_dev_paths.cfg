SPECIFICATION Spec
CONSTANTS
  NG = 2
  Workload = "cold"
  EarlyTokPut = FALSE
  UnguardedPaths = TRUE
  SharedCurrent = FALSE
  BlindInsert = FALSE
INVARIANTS
  NoConflictingAccess
  TokensIntact
  RelativeNameOwn
  SerialEquivalent
  RegistrationLasts
  SingleOwner
CHECK_DEADLOCK FALSE
VIEW View
