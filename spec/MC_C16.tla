------------------------------- MODULE MC_C16 -------------------------------
(***************************************************************************)
(* C16: a compiled template is interchangeable with its source.            *)
(* In the lifecycle model RegisterCompiled(Deserialize(Serialize(Compile t)))*)
(* is observationally RegisterString(source t): the expected render of the  *)
(* compiled form is the reference semantics of the source.  TLC enumerates  *)
(* names x sources x timestamps x contexts; the harness (command compiled)  *)
(* drives Compile / Serialize / Deserialize / RegisterCompiled /            *)
(* LoadFromCompiledData / CompiledLoader Save+Load on real engines and      *)
(* compares fields and renders.  The byte layout is CompiledFmt.tla; the    *)
(* bytes the engine really wrote are validated against it by Trace_C16.     *)
(***************************************************************************)
EXTENDS TwigSyntax, Json

CONSTANTS Big,      \* TRUE: 1 MiB sources
          SweepLens \* source / name lengths of the length sweep (every length-prefix boundary lies in some such range)
VARIABLE cs
SweepQuick == (120..135) \cup (248..262) \cup (508..516)
SweepThorough == (1..700) \cup (65530..65540)

T(s) == Text(s)
L12 == Lit(VL(<<VI(1), VI(2)>>))
\* sources as ASTs (their meaning is known to the reference semantics) ...
AstSources ==
  [ plain  |-> <<T(<<97>>), PrintS(Var("x")), T(<<98>>)>>,
    ctrl   |-> <<IfElse(Var("x"), <<T(<<89>>)>>, <<T(<<78>>)>>), For1("i", L12, <<PrintS(Var("i")), T(<<44>>)>>), Set("z", Bin("+", LI(2), LI(3))), PrintS(Var("z"))>>,
    filt   |-> <<PrintS(Filt("upper", Var("x"), <<>>)), PrintS(Filt("length", L12, <<>>)), PrintS(Cond(Var("x"), LI(1), LI(2)))>>,
    macro  |-> <<Macro("mm", <<Param("a"), ParamD("b", LI(7))>>, <<T(<<40>>), PrintS(Var("a")), PrintS(Var("b")), T(<<41>>)>>), PrintS(Call("mm", <<Var("x")>>))>>,
    incl   |-> <<T(<<91>>), Inc(LS(NT.t2)), T(<<93>>)>>,
    child  |-> <<Extends(LS(NT.t2)), Block("bb", <<T(<<67>>), PrintS(Var("x")), PrintS(Call("parent", <<>>))>>)>>,
    dashes |-> <<T(<<97, 32>>), PrintS(Var("x")), T(<<32, 98>>)>>,
    nonutf |-> <<T(<<-255, 0, 233, 8364>>), PrintS(Var("x")), T(<<-128>>)>>,
    relinc |-> <<T(<<60>>), Inc(LS(<<46, 47, 112, 97, 114, 116>>)), T(<<62>>)>>,        \* include './part': resolves against the template's own name
    empty  |-> <<>>,
    onebyte |-> <<T(<<97>>)>>,
    \* comments are the only tag syntax in the source
    cmt    |-> <<T(<<97>>), Comment(<<32, 99, 32>>), T(<<98>>), Comment(<<>>)>>,
    braces |-> <<T(<<97, 32, 123, 32, 98, 32, 125, 32, 37, 32, 35>>)>>,
    \* line endings of every kind, in text, in a string literal, in a verbatim body
    crlf   |-> <<T(<<97, 13, 10, 98, 13, 10>>), PrintS(Var("x")), T(<<13, 10, 13, 13, 10, 10>>), PrintS(LS(<<99, 13, 10, 100>>)), Verbatim(<<101, 13, 10>>), T(<<13, 10>>)>> ]
Helper == <<T(<<60>>), Block("bb", <<T(<<68>>)>>), PrintS(Var("x")), T(<<62>>)>>         \* t2: included / extended
\* ... and big literal sources (pad tokens expanded by the Go side)
PadSources == [ p65535 |-> 65535, p65536 |-> 65536, p4097 |-> 4097 ] @@ (IF Big THEN [p1m |-> 1048576] ELSE [pnone |-> 0])

Names == [ home |-> <<112, 97, 103, 101, 115, 47, 104, 111, 109, 101>>,     \* pages/home
           t |-> <<116>>, acc |-> <<233>>, nul |-> <<0>>, xff |-> <<-255>>, path |-> <<100, 47, 116, 46, 104, 116, 109, 108>>, sp |-> <<97, 32, 98>> ]
FileSafe == {"t", "acc", "sp"}
Stamps == {"zero", "minus1", "big", "now"}
Ctxs == [c1 |-> ("x" :> VS(<<113>>)), c2 |-> EmptyFn]

\* length sweep: a literal source of exactly k bytes / a name of exactly k bytes
SweepCases == {[src |-> "sweep", len |-> k, name |-> "t", lm |-> "now", c |-> "c1"] : k \in SweepLens \cap (2..100000)}
              \cup {[src |-> "plain", nlen |-> k, name |-> "long", lm |-> "now", c |-> "c1"] : k \in SweepLens \cap (1..4000)}
IsSweep(c) == "len" \in DOMAIN c
NameOf(c) == IF "nlen" \in DOMAIN c THEN [i \in 1..c.nlen |-> 97 + (i % 26)] ELSE Names[c.name]
Cases == {[src |-> s, name |-> n, lm |-> lm, c |-> c] : s \in DOMAIN AstSources, n \in DOMAIN Names, lm \in Stamps, c \in DOMAIN Ctxs}
         \cup SweepCases
         \cup {[src |-> s, name |-> n, lm |-> "now", c |-> "c1"] : s \in (DOMAIN PadSources) \ {"pnone"}, n \in {"t", "nul"}}
Relevant(c) == (c.name \notin {"t", "home", "long"} => c.src \in {"plain", "child", "nonutf", "empty", "p65535", "p65536", "p4097", "p1m"})
               /\ (c.name = "home" <=> c.src = "relinc")
               /\ (c.lm # "now" => c.src \in {"plain", "empty"})

IsPadSrc(c) == c.src \in DOMAIN PadSources \/ IsSweep(c)
PadLen(c) == IF IsSweep(c) THEN c.len - 2 ELSE PadSources[c.src]
Body(c) == IF IsPadSrc(c) THEN <<T(<<112, PadBase, 113>>)>> ELSE AstSources[c.src]
\* the reference semantics of the source, registered under a fixed internal name
\* (in the reference the relative name denotes the helper: pages/home includes pages/part)
RefBody(c) == IF c.src = "relinc" THEN <<T(<<60>>), Inc(LS(NT.t2)), T(<<62>>)>> ELSE Body(c)
Ref(c) == Render(MkW(("main" :> RefBody(c)) @@ ("t2" :> Helper), {}, {}, NoFault), "main", Ctxs[c.c])

CaseOf(c) ==
    LET ref == Ref(c) IN
    [prop |-> "C16", key |-> ToJson(c),
     tags |-> {"src:" \o c.src, "name:" \o c.name, "lm:" \o c.lm} \cup (IF c.name \in FileSafe THEN {"file"} ELSE {})
              \cup (IF IsSweep(c) \/ "nlen" \in DOMAIN c THEN {"lensweep"} ELSE {}),
     name |-> NameOf(c), source |-> Source(Body(c), LMin), helper |-> Source(Helper, LMin),
     helpername |-> IF c.src = "relinc" THEN <<112, 97, 103, 101, 115, 47, 112, 97, 114, 116>> ELSE <<116, 50>>,
     pads |-> IF IsPadSrc(c) THEN <<[len |-> PadLen(c), style |-> "p", total |-> 0]>> ELSE <<>>,
     lm |-> c.lm, filesafe |-> c.name \in FileSafe, ctx |-> Ctxs[c.c],
     expect |-> [ok |-> ref.ok, out |-> ref.out, err |-> ref.err]]

Init == cs \in {c \in Cases : Relevant(c) /\ Ref(c).err # "frag"}
Next == UNCHANGED cs
Spec == Init /\ [][Next]_cs
Emit == PrintT(ToJson(CaseOf(cs)))
=============================================================================
