----------------------------- MODULE CompiledFmt -----------------------------
(***************************************************************************)
(* The serialised form of a compiled template as a function on byte         *)
(* sequences, and its inverse.                                              *)
(*   version(1) | len32 name | name | len32 source | source |               *)
(*   lastModified int64 LE | compileTime int64 LE | len32 ast | ast         *)
(* Timestamps are kept as byte octets (TLC integers are 32-bit).            *)
(* Decode never "crashes": on every input it returns [ok |-> FALSE] or a    *)
(* record; Decode(Encode(x)) = x; every strict prefix of an encoding is     *)
(* rejected.                                                                *)
(***************************************************************************)
EXTENDS Integers, Sequences, FiniteSets, TLC

Byte == 0..255
LE32(n) == <<n % 256, (n \div 256) % 256, (n \div 65536) % 256, (n \div 16777216) % 256>>
UnLE32(b) == b[1] + 256 * b[2] + 65536 * b[3] + 16777216 * b[4]

Encode(x) == <<1>> \o LE32(Len(x.name)) \o x.name \o LE32(Len(x.source)) \o x.source
             \o x.lm \o x.ct \o LE32(Len(x.ast)) \o x.ast

Bad == [ok |-> FALSE]
\* read a length-prefixed field at offset p (1-based): [ok, val, next]
ReadStr(b, p) ==
    IF p + 3 > Len(b) THEN [ok |-> FALSE, val |-> <<>>, next |-> p]
    ELSE LET b4 == SubSeq(b, p, p + 3)
             \* a prefix with a non-zero high byte announces >= 16 MiB: more than any input here holds
             n == IF b4[4] # 0 \/ b4[3] > 63 THEN -1 ELSE UnLE32(b4) IN
         IF n < 0 \/ p + 3 + n > Len(b) THEN [ok |-> FALSE, val |-> <<>>, next |-> p]
         ELSE [ok |-> TRUE, val |-> SubSeq(b, p + 4, p + 3 + n), next |-> p + 4 + n]
Decode(b) ==
    IF Len(b) < 1 \/ b[1] # 1 THEN Bad
    ELSE LET nm == ReadStr(b, 2) IN
         IF ~nm.ok THEN Bad
         ELSE LET src == ReadStr(b, nm.next) IN
              IF ~src.ok THEN Bad
              ELSE IF src.next + 15 > Len(b) THEN Bad
              ELSE LET lm == SubSeq(b, src.next, src.next + 7)
                       ct == SubSeq(b, src.next + 8, src.next + 15)
                       ast == ReadStr(b, src.next + 16) IN
                   IF ~ast.ok THEN Bad
                   ELSE [ok |-> TRUE, name |-> nm.val, source |-> src.val, lm |-> lm, ct |-> ct, ast |-> ast.val, rest |-> Len(b) - ast.next + 1]

\* ---- bounded self-check ------------------------------------------------------------------
SmallBytes == {0, 1, 255, 123}
SmallStr == UNION {[1..k -> SmallBytes] : k \in 0..2}
Stamps == {<<0, 0, 0, 0, 0, 0, 0, 0>>, <<255, 255, 255, 255, 255, 255, 255, 255>>, <<0, 0, 0, 0, 0, 0, 0, 64>>, <<2, 1, 0, 0, 0, 0, 0, 0>>}
Records == [name : SmallStr, source : SmallStr, lm : Stamps, ct : {<<7, 0, 0, 0, 0, 0, 0, 0>>}, ast : {<<>>, <<9>>, <<9, 0>>}]
RoundTrip == \A x \in Records :
    LET d == Decode(Encode(x)) IN
    d.ok /\ d.name = x.name /\ d.source = x.source /\ d.lm = x.lm /\ d.ct = x.ct /\ d.ast = x.ast /\ d.rest = 0
PrefixesRejected == \A x \in {r \in Records : Len(r.name) <= 1 /\ Len(r.source) <= 1} :
    \A k \in 0..(Len(Encode(x)) - 1) : ~Decode(SubSeq(Encode(x), 1, k)).ok
=============================================================================
