------------------------------- MODULE MC_C03 -------------------------------
(***************************************************************************)
(* C03: output is a deterministic function of templates and context.       *)
(* In the reference semantics the iteration order of a map is the order of  *)
(* its key sequence.  TLC runs every program under every permutation of    *)
(* that order: a program whose output depends on the permutation is        *)
(* *order-sensitive* -- those are the non-trivial cases, the ones in which  *)
(* an implementation that leaks Go's randomised map iteration (or the       *)
(* insertion order, or a memory address) shows it.  The verdict needs no    *)
(* reference order: every case is rendered many times on fresh engines and  *)
(* fresh context values, with reversed insertion order, and in several      *)
(* processes, and all outputs must be byte-identical.                       *)
(***************************************************************************)
EXTENDS TwigSyntax, Json

CONSTANTS FmtLen      \* date format strings up to this length
VARIABLE cs

T(s) == Text(s)
K(s) == VS(s)
kA == <<97>>  kB == <<98>>  kC == <<99>>  kD == <<100>>
\* ---- maps ---------------------------------------------------------------------------------
Maps == [ any3 |-> VM(<<K(kA), K(kB), K(kC)>>, <<VI(1), VI(2), VI(3)>>),
          msi3 |-> VMg(<<K(kA), K(kB), K(kC)>>, <<VI(1), VI(2), VI(3)>>, "msi"),
          mss3 |-> VMg(<<K(kA), K(kB), K(kC)>>, <<VS(<<120>>), VS(<<121>>), VS(<<122>>)>>, "mss"),
          mis3 |-> VMg(<<VI(10), VI(9), VI(2)>>, <<VS(<<120>>), VS(<<121>>), VS(<<122>>)>>, "mis"),
          any4 |-> VM(<<K(kA), K(kB), K(kC), K(kD)>>, <<VI(1), VI(2), VI(3), VI(4)>>),
          \* the empty string is a key like any other; 64-bit keys beyond 2^53 that are close together
          emptykey |-> VM(<<K(<<>>), K(kA), K(kB)>>, <<VI(0), VI(1), VI(2)>>),
          big64 |-> VMg(<<VI(0), VI(1), VI(7)>>, <<VS(<<120>>), VS(<<121>>), VS(<<122>>)>>, "mi64big"),
          \* interface-keyed maps whose keys print alike (1 and "1"; 10, 9 and "9"; 1, 1.0 and int64(1))
          ikeys2 |-> VMg(<<VI(1), VS(<<49>>)>>, <<VS(<<120>>), VS(<<121>>)>>, "mii"),
          ikeys3 |-> VMg(<<VI(10), VI(9), VS(<<57>>)>>, <<VS(<<120>>), VS(<<121>>), VS(<<122>>)>>, "mii"),
          ikeys1 |-> VMg(<<VI(1), VD(1, 0), VN(VI(1), "i64")>>, <<VS(<<120>>), VS(<<121>>), VS(<<122>>)>>, "mii"),
          \* keys of different defined types with one value; NaN keys (which never equal themselves) next to ordinary ones
          ikeysT |-> VMg(<<VN(VI(1), "lvla"), VN(VI(1), "lvlb"), VN(VI(1), "i8")>>, <<VS(<<120>>), VS(<<121>>), VS(<<122>>)>>, "mii"),
          \* pointer keys: three pointers to values that print alike; pointers into one array (its layout reversed in the "rev" runs)
          ptrkeys |-> VMg(<<VI(1), VI(1), VI(1)>>, <<VS(<<120>>), VS(<<121>>), VS(<<122>>)>>, "mptr"),
          ptrints |-> VMg(<<VI(3), VI(1), VI(2)>>, <<VS(<<120>>), VS(<<121>>), VS(<<122>>)>>, "mpint"),
          \* int64 keys above 2^53 that one float64 cannot tell apart, all mapped to the same value (a set of ids)
          bigeq |-> VMg(<<VI(3), VI(1), VI(2), VI(4)>>, <<VS(<<116>>), VS(<<116>>), VS(<<116>>), VS(<<116>>)>>, "mi64big"),
          nankeys |-> VMg(<<VI(3), VI(1), VI(2)>>, <<VS(<<120>>), VS(<<121>>), VS(<<122>>)>>, "mfsnan"),
          nest |-> VM(<<K(<<112>>), K(<<113>>)>>, <<VM(<<K(kA), K(kB)>>, <<VI(1), VI(2)>>), VM(<<K(kC), K(kD)>>, <<VI(3), VI(4)>>)>>) ]

Perms(n) == {p \in [1..n -> 1..n] : \A i, j \in 1..n : i # j => p[i] # p[j]}
PermMap(m, p) == [m EXCEPT !.ks = [i \in 1..Len(m.ks) |-> m.ks[p[i]]], !.vs = [i \in 1..Len(m.vs) |-> m.vs[p[i]]]]

M == Var("m")
KV == <<PrintS(Var("k")), T(<<61>>), PrintS(Var("v")), T(<<59>>)>>
Lit3 == Hash(<<LS(kA), LS(kB), LS(kC)>>, <<LI(1), LI(2), LI(3)>>)
Programs ==
  [ forkv    |-> <<For("v", "k", M, KV, <<>>, FALSE)>>,
    forv     |-> <<For1("v", M, <<PrintS(Var("v")), T(<<44>>)>>)>>,
    forlit   |-> <<For("v", "k", Lit3, KV, <<>>, FALSE)>>,
    forlitv  |-> <<For1("v", Lit3, <<PrintS(Var("v"))>>)>>,
    setlit   |-> <<Set("h", Lit3), For("v", "k", Var("h"), KV, <<>>, FALSE)>>,
    first    |-> <<PrintS(Filt("first", M, <<>>))>>,
    last     |-> <<PrintS(Filt("last", M, <<>>))>>,
    join     |-> <<PrintS(Filt("join", M, <<LS(<<44>>)>>))>>,
    keysjoin |-> <<PrintS(Filt("join", Filt("keys", M, <<>>), <<LS(<<44>>)>>))>>,
    keysfirst |-> <<PrintS(Filt("first", Filt("keys", M, <<>>), <<>>))>>,
    forkeys  |-> <<For1("k", Filt("keys", M, <<>>), <<PrintS(Var("k"))>>)>>,
    \* replace with a hash of pairs whose replacements contain each other's search texts (whatever that gives, it gives it every time)
    replacehash |-> <<PrintS(Filt("replace", LS(<<97, 32, 98, 32, 99>>), <<Hash(<<LS(kA), LS(kB), LS(kC)>>, <<LS(kB), LS(kC), LS(kA)>>)>>)), T(<<124>>),
                      PrintS(Filt("replace", LS(<<97, 98, 99, 97>>), <<M>>))>>,
    merged   |-> <<For("v", "k", Filt("merge", M, <<Hash(<<LS(<<122>>)>>, <<LI(9)>>)>>), KV, <<>>, FALSE)>>,
    lastset  |-> <<Set("z", LI(0)), For("v", "k", M, <<Set("z", Var("k"))>>, <<>>, FALSE), PrintS(Var("z"))>>,
    loopidx  |-> <<For("v", "k", M, <<If1(Attr(Var("loop"), "first"), <<PrintS(Var("k"))>>), If1(Attr(Var("loop"), "last"), <<PrintS(Var("k"))>>)>>, <<>>, FALSE)>>,
    length   |-> <<PrintS(Filt("length", M, <<>>))>>,
    lookup   |-> <<PrintS(Attr(M, "a")), PrintS(Item(M, LS(kB)))>>,
    \* hash literals with a repeated key, with keys that collide as text, with bare names as keys
    duplit   |-> <<PrintS(Item(Hash(<<LS(kA), LS(kA)>>, <<LI(1), LI(2)>>), LS(kA))), Set("h", Hash(<<LS(kA), LS(kB), LS(kA)>>, <<LI(1), LI(2), LI(3)>>)), PrintS(Attr(Var("h"), "a")),
                   PrintS(Filt("first", Hash(<<LI(1), LS(<<49>>)>>, <<LS(<<120>>), LS(<<121>>)>>), <<>>)), PrintS(Filt("length", Var("h"), <<>>))>>,
    mergecollide |-> <<PrintS(Filt("join", Filt("merge", M, <<Hash(<<>>, <<>>)>>), <<LS(<<44>>)>>)), For("v", "k", Filt("merge", Hash(<<LS(<<122>>)>>, <<LI(0)>>), <<M>>), KV, <<>>, FALSE)>>,
    \* subscripts whose index is computed (a number that is not the key's own Go type, a string built at run time)
    ilookup  |-> <<PrintS(Item(M, LI(1))), T(<<124>>), PrintS(Item(M, LS(<<49>>))), T(<<124>>), PrintS(Item(M, Bin("+", LI(0), LI(1)))), T(<<124>>),
                   PrintS(Item(M, Bin("~", LS(<<>>), LI(1)))), T(<<124>>), PrintS(Item(M, Bin("*", LI(3), LI(3)))), T(<<124>>), PrintS(Item(M, Bin("~", LI(9), LS(<<>>)))), T(<<124>>),
                   PrintS(Item(M, Bin("-", LI(11), LI(1)))), T(<<124>>), For1("i", Lit(VL(<<VI(1), VI(9)>>)), <<PrintS(Item(M, Bin("+", Var("i"), LI(0))))>>)>>,
    \* a typed string-keyed map merged with a map whose keys print alike: the colliding key is read afterwards
    mergetyped |-> <<For("v", "k", Filt("merge", Var("t"), <<M>>), KV, <<>>, FALSE), T(<<124>>), PrintS(Item(Filt("merge", Var("t"), <<M>>), LS(<<49>>))),
                     PrintS(Item(Filt("merge", Var("t"), <<M>>), LS(<<57>>))), T(<<124>>), PrintS(Filt("join", Filt("merge", Var("t"), <<M, M>>), <<LS(<<44>>)>>))>>,
    nested   |-> <<For("inner", "k", M, <<PrintS(Var("k")), T(<<58>>), For("v", "j", Var("inner"), <<PrintS(Var("j")), PrintS(Var("v"))>>, <<>>, FALSE), T(<<59>>)>>, <<>>, FALSE)>> ]
IKeys == {"ikeys2", "ikeys3", "ikeys1", "ikeysT", "nankeys"}
Applicable(pn, mn) ==
    /\ (pn = "nested" <=> mn = "nest")
    /\ (pn \in {"forlit", "forlitv", "setlit"} => mn = "any3")
    /\ (pn = "lookup" => mn \in {"any3", "msi3"})
    /\ (pn = "merged" => mn \in {"any3", "any4"})
    /\ (pn = "duplit" => mn = "any3")
    /\ (pn = "mergecollide" => mn \in IKeys)
    /\ (pn = "ilookup" => mn \in IKeys)
    /\ (pn = "mergetyped" => mn \in IKeys)
    /\ (mn \in IKeys => pn \in {"forkv", "forv", "first", "last", "mergecollide", "length", "ilookup", "mergetyped", "join", "keysjoin", "forkeys", "loopidx", "lastset"})

MapCases == {[fam |-> "map", p |-> pn, m |-> mn] : pn \in DOMAIN Programs, mn \in DOMAIN Maps}
Ref(c, perm) == Render(MkW(("main" :> Programs[c.p]), {}, {}, NoFault), "main", ("m" :> PermMap(Maps[c.m], perm)))
Sensitive(c) == Cardinality({Ref(c, perm).out : perm \in Perms(Len(Maps[c.m].ks))}) > 1
\* hash literals in the template are sensitive by construction (their order is the implementation's)
LitSensitive(c) == c.p \in {"forlit", "forlitv", "setlit", "duplit", "mergecollide", "ilookup", "mergetyped"} \/ c.m \in IKeys

\* ---- date formats ----------------------------------------------------------------------------------
FmtAlphabet == {100, 68, 106, 108, 70, 109, 77, 110, 89, 121, 97, 65, 103, 71, 104, 72, 105, 115, 45, 58, 32, 44, 47}
Fmts == UNION {[1..k -> FmtAlphabet] : k \in 1..FmtLen}
Seeds == {<<68, 44, 32, 100, 32, 77, 32, 89>>, <<89, 45, 109, 45, 100, 32, 72, 58, 105, 58, 115>>, <<108, 32, 106, 32, 70, 32, 89, 32, 103, 58, 105, 32, 65>>,
          <<77, 32, 100, 44, 32, 121>>}
DateCases == {[fam |-> "date", f |-> f, d |-> d] : f \in Fmts \cup Seeds, d \in {1136214245, 1709210096}}    \* 2006-01-02 15:04:05, 2024-02-29 12:34:56

\* the same instant given as a time value, as an integer and as a decimal number of seconds (before and after 1970)
\* must be formatted alike: the result is a function of the instant, never of the clock
Instants == {1136214245, 1709210096, 86399, -1, -86400, -86401, -1000000000, 951782400}
InstantFmts == Seeds \cup {<<89, 45, 109, 45, 100>>, <<72, 58, 105>>, <<108>>}
DateIntCases == {[fam |-> "dateint", f |-> f, d |-> d] : f \in InstantFmts, d \in Instants}

\* ---- an include's with-hash whose values read variables that are also keys of the hash (evaluated in the includer) ----
sHome == <<72, 111, 109, 101>>
IncWithCases == {[fam |-> "incwith", only |-> o, sbx |-> sb, n |-> n] : o \in BOOLEAN, sb \in BOOLEAN, n \in 2..4}
IncWithHash(n) == Hash([i \in 1..n |-> LS(CASE i = 1 -> NT.h [] i = 2 -> NT.t [] i = 3 -> NT.u [] i = 4 -> NT.a)],
                       [i \in 1..n |-> CASE i = 1 -> Var("t") [] i = 2 -> LS(<<68>>) [] i = 3 -> Bin("~", Var("h"), Var("t")) [] i = 4 -> Var("u")])
IncWithTp(c) == ("main" :> <<Include(LS(NT.t1), IncWithHash(c.n), TRUE, c.only, FALSE, c.sbx), T(<<124>>), PrintS(Var("t"))>>)
                @@ ("t1" :> <<T(<<91>>), PrintS(Var("h")), T(<<124>>), PrintS(Var("t")), T(<<124>>), PrintS(Var("u")), T(<<124>>), PrintS(Var("a")), T(<<93>>)>>)
IncWithCtx == ("t" :> VS(sHome)) @@ ("h" :> VS(<<111>>)) @@ ("u" :> VS(<<117>>))

\* ---- values that carry memory addresses ----------------------------------------------------------------
AddrCases == {[fam |-> "addr", kind |-> k, prog |-> pr] : k \in {"ptrstruct", "ptrptr", "func", "chan", "privptr", "ptrlist"},
                 pr \in {"print", "concat", "join", "default", "length", "dump", "format", "spaceless", "jsonish"}}
AddrProg(pr) == CASE pr = "print"   -> <<PrintS(Var("v"))>>
                  [] pr = "concat"  -> <<PrintS(Bin("~", LS(<<120>>), Var("v")))>>
                  [] pr = "join"    -> <<PrintS(Filt("join", Arr(<<Var("v"), LI(1)>>), <<LS(<<44>>)>>))>>
                  [] pr = "default" -> <<PrintS(Filt("default", Var("v"), <<LS(<<100>>)>>))>>
                  [] pr = "length"  -> <<If1(Var("v"), <<T(<<116>>)>>)>>
                  \* the debugging and formatting helpers print values too
                  [] pr = "dump"    -> <<PrintS(Call("dump", <<Var("v")>>))>>
                  [] pr = "format"  -> <<PrintS(Filt("format", LS(<<37, 118, 124, 37, 115>>), <<Var("v"), Var("v")>>))>>
                  [] pr = "spaceless" -> <<PrintS(Filt("spaceless", Var("v"), <<>>))>>
                  [] pr = "jsonish" -> <<PrintS(Filt("upper", Bin("~", Var("v"), LS(<<33>>)), <<>>))>>

\* ---- programs whose result the reference semantics fixes, rendered again and again with the SAME context value -------
\* typed lists shown in their given order before and after an order-changing filter; the two spellings of one pattern
I3 == <<VI(3), VI(1), VI(2)>>
S3 == <<VS(<<99>>), VS(<<97>>), VS(<<98>>)>>
ListData == [ any |-> VL(I3), ints |-> VLg(I3, "ints"), strs |-> VLg(S3, "strs"), arr3 |-> VLg(I3, "arr3"), tags |-> VLg(S3, "tags"),
              i64s |-> VLg(I3, "i64s"), f32s |-> VLg(I3, "f32s"), f64s |-> VLg(I3, "f64s"), anycap |-> VLg(I3, "anycap"), intscap |-> VLg(I3, "intscap") ]
XJ(e) == PrintS(Filt("join", e, <<LS(<<44>>)>>))
XV == Var("x")
PureProgs == [ sort     |-> <<XJ(XV), T(<<124>>), XJ(Filt("sort", XV, <<>>)), T(<<124>>), XJ(XV)>>,
               reverse  |-> <<XJ(XV), T(<<124>>), XJ(Filt("reverse", XV, <<>>)), T(<<124>>), XJ(XV)>>,
               sortinc  |-> <<Inc(LS(NT.t1)), T(<<124>>), XJ(XV)>>,
               forsort  |-> <<For1("i", Filt("sort", XV, <<>>), <<PrintS(Var("i"))>>), T(<<124>>), For1("i", XV, <<PrintS(Var("i"))>>)>>,
               setsort  |-> <<Set("s", Filt("sort", XV, <<>>)), Set("r", Filt("reverse", Var("s"), <<>>)), XJ(Var("s")), T(<<124>>), XJ(Var("r")), T(<<124>>), XJ(XV)>>,
               slice    |-> <<XJ(Filt("sort", Filt("slice", XV, <<LI(0), LI(2)>>), <<>>)), T(<<124>>), XJ(Filt("merge", XV, <<XV>>)), T(<<124>>), XJ(XV)>>,
               first    |-> <<PrintS(Filt("first", XV, <<>>)), PrintS(Filt("last", XV, <<>>)), PrintS(Filt("first", Filt("sort", XV, <<>>), <<>>)), PrintS(Filt("first", XV, <<>>))>> ]
PureListCases == {[fam |-> "pure", p |-> pn, d |-> d] : pn \in DOMAIN PureProgs, d \in DOMAIN ListData}
MatchProgs == [ flagfirst |-> <<PrintS(Cond(Bin("matches", XV, LS(<<47, 81, 47, 105>>)), LS(<<121>>), LS(<<110>>))), PrintS(Cond(Bin("matches", XV, LS(<<47, 81, 47>>)), LS(<<121>>), LS(<<110>>)))>>,
                flaglast  |-> <<PrintS(Cond(Bin("matches", XV, LS(<<47, 113, 47>>)), LS(<<121>>), LS(<<110>>))), PrintS(Cond(Bin("matches", Filt("upper", XV, <<>>), LS(<<47, 113, 47>>)), LS(<<121>>), LS(<<110>>))),
                                PrintS(Cond(Bin("matches", Filt("upper", XV, <<>>), LS(<<47, 113, 47, 105>>)), LS(<<121>>), LS(<<110>>)))>>,
                twotp     |-> <<Inc(LS(NT.t2)), PrintS(Cond(Bin("matches", XV, LS(<<47, 90, 47>>)), LS(<<121>>), LS(<<110>>)))>> ]
PureMatchCases == {[fam |-> "pure", p |-> pn, d |-> "str"] : pn \in DOMAIN MatchProgs}
PureTp(c) == ("main" :> (IF c.d = "str" THEN MatchProgs[c.p] ELSE PureProgs[c.p])) @@ ("t1" :> <<XJ(Filt("sort", XV, <<>>))>>)
             @@ ("t2" :> <<PrintS(Cond(Bin("matches", XV, LS(<<47, 90, 47, 105>>)), LS(<<121>>), LS(<<110>>)))>>)
PureCtx(c) == IF c.d = "str" THEN ("x" :> VS(IF c.p = "twotp" THEN <<122>> ELSE <<113>>)) ELSE ("x" :> ListData[c.d])

\* wide maps (63 .. 70 keys w01 .. w70): walked by loops and by keys; no permutations here -- the runs repeat, insert in
\* reverse, and (in the replay) edit the map in place between two renders
WideMap(n) == VM([i \in 1..n |-> K(<<119, 48 + (i \div 10), 48 + (i % 10)>>)], [i \in 1..n |-> VI(i)])
WideCases == {[fam |-> "wide", n |-> n, p |-> pn] : n \in {63, 64, 65, 70}, pn \in {"forkv", "forv", "keysjoin"}}

Runs(tp) == <<[label |-> "repeat", tp |-> tp, xcalls |-> [id \in {} |-> 0], repeat |-> 24],
              [label |-> "reversed-insertion", tp |-> tp, xcalls |-> [id \in {} |-> 0], repeat |-> 8, rev |-> TRUE]>>
NoExpect == [ok |-> TRUE, anyoutcome |-> TRUE, out |-> <<>>, noout |-> TRUE, err |-> "", calls |-> [id \in {} |-> 0]]

CaseOf(c) ==
    CASE c.fam = "map" ->
           [prop |-> "C03", key |-> ToJson(c), entry |-> "main", rel |-> "same",
            tags |-> {"fam:map", "p:" \o c.p, "m:" \o c.m} \cup (IF Sensitive(c) \/ LitSensitive(c) THEN {"order-sensitive"} ELSE {"order-insensitive"}),
            ctx |-> ("m" :> Maps[c.m]) @@ ("t" :> Maps.msi3), runs |-> Runs(("main" :> Source(Programs[c.p], LMin))), expect |-> NoExpect]
      [] c.fam = "wide" ->
           [prop |-> "C03", key |-> ToJson(c), entry |-> "main", rel |-> "same",
            tags |-> {"fam:wide", "p:" \o c.p, "order-sensitive"},
            ctx |-> ("m" :> WideMap(c.n)) @@ ("t" :> Maps.msi3), runs |-> Runs(("main" :> Source(Programs[c.p], LMin))), expect |-> NoExpect]
      [] c.fam = "date" ->
           [prop |-> "C03", key |-> ToJson(c), entry |-> "main", rel |-> "same",
            tags |-> {"fam:date", "len:" \o ToString(Len(c.f))},
            ctx |-> ("d" :> [t |-> "time", i |-> c.d]),
            runs |-> Runs(("main" :> Source(<<PrintS(Filt("date", Var("d"), <<LS(c.f)>>))>>, LMin))), expect |-> NoExpect]
      [] c.fam = "dateint" ->
           [prop |-> "C03", key |-> ToJson(c), entry |-> "main", rel |-> "same",
            tags |-> {"fam:dateint"} \cup (IF c.d < 0 THEN {"before1970"} ELSE {}),
            ctx |-> ("d" :> [t |-> "time", i |-> c.d]),
            runs |-> LET tp == ("main" :> Source(<<PrintS(Filt("date", Var("d"), <<LS(c.f)>>))>>, LMin))
                         tpf == ("main" :> Source(<<PrintS(Filt("date", Call("date", <<Var("d")>>), <<LS(c.f)>>))>>, LMin)) IN
                     <<[label |-> "time", tp |-> tp, xcalls |-> [id \in {} |-> 0], repeat |-> 2],
                       [label |-> "int", tp |-> tp, xcalls |-> [id \in {} |-> 0], repeat |-> 2, ctx |-> ("d" :> VI(c.d))],
                       [label |-> "decimal", tp |-> tp, xcalls |-> [id \in {} |-> 0], repeat |-> 2, ctx |-> ("d" :> VD(c.d, 0))],
                       [label |-> "int64", tp |-> tp, xcalls |-> [id \in {} |-> 0], repeat |-> 2, ctx |-> ("d" :> VN(VI(c.d), "i64"))],
                       \* the date function in front of the filter, and timestamps of the narrower kinds
                       [label |-> "fn-int", tp |-> tpf, xcalls |-> [id \in {} |-> 0], repeat |-> 2, ctx |-> ("d" :> VI(c.d))],
                       [label |-> "fn-time", tp |-> tpf, xcalls |-> [id \in {} |-> 0], repeat |-> 2],
                       [label |-> "int32", tp |-> tp, xcalls |-> [id \in {} |-> 0], repeat |-> 2, ctx |-> ("d" :> VN(VI(c.d), "i32"))],
                       [label |-> "fn-int32", tp |-> tpf, xcalls |-> [id \in {} |-> 0], repeat |-> 2, ctx |-> ("d" :> VN(VI(c.d), "i32"))]>>
                     \o (IF c.d >= 0 THEN <<[label |-> "fn-uint", tp |-> tpf, xcalls |-> [id \in {} |-> 0], repeat |-> 2, ctx |-> ("d" :> VN(VI(c.d), "u32"))]>> ELSE <<>>),
            expect |-> NoExpect]
      [] c.fam = "incwith" ->
           LET ref == Render(MkW(IncWithTp(c), {}, {}, NoFault), "main", IncWithCtx) IN
           [prop |-> "C03", key |-> ToJson(c), entry |-> "main", rel |-> "same",
            tags |-> {"fam:incwith", "order-sensitive"} \cup (IF c.sbx THEN {"sandboxed"} ELSE {}) \cup (IF c.only THEN {"only"} ELSE {}),
            ctx |-> IncWithCtx, cfg |-> [sandbox |-> TRUE, allowf |-> {}, allowfn |-> {}],
            runs |-> Runs(Sources(IncWithTp(c), LMin)),
            expect |-> [ok |-> ref.ok, out |-> ref.out, err |-> ref.err, calls |-> [id \in {} |-> 0]]]
      [] c.fam = "pure" ->
           LET ref == Render(MkW(PureTp(c), {}, {}, NoFault), "main", PureCtx(c)) IN
           [prop |-> "C03", key |-> ToJson(c), entry |-> "main", rel |-> "same",
            tags |-> {"fam:pure", "p:" \o c.p, "d:" \o c.d},
            ctx |-> PureCtx(c),
            runs |-> <<[label |-> "shared", tp |-> Sources(PureTp(c), LMin), xcalls |-> [id \in {} |-> 0], shared |-> 3, again |-> 2],
                       [label |-> "repeat", tp |-> Sources(PureTp(c), LMin), xcalls |-> [id \in {} |-> 0], repeat |-> 3]>>,
            expect |-> [ok |-> ref.ok, out |-> ref.out, err |-> ref.err, calls |-> [id \in {} |-> 0]]]
      [] c.fam = "addr" ->
           [prop |-> "C03", key |-> ToJson(c), entry |-> "main", rel |-> "same",
            tags |-> {"fam:addr", "kind:" \o c.kind, "prog:" \o c.prog},
            ctx |-> ("v" :> [t |-> c.kind, i |-> 5]),
            runs |-> Runs(("main" :> Source(AddrProg(c.prog), LMin))),
            expect |-> NoExpect]

Parts == {"map", "date", "addr", "dateint", "incwith", "pure", "wide"}
Init == cs \in {[part |-> p] : p \in Parts}
Next == "part" \in DOMAIN cs /\ cs' \in (CASE cs.part = "map" -> {c \in MapCases : Applicable(c.p, c.m)}
                                            [] cs.part = "date" -> DateCases [] cs.part = "addr" -> AddrCases
                                            [] cs.part = "dateint" -> DateIntCases [] cs.part = "incwith" -> IncWithCases
                                            [] cs.part = "wide" -> WideCases
                                            [] cs.part = "pure" -> PureListCases \cup PureMatchCases)
Spec == Init /\ [][Next]_cs
IsCase == "fam" \in DOMAIN cs
Emit == IsCase => PrintT(ToJson(CaseOf(cs)))
\* model-level: in the reference semantics the output is a function of the key order alone --
\* a lookup by key or the length never depends on it
InsensitiveOK == (IsCase /\ cs.fam = "map" /\ cs.p \in {"length", "lookup"}) => ~Sensitive(cs)
=============================================================================
