SPECIFICATION Spec
CONSTANTS
  MaxArity = 2
INVARIANTS
  ModelOK
  Emit
CHECK_DEADLOCK FALSE
