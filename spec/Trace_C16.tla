------------------------------ MODULE Trace_C16 ------------------------------
(***************************************************************************)
(* Code -> spec: the bytes SerializeCompiledTemplate really produced (for   *)
(* small templates) are checked against the layout function of              *)
(* CompiledFmt: Encode(fields) = bytes and Decode(bytes) = fields.          *)
(***************************************************************************)
EXTENDS CompiledFmt, Json
Trace == ndJsonDeserialize("trace.ndjson")
VARIABLES l, rej
Accept(o) ==
    LET x == [name |-> o.name, source |-> o.source, lm |-> o.lm, ct |-> o.ct, ast |-> o.ast]
        d == Decode(o.bytes) IN
    /\ Encode(x) = o.bytes
    /\ d.ok /\ d.name = o.name /\ d.source = o.source /\ d.lm = o.lm /\ d.ct = o.ct /\ d.ast = o.ast /\ d.rest = 0
    \* every strict prefix is rejected by the reference decoder
    /\ \A k \in {0, 1, 4, Len(o.bytes) \div 2, Len(o.bytes) - 1} : ~Decode(SubSeq(o.bytes, 1, k)).ok
Init == l = 1 /\ rej = {} /\ TLCSet(1, {}) /\ TLCSet(2, 0)
Next == /\ l <= Len(Trace) /\ l' = l + 1
        /\ rej' = IF Accept(Trace[l]) THEN rej ELSE rej \cup {l}
        /\ TLCSet(1, rej') /\ TLCSet(2, l)
Spec == Init /\ [][Next]_<<l, rej>>
Post == PrintT(<<"CONSUMED", TLCGet(2)>>) /\ PrintT(<<"REJECTED", TLCGet(1)>>)
=============================================================================
