SPECIFICATION Spec
CONSTANTS
  MaxFull = 1
  MaxOne = 4
INVARIANTS
  NoOverrideIsBase
  Emit
CHECK_DEADLOCK FALSE
