SPECIFICATION Spec
CONSTANTS
  MaxFull = 2
  MaxOne = 4
INVARIANTS
  NoOverrideIsBase
  Emit
CHECK_DEADLOCK FALSE
