------------------------------- MODULE MC_C10 -------------------------------
(***************************************************************************)
(* C10: template inheritance is block substitution along the extends chain *)
(* Chains t0 extends t1 ... extends tk (tk = base layout), two block names, *)
(* per level and block a definition kind in                                 *)
(*     absent | text | empty | text+parent() | parent() only               *)
(* and four placements of the blocks in the base layout (top level, nested  *)
(* in another block, inside a loop, inside an if).  Children carry text     *)
(* outside blocks, which must not be rendered.                             *)
(***************************************************************************)
EXTENDS TwigSyntax, Json

CONSTANTS MaxFull,     \* chains with up to MaxFull child levels vary both blocks at every level
          MaxOne       \* chains up to MaxOne child levels vary only block b1 (b2 absent in children)
VARIABLE cs

TName(i) == CASE i = 0 -> "t0" [] i = 1 -> "t1" [] i = 2 -> "t2" [] i = 3 -> "t3" [] i = 4 -> "t4"
Kinds == {"absent", "text", "empty", "textparent", "parent", "parent2", "parentexpr"}
\* "nest" (block b1 of a child only): the override contains a definition of b2, which also calls parent()
BaseKinds == {"text", "empty"}
ExtKinds == {"absent", "text", "textparent", "parent"}
Layouts == {"apply", "spaceless", "top", "nested", "loop", "loop2", "if", "iffalse", "incl"}

\* marker of (level, block): a capital letter per level, digit per block
Marker(lvl, b) == <<65 + lvl, IF b = "b1" THEN 49 ELSE 50>>
Body(lvl, b, kind) ==
    CASE kind = "text" -> <<Text(Marker(lvl, b)), PrintS(Var("i"))>>
      [] kind = "empty" -> <<>>
      [] kind = "vars0" -> <<Text(Marker(lvl, b)), PrintS(Var("gv")), PrintS(Cond(Test(Var("nv"), "defined", <<>>, FALSE), LS(<<100>>), LS(<<117>>)))>>
      [] kind = "textparent" -> <<Text(Marker(lvl, b)), Text(<<40>>), PrintS(Call("parent", <<>>)), Text(<<41>>), PrintS(Var("i"))>>
      [] kind = "parent" -> <<PrintS(Call("parent", <<>>))>>
      [] kind = "parent2" -> <<PrintS(Call("parent", <<>>)), Text(<<124>>), PrintS(Call("parent", <<>>))>>
      \* parent() inside a larger expression means the text it yields: filtered, concatenated, assigned
      [] kind = "parentexpr" -> <<PrintS(Filt("upper", Call("parent", <<>>), <<>>)), PrintS(Bin("~", Call("parent", <<>>), LS(<<122>>))),
                                  Set("pp", Call("parent", <<>>)), Text(<<61>>), PrintS(Var("pp")), PrintS(Filt("length", Call("parent", <<>>), <<>>))>>
      [] kind = "nest" -> <<Text(Marker(lvl, b)), Text(<<40>>), PrintS(Call("parent", <<>>)), Text(<<41, 60>>),
                            Block("b2", <<Text(Marker(lvl, "b2")), Text(<<40>>), PrintS(Call("parent", <<>>)), Text(<<41>>)>>), Text(<<62>>)>>
      \* a variable of the render context that an engine global also names, and one whose value is null
      [] kind = "vars" -> <<Text(Marker(lvl, b)), PrintS(Var("gv")), PrintS(Cond(Test(Var("nv"), "defined", <<>>, FALSE), LS(<<100>>), LS(<<117>>))), PrintS(Call("parent", <<>>))>>
BlockOf(lvl, b, kind) == Block(b, Body(lvl, b, kind))

\* base layout (level k)
BaseBody(k, lay, k1, k2) ==
    CASE lay = "top" ->
           <<Text(<<72>>), BlockOf(k, "b1", k1), Text(<<77>>), BlockOf(k, "b2", k2), Text(<<70>>)>>
      [] lay = "nested" ->
           <<Text(<<72>>), Block("b1", Body(k, "b1", k1) \o <<Text(<<60>>), BlockOf(k, "b2", k2), Text(<<62>>)>>), Text(<<70>>)>>
      [] lay = "loop" ->
           <<BlockOf(k, "b2", k2), For1("i", Lit(VL(<<VI(1), VI(2)>>)), <<BlockOf(k, "b1", k1), Text(<<59>>)>>), Text(<<70>>)>>
      \* (a loop inside a loop: the block stands in the inner body)
      [] lay = "loop2" ->
           <<BlockOf(k, "b2", k2), For1("j", Lit(VL(<<VI(7), VI(8)>>)), <<For1("i", Lit(VL(<<VI(1), VI(2)>>)), <<BlockOf(k, "b1", k1), Text(<<59>>)>>), Text(<<47>>)>>), Text(<<70>>)>>
      [] lay = "if" ->
           <<If1(LB(TRUE), <<BlockOf(k, "b1", k1)>>), Text(<<77>>), BlockOf(k, "b2", k2)>>
      \* blocks inside an apply tag / a spaceless tag of the layout are blocks like any other
      [] lay = "apply" ->
           <<Text(<<72>>), Apply("upper", <<>>, <<Text(<<97>>), BlockOf(k, "b1", k1), Text(<<122>>)>>), Text(<<77>>), BlockOf(k, "b2", k2), Text(<<70>>)>>
      [] lay = "spaceless" ->
           <<Text(<<72>>), Spaceless(<<Text(<<60, 98, 62, 32>>), BlockOf(k, "b1", k1), Text(<<32, 60, 47, 98, 62>>)>>), Text(<<77>>), BlockOf(k, "b2", k2), Text(<<70>>)>>
      [] lay = "incl" ->
           \* the layout includes another inheritance chain (n1 extends n2) whose block names collide with its own
           <<Text(<<72>>), BlockOf(k, "b1", k1), Inc(LS(NT.n1)), Text(<<77>>), BlockOf(k, "b2", k2), Inc(LS(NT.n1)), Text(<<70>>)>>
      [] lay = "iffalse" ->
           <<If1(Var("no"), <<BlockOf(k, "b1", k1)>>), Text(<<77>>), BlockOf(k, "b2", k2)>>

\* child level lvl extending TName(lvl+1): junk text outside blocks must vanish
ChildBody(lvl, k1, k2, dyn) ==
    <<Extends(IF dyn THEN Var("pv") ELSE LS(NT[TName(lvl + 1)]))>>
    \o <<Text(<<106, 117, 110, 107>>)>>
    \o (IF k1 = "absent" THEN <<>> ELSE <<BlockOf(lvl, "b1", k1)>>)
    \o <<Text(<<32, 120, 32>>)>>
    \o (IF k2 = "absent" THEN <<>> ELSE <<BlockOf(lvl, "b2", k2)>>)
\* the extends tag after other top-level definitions of the child
\* (wraplit / wrapvar: the child's blocks stand in branches of if tags that are never taken -- a literal condition, a variable:
\* a block is defined where it is written, whether or not that place is rendered)
ExtPlaces == {"afterblock", "aftermacro", "afterset", "afterimport", "last", "afterboth", "wraplit", "wrapvar"}
ChildBodyExt(lvl, k1, k2, ext) ==
    LET x == <<Extends(LS(NT[TName(lvl + 1)]))>>
        b1 == IF k1 = "absent" THEN <<>> ELSE <<BlockOf(lvl, "b1", k1)>>
        b2 == IF k2 = "absent" THEN <<>> ELSE <<BlockOf(lvl, "b2", k2)>>
        junk == <<Text(<<106, 117, 110, 107>>)>> IN
    CASE ext = "afterblock"  -> b1 \o x \o junk \o b2
      [] ext = "afterboth"   -> b2 \o b1 \o x \o junk
      [] ext = "last"        -> b1 \o b2 \o x
      [] ext = "aftermacro"  -> <<Macro("zz", <<>>, <<Text(<<122>>)>>)>> \o x \o junk \o b1 \o b2
      [] ext = "afterset"    -> <<Set("zq", LI(1))>> \o x \o b1 \o junk \o b2
      [] ext = "afterimport" -> <<Import(LS(NT.n2), "L")>> \o x \o b1 \o b2 \o junk
      [] ext = "wraplit"     -> x \o <<If1(LB(FALSE), b1), IfElse(LB(TRUE), junk, b2)>>
      [] ext = "wrapvar"     -> x \o <<If1(Var("nosuchvar"), b1), IfElse(LI(1), junk, b2)>>

\* top-level assignments along a chain of three: the most derived template's come first, a less derived template's after them
SetChains == {[n |-> 2, ch |-> <<<<"vars", "absent">>, <<"vars", "vars">>>>, bk |-> <<"vars0", "vars0">>, lay |-> "top", dyn |-> FALSE, glob |-> TRUE, sets |-> ss]
                : ss \in [0..2 -> {"none", "gv", "both"}]}
SetStmts(which, lvl) == CASE which = "gv" -> <<Set("gv", LS(<<115, 48 + lvl>>))>>
                          [] which = "both" -> <<Set("gv", LS(<<115, 48 + lvl>>)), Set("nv", LI(lvl))>>
                          [] OTHER -> <<>>
\* two levels write the same relative parent name, which means another template at each level: p/q/x extends ../n1 (= p/n1),
\* which extends ../n1 (= n1)
RelChainTp == ("pqx" :> <<Extends(LS(<<46, 46, 47, 110, 49>>)), Block("b1", <<Text(<<88>>), PrintS(Call("parent", <<>>))>>)>>)
              @@ ("pn1" :> <<Extends(LS(<<46, 46, 47, 110, 49>>)), Block("b1", <<Text(<<89>>), PrintS(Call("parent", <<>>))>>), Block("b2", <<Text(<<90>>)>>)>>)
              @@ ("n1" :> <<Text(<<91>>), Block("b1", <<Text(<<66>>)>>), Text(<<124>>), Block("b2", <<Text(<<67>>)>>), Text(<<93>>)>>)
\* the parent's name computed from two string literals
ConcatParent == Bin("~", LS(<<116>>), LS(<<49>>))
\* a chain description: kinds[l] = <<k1, k2>> for child levels 0..n-1, base kinds, layout, dyn
ChildKindsFull == (Kinds \X Kinds) \cup {<<"nest", "absent">>}
ChildKindsOne == (Kinds \cup {"nest"}) \X {"absent"}
Chains ==
    UNION { {[n |-> n, ch |-> ch, bk |-> bk, lay |-> lay, dyn |-> dyn]
              : ch \in [1..n -> ChildKindsFull], bk \in BaseKinds \X BaseKinds, lay \in Layouts, dyn \in {FALSE}}
            : n \in 0..MaxFull }
    \cup UNION { {[n |-> n, ch |-> ch, bk |-> bk, lay |-> lay, dyn |-> dyn]
              : ch \in [1..n -> ChildKindsOne], bk \in {<<"text", "text">>, <<"empty", "text">>}, lay \in Layouts, dyn \in {FALSE}}
            : n \in (MaxFull + 1)..MaxOne }
    \cup { [n |-> 1, ch |-> <<<<k1, "absent">>>>, bk |-> <<"text", "text">>, lay |-> "top", dyn |-> TRUE] : k1 \in Kinds }
    \cup { [n |-> 1, ch |-> <<<<k1, "absent">>>>, bk |-> <<"text", "text">>, lay |-> "top", dyn |-> FALSE, concat |-> TRUE] : k1 \in {"text", "textparent", "parent"} }
    \cup SetChains
    \cup {[n |-> 0, ch |-> <<>>, bk |-> <<"text", "text">>, lay |-> "top", dyn |-> FALSE, rel |-> TRUE]}
    \* the extends tag of the most derived template in another place; engine globals that name a context variable
    \cup UNION { {[n |-> n, ch |-> ch, bk |-> <<"text", "text">>, lay |-> lay, dyn |-> FALSE, ext |-> ext]
                    : ch \in [1..n -> ExtKinds \X ExtKinds], lay \in {"top", "nested"}, ext \in ExtPlaces} : n \in 1..2 }
    \cup UNION { {[n |-> n, ch |-> ch, bk |-> bk, lay |-> lay, dyn |-> FALSE, glob |-> TRUE]
                    : ch \in [1..n -> {"vars", "text", "absent"} \X {"vars", "absent"}], bk \in {<<"vars0", "text">>, <<"text", "vars0">>}, lay \in {"top", "nested", "if"}} : n \in 0..2 }

IncTp == ("n1" :> <<Extends(LS(NT.n2)), Block("b1", <<Text(<<85>>), PrintS(Call("parent", <<>>))>>)>>)
         @@ ("n2" :> <<Text(<<91>>), Block("b1", <<Text(<<86>>)>>), Block("b2", <<Text(<<87>>)>>), Text(<<93>>)>>)
Tp(c) == IF "rel" \in DOMAIN c THEN RelChainTp ELSE
         [name \in {TName(i) : i \in 0..c.n} |->
            LET i == CHOOSE j \in 0..c.n : TName(j) = name IN
            IF i = c.n THEN (IF "sets" \in DOMAIN c THEN SetStmts(c.sets[i], i) ELSE <<>>) \o BaseBody(c.n, c.lay, c.bk[1], c.bk[2])
            ELSE IF "sets" \in DOMAIN c THEN <<Extends(LS(NT[TName(i + 1)]))>> \o SetStmts(c.sets[i], i)
                                                \o <<BlockOf(i, "b1", c.ch[i + 1][1])>> \o (IF c.ch[i + 1][2] = "absent" THEN <<>> ELSE <<BlockOf(i, "b2", c.ch[i + 1][2])>>)
            ELSE IF i = 0 /\ "concat" \in DOMAIN c THEN <<Extends(ConcatParent), BlockOf(0, "b1", c.ch[1][1])>>
            ELSE IF i = 0 /\ "ext" \in DOMAIN c THEN ChildBodyExt(i, c.ch[i + 1][1], c.ch[i + 1][2], c.ext)
            ELSE ChildBody(i, c.ch[i + 1][1], c.ch[i + 1][2], c.dyn /\ i = 0)]
         @@ (IF c.lay = "incl" \/ "ext" \in DOMAIN c THEN IncTp ELSE EmptyFn)

Globals(c) == IF "glob" \in DOMAIN c THEN ("gv" :> VS(<<71>>)) @@ ("go" :> VI(1)) ELSE EmptyFn
Ctx(c) == IF c.dyn THEN ("pv" :> VS(NT.t1)) ELSE IF "glob" \in DOMAIN c THEN ("gv" :> VS(<<99>>)) @@ ("nv" :> Null) ELSE EmptyFn
World(c) == WithGlobals(MkW(Tp(c), {}, {}, NoFault), Globals(c))
EntryOf(c) == IF "rel" \in DOMAIN c THEN "pqx" ELSE "t0"
Ref(c) == Render(World(c), EntryOf(c), Ctx(c))

KindTags(c) == UNION {{"b1:" \o c.ch[i][1], "b2:" \o c.ch[i][2]} : i \in 1..c.n}
CaseOf(c) ==
    LET ref == Ref(c) IN
    [prop |-> "C10", key |-> ToJson(c),
     tags |-> {"lay:" \o c.lay, "chain:" \o ToString(c.n), "base1:" \o c.bk[1], "base2:" \o c.bk[2]} \cup KindTags(c)
              \cup (IF c.dyn THEN {"dynparent"} ELSE {}) \cup (IF "sets" \in DOMAIN c THEN {"sets"} ELSE {}) \cup (IF "rel" \in DOMAIN c THEN {"relchain"} ELSE {})
              \cup (IF "concat" \in DOMAIN c THEN {"concatparent"} ELSE {}) \cup (IF "ext" \in DOMAIN c THEN {"ext:" \o c.ext} ELSE {}) \cup (IF "glob" \in DOMAIN c THEN {"globals"} ELSE {}),
     entry |-> EntryOf(c), ctx |-> Ctx(c), cfg |-> [globals |-> Globals(c)],
     runs |-> {[label |-> "render", tp |-> Sources(Tp(c), LMin), xcalls |-> [id \in {} |-> 0]]},
     expect |-> [ok |-> ref.ok, out |-> ref.out, err |-> ref.err, calls |-> [id \in {} |-> 0]]]

Init == cs \in {c \in Chains : Ref(c).err # "frag"}
Next == UNCHANGED cs
Spec == Init /\ [][Next]_cs
Emit == PrintT(ToJson(CaseOf(cs)))

\* model-level sanity: a chain in which no child defines anything renders the base alone
NoOverrideIsBase ==
    ("rel" \notin DOMAIN cs /\ "sets" \notin DOMAIN cs /\ \A i \in 1..cs.n : cs.ch[i] = <<"absent", "absent">>) =>
        Ref(cs).out = Render(MkW(("t0" :> BaseBody(cs.n, cs.lay, cs.bk[1], cs.bk[2])) @@ (IF cs.lay = "incl" THEN IncTp ELSE EmptyFn), {}, {}, NoFault), "t0", Ctx(cs)).out
=============================================================================
