------------------------------- MODULE MC_C11 -------------------------------
(***************************************************************************)
(* C11: include renders in the right scope and never changes the includer. *)
(* Every combination of with / only / ignore missing, static / computed /   *)
(* variable name, existing / missing target, five behaviours of the         *)
(* included template and four placements of the include tag.  Each case    *)
(* has two runs: the program, and the same program with the include tag    *)
(* removed (2-run non-interference: what the includer prints after the     *)
(* include is the same in both).                                           *)
(***************************************************************************)
EXTENDS TwigSyntax, Json

CONSTANTS Deep      \* TRUE: also two-level includes
VARIABLE cs

T(s) == Text(s)
\* what a template can see: a b c z n, defined-ness of z
ReadProbe == <<PrintS(Var("a")), T(<<124>>), PrintS(Var("b")), T(<<124>>), PrintS(Var("c")), T(<<124>>),
               PrintS(Var("z")), T(<<124>>), PrintS(Var("n")),
               If1(Test(Var("z"), "defined", <<>>, FALSE), <<T(<<68>>)>>)>>

Behaviours == {"reads", "sets", "loops", "defs", "extends"}
Included(bh) ==
    CASE bh = "reads"  -> <<T(<<40>>)>> \o ReadProbe \o <<T(<<41>>)>>
      [] bh = "sets"   -> <<Set("a", LI(7)), Set("z", LI(8)), Set("c", LI(6)), T(<<40>>)>> \o ReadProbe \o <<T(<<41>>)>>
      [] bh = "loops"  -> <<T(<<40>>), For1("a", Lit(VL(<<VI(5), VI(6)>>)), <<PrintS(Var("a"))>>), T(<<41>>)>>
      [] bh = "defs"   -> <<Macro("mm", <<>>, <<T(<<77, 50>>)>>), Block("bb", <<T(<<66, 50>>)>>), T(<<40>>), PrintS(Call("mm", <<>>)), T(<<41>>)>>
      [] bh = "extends" -> <<Extends(LS(NT.t2)), Block("bx", <<T(<<60>>), PrintS(Var("a")), PrintS(Var("n")), T(<<62>>)>>)>>
BaseT2 == <<T(<<94>>), Block("bx", <<T(<<100>>)>>), Block("bb", <<T(<<66, 51>>)>>), T(<<36>>)>>

Withs == {"none", "over", "new", "null", "undef"}
WithExpr(w) == CASE w = "over" -> Hash(<<LS(NT.a)>>, <<LI(9)>>)
                 [] w = "new"  -> Hash(<<LS(NT.n)>>, <<Bin("+", Var("b"), LI(3))>>)
                 [] w = "null" -> Hash(<<LS(NT.a)>>, <<Lit(Null)>>)                 \* null overrides like any value
                 [] w = "undef" -> Hash(<<LS(NT.a), LS(NT.b)>>, <<Var("nosuchvar"), LI(8)>>)
                 [] OTHER      -> Lit(Null)
NameForms == {"static", "computed", "variable", "missing", "missingvar"}
NameExpr(nf) == CASE nf = "static"   -> LS(NT.t1)
                  [] nf = "computed" -> Bin("~", LS(NT.t), LI(1))
                  [] nf = "variable" -> Var("nm")
                  [] nf = "missing"  -> LS(NT.nx)
                  [] nf = "missingvar" -> Var("nv")

Placements == {"top", "loop", "block", "macro", "if"}

IncludeStmt(c) == Include(NameExpr(c.nf), WithExpr(c.w), c.w # "none", c.only, c.ign, FALSE)

\* the includer; inc = the statements standing where the include is
Includer(c, inc) ==
    LET after == <<T(<<91>>)>> \o ReadProbe \o <<T(<<93>>)>> IN
    <<Macro("mm", <<>>, <<T(<<77, 49>>)>>), Set("c", LI(3))>> \o
    (CASE c.pl = "top"   -> inc \o after
       [] c.pl = "loop"  -> <<For1("i", Lit(VL(<<VI(1), VI(2)>>)), inc \o after)>>
       [] c.pl = "if"    -> <<If1(Var("a"), inc)>> \o after
       [] c.pl = "block" -> <<Block("ob", inc \o after)>>
       \* whether a macro body may read its caller's other variables is not stated by the
       \* property: everything the body (and the template it includes) reads is a parameter
       [] c.pl = "macro" -> <<Macro("wm", <<Param("a"), Param("b"), Param("c"), Param("nm")>>, inc \o after),
                              PrintS(Call("wm", <<LI(1), LI(2), LI(3), LS(NT.t1)>>))>> \o after)
    \o <<T(<<35>>), PrintS(Call("mm", <<>>)), Block("bb", <<T(<<66, 49>>)>>)>>

Cases == {[w |-> w, only |-> o, ign |-> g, nf |-> nf, bh |-> bh, pl |-> pl]
            : w \in Withs, o \in BOOLEAN, g \in BOOLEAN, nf \in NameForms, bh \in Behaviours, pl \in Placements}
Relevant(c) ==
    /\ (c.nf \in {"missing", "missingvar"} => c.bh = "reads")       \* behaviour irrelevant when the target is missing
    /\ (c.nf \in {"computed", "variable"} => c.bh \in {"reads", "sets"})

Tp(c, withInclude) ==
    ("main" :> Includer(c, IF withInclude THEN <<IncludeStmt(c)>> ELSE <<>>))
    @@ ("t1" :> Included(c.bh)) @@ ("t2" :> BaseT2)

\* two-level include: t1 includes t3 with its own `with`, t3 sets and reads
DeepCases == IF ~Deep THEN {} ELSE
    {[deep |-> TRUE, w1 |-> w1, w2 |-> w2, o1 |-> o1, o2 |-> o2] : w1 \in Withs, w2 \in Withs, o1 \in BOOLEAN, o2 \in BOOLEAN}
DeepTp(d, withInclude) ==
    ("main" :> <<Set("c", LI(3))>> \o
               (IF withInclude THEN <<Include(LS(NT.t1), WithExpr(d.w1), d.w1 # "none", d.o1, FALSE, FALSE)>> ELSE <<>>)
               \o <<T(<<91>>)>> \o ReadProbe \o <<T(<<93>>)>>)
    @@ ("t1" :> <<T(<<40>>), Set("z", LI(4)), Include(LS(NT.t3), WithExpr(d.w2), d.w2 # "none", d.o2, FALSE, FALSE)>> \o ReadProbe \o <<T(<<41>>)>>)
    @@ ("t3" :> <<T(<<60>>), Set("a", LI(0)), Set("b", LI(0))>> \o ReadProbe \o <<T(<<62>>)>>)

Ctx == ("a" :> VI(1)) @@ ("b" :> VI(2)) @@ ("nm" :> VS(NT.t1)) @@ ("nv" :> VS(NT.nx))
World(tp) == MkW(tp, {}, {}, NoFault)

IsDeep(c) == "deep" \in DOMAIN c
TpOf(c, wi) == IF IsDeep(c) THEN DeepTp(c, wi) ELSE Tp(c, wi)
Ref(c, wi) == Render(World(TpOf(c, wi)), "main", Ctx)

TagsOf(c) ==
    IF IsDeep(c) THEN {"deep", "w1:" \o c.w1, "w2:" \o c.w2} \cup (IF c.o1 THEN {"only1"} ELSE {}) \cup (IF c.o2 THEN {"only2"} ELSE {})
    ELSE {"with:" \o c.w, "name:" \o c.nf, "bh:" \o c.bh, "pl:" \o c.pl}
         \cup (IF c.only THEN {"only"} ELSE {}) \cup (IF c.ign THEN {"ignore"} ELSE {})

CaseOf(c) ==
    LET r1 == Ref(c, TRUE)
        r0 == Ref(c, FALSE)
    IN [prop |-> "C11", key |-> ToJson(c), tags |-> TagsOf(c), entry |-> "main", ctx |-> Ctx,
        runs |-> <<[label |-> "include", tp |-> Sources(TpOf(c, TRUE), LMin), xcalls |-> [id \in {} |-> 0], out |-> r1.out],
                   [label |-> "removed", tp |-> Sources(TpOf(c, FALSE), LMin), xcalls |-> [id \in {} |-> 0], out |-> r0.out]>>,
        \* the second run never fails; when the first is expected to fail only run 1 is emitted
        expect |-> [ok |-> r1.ok, out |-> r1.out, err |-> r1.err, calls |-> [id \in {} |-> 0]]]

CaseOfErr(c) ==
    LET r1 == Ref(c, TRUE) IN
    [prop |-> "C11", key |-> ToJson(c), tags |-> TagsOf(c) \cup {"expect-error"}, entry |-> "main", ctx |-> Ctx,
     runs |-> <<[label |-> "include", tp |-> Sources(TpOf(c, TRUE), LMin), xcalls |-> [id \in {} |-> 0]]>>,
     expect |-> [ok |-> r1.ok, out |-> r1.out, err |-> r1.err, calls |-> [id \in {} |-> 0]]]

All == {c \in Cases : Relevant(c)} \cup DeepCases
Init == cs \in {c \in All : Ref(c, TRUE).err # "frag" /\ Ref(c, FALSE).ok}
Next == UNCHANGED cs
Spec == Init /\ [][Next]_cs

Emit == PrintT(ToJson(IF Ref(cs, TRUE).ok THEN CaseOf(cs) ELSE CaseOfErr(cs)))

\* model-level non-interference: what the includer prints after the include does not
\* depend on the include (the suffix of the output from the last "[" is equal)
RECURSIVE LastIndexOf(_, _, _)
LastIndexOf(s, ch, i) == IF i = 0 THEN 0 ELSE IF s[i] = ch THEN i ELSE LastIndexOf(s, ch, i - 1)
Suffix(s) == LET i == LastIndexOf(s, 91, Len(s)) IN SubSeq(s, i, Len(s))
NonInterference == Ref(cs, TRUE).ok => Suffix(Ref(cs, TRUE).out) = Suffix(Ref(cs, FALSE).out)
=============================================================================
