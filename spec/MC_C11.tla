------------------------------- MODULE MC_C11 -------------------------------
(***************************************************************************)
(* C11: include renders in the right scope and never changes the includer. *)
(* Every combination of with / only / ignore missing, static / computed /   *)
(* variable name, existing / missing target, five behaviours of the         *)
(* included template and four placements of the include tag.  Each case    *)
(* has two runs: the program, and the same program with the include tag    *)
(* removed (2-run non-interference: what the includer prints after the     *)
(* include is the same in both).                                           *)
(***************************************************************************)
EXTENDS TwigSyntax, Json

CONSTANTS Deep      \* TRUE: also two-level includes
VARIABLE cs

T(s) == Text(s)
\* what a template can see: a b c z n, defined-ness of z
ReadProbe == <<PrintS(Var("a")), T(<<124>>), PrintS(Var("b")), T(<<124>>), PrintS(Var("c")), T(<<124>>),
               PrintS(Var("z")), T(<<124>>), PrintS(Var("n")),
               If1(Test(Var("z"), "defined", <<>>, FALSE), <<T(<<68>>)>>),
               \* defined-ness is read access too, at whatever depth the variable is owned
               If1(Test(Var("a"), "defined", <<>>, FALSE), <<T(<<65>>)>>), If1(Test(Var("c"), "defined", <<>>, FALSE), <<T(<<67>>)>>),
               If1(Test(Var("q"), "defined", <<>>, TRUE), <<T(<<81>>)>>)>>

Behaviours == {"reads", "sets", "elsesets", "thensets", "loops", "defs", "extends"}
Included(bh) ==
    CASE bh = "reads"  -> <<T(<<40>>)>> \o ReadProbe \o <<T(<<41>>)>>
      [] bh = "sets"   -> <<Set("a", LI(7)), Set("z", LI(8)), Set("c", LI(6)), T(<<40>>)>> \o ReadProbe \o <<T(<<41>>)>>
      \* the same writes from inside the branches of if statements: where in the included template a set stands does not
      \* matter.  elsesets: only in else branches (and the else of an else); thensets: in the then and elseif bodies
      [] bh = "elsesets" -> <<IfElse(Var("nosuchvar"), <<T(<<33>>)>>,
                                     <<Set("a", LI(7)), IfElse(Var("nosuchvar"), <<T(<<33>>)>>, <<Set("z", LI(8))>>)>>),
                              IfElse(Var("nosuchvar"), <<T(<<33>>)>>, <<Set("c", LI(6))>>),
                              T(<<40>>)>> \o ReadProbe \o <<T(<<41>>)>>
      [] bh = "thensets" -> <<If1(LI(1), <<Set("a", LI(7)), If1(LI(1), <<Set("z", LI(8))>>)>>),
                              If(<<Var("nosuchvar"), LI(1)>>, << <<T(<<33>>)>>, <<Set("c", LI(6))>> >>, <<T(<<33>>)>>, TRUE),
                              T(<<40>>)>> \o ReadProbe \o <<T(<<41>>)>>
      [] bh = "loops"  -> <<T(<<40>>), For1("a", Lit(VL(<<VI(5), VI(6)>>)), <<PrintS(Var("a"))>>), T(<<41>>)>>
      [] bh = "defs"   -> <<Macro("mm", <<>>, <<T(<<77, 50>>)>>), Block("bb", <<T(<<66, 50>>)>>), T(<<40>>), PrintS(Call("mm", <<>>)), T(<<41>>)>>
      [] bh = "extends" -> <<Extends(LS(NT.t2)), Block("bx", <<T(<<60>>), PrintS(Var("a")), PrintS(Var("n")), T(<<62>>)>>)>>
BaseT2 == <<T(<<94>>), Block("bx", <<T(<<100>>)>>), Block("bb", <<T(<<66, 51>>)>>), T(<<36>>)>>

Withs == {"none", "over", "new", "null", "undef"}
WithExpr(w) == CASE w = "over" -> Hash(<<LS(NT.a)>>, <<LI(9)>>)
                 [] w = "new"  -> Hash(<<LS(NT.n)>>, <<Bin("+", Var("b"), LI(3))>>)
                 [] w = "null" -> Hash(<<LS(NT.a)>>, <<Lit(Null)>>)                 \* null overrides like any value
                 [] w = "undef" -> Hash(<<LS(NT.a), LS(NT.b)>>, <<Var("nosuchvar"), LI(8)>>)
                 [] OTHER      -> Lit(Null)
NameForms == {"static", "computed", "variable", "missing", "missingvar"}
NameExpr(nf) == CASE nf = "static"   -> LS(NT.t1)
                  [] nf = "computed" -> Bin("~", LS(NT.t), LI(1))
                  [] nf = "variable" -> Var("nm")
                  [] nf = "missing"  -> LS(NT.nx)
                  [] nf = "missingvar" -> Var("nv")

Placements == {"top", "loop", "block", "macro", "if"}

IncludeStmt(c) == Include(NameExpr(c.nf), WithExpr(c.w), c.w # "none", c.only, c.ign, FALSE)

\* the includer; inc = the statements standing where the include is
Includer(c, inc) ==
    LET after == <<T(<<91>>)>> \o ReadProbe \o <<T(<<93>>)>> IN
    <<Macro("mm", <<>>, <<T(<<77, 49>>)>>), Set("c", LI(3))>> \o
    (CASE c.pl = "top"   -> inc \o after
       [] c.pl = "loop"  -> <<For1("i", Lit(VL(<<VI(1), VI(2)>>)), inc \o after)>>
       [] c.pl = "if"    -> <<If1(Var("a"), inc)>> \o after
       [] c.pl = "block" -> <<Block("ob", inc \o after)>>
       \* whether a macro body may read its caller's other variables is not stated by the
       \* property: everything the body (and the template it includes) reads is a parameter
       [] c.pl = "macro" -> <<Macro("wm", <<Param("a"), Param("b"), Param("c"), Param("nm")>>, inc \o after),
                              PrintS(Call("wm", <<LI(1), LI(2), LI(3), LS(NT.t1)>>))>> \o after)
    \o <<T(<<35>>), PrintS(Call("mm", <<>>)), Block("bb", <<T(<<66, 49>>)>>)>>

Cases == {[w |-> w, only |-> o, ign |-> g, nf |-> nf, bh |-> bh, pl |-> pl]
            : w \in Withs, o \in BOOLEAN, g \in BOOLEAN, nf \in NameForms, bh \in Behaviours, pl \in Placements}
Relevant(c) ==
    /\ (c.nf \in {"missing", "missingvar"} => c.bh = "reads")       \* behaviour irrelevant when the target is missing
    /\ (c.nf \in {"computed", "variable"} => c.bh \in {"reads", "sets"})

Tp(c, withInclude) ==
    ("main" :> Includer(c, IF withInclude THEN <<IncludeStmt(c)>> ELSE <<>>))
    @@ ("t1" :> Included(c.bh)) @@ ("t2" :> BaseT2)

\* two-level include: t1 includes t3 with its own `with`, t3 sets and reads
DeepWiths == IF Deep THEN Withs ELSE {"none", "new"}
DeepCases == {[deep |-> TRUE, w1 |-> w1, w2 |-> w2, o1 |-> o1, o2 |-> o2] : w1 \in DeepWiths, w2 \in DeepWiths, o1 \in BOOLEAN, o2 \in BOOLEAN}
DeepTp(d, withInclude) ==
    ("main" :> <<Set("c", LI(3))>> \o
               (IF withInclude THEN <<Include(LS(NT.t1), WithExpr(d.w1), d.w1 # "none", d.o1, FALSE, FALSE)>> ELSE <<>>)
               \o <<T(<<91>>)>> \o ReadProbe \o <<T(<<93>>)>>)
    @@ ("t1" :> <<T(<<40>>), Set("z", LI(4)), Include(LS(NT.t3), WithExpr(d.w2), d.w2 # "none", d.o2, FALSE, FALSE)>> \o ReadProbe \o <<T(<<41>>)>>)
    @@ ("t3" :> <<T(<<60>>), Set("a", LI(0)), Set("b", LI(0))>> \o ReadProbe \o <<T(<<62>>)>>)

\* ---- further scenarios (one run each): relative names, loader failures under ignore missing ----------
RelI(s) == Inc(LS(s))
DotB == <<46, 47, 98>>                      \* ./b
UpSH == <<46, 46, 47, 115, 47, 104>>        \* ../s/h
UpSM == <<46, 46, 47, 115, 47, 109>>        \* ../s/m
UpPB == <<46, 46, 47, 112, 47, 98>>         \* ../p/b
RelLeaves == ("pb" :> <<T(<<80>>), PrintS(Var("a"))>>) @@ ("sb" :> <<T(<<83>>), PrintS(Var("a"))>>)
\* a hash of 70 entries (k1 .. k3 and 67 more)
WideKeys == <<NT.k1, NT.k2, NT.k3>> \o [i \in 1..67 |-> <<119, 48 + ((i + 9) \div 10), 48 + ((i + 9) % 10)>>]
WideHash == Hash([i \in 1..70 |-> LS(WideKeys[i])], [i \in 1..70 |-> LI(i)])
Extra ==
  [ rel1 |-> [entry |-> "pm", fl |-> "",
              tp |-> ("pm" :> <<RelI(UpSH), T(<<124>>), RelI(DotB), T(<<124>>), RelI(DotB)>>) @@ ("sh" :> <<T(<<72>>)>>) @@ RelLeaves],
    rel2 |-> [entry |-> "pm", fl |-> "",
              tp |-> ("pm" :> <<RelI(DotB), T(<<124>>), RelI(UpSH), T(<<124>>), RelI(DotB)>>) @@ ("sh" :> <<T(<<72>>), RelI(DotB), T(<<47>>), RelI(UpPB)>>) @@ RelLeaves],
    rel3 |-> [entry |-> "pm", fl |-> "",
              tp |-> ("pm" :> <<For1("d", Arr(<<LS(UpSH), LS(DotB), LS(NT.sb), LS(DotB)>>), <<Inc(Var("d")), T(<<44>>)>>)>>)
                     @@ ("sh" :> <<T(<<72>>), RelI(DotB)>>) @@ RelLeaves],
    rel4 |-> [entry |-> "ph", fl |-> "",
              \* (which directory a relative name inside an overriding block refers to -- the child's or the layout's -- is stated nowhere:
              \* the child's block uses none)
              tp |-> ("ph" :> <<Extends(LS(UpSM)), Block("bb", <<T(<<60>>), PrintS(Call("parent", <<>>)), T(<<62>>)>>)>>)
                     @@ ("sm" :> <<T(<<91>>), RelI(DotB), Block("bb", <<T(<<40>>), RelI(DotB), T(<<41>>)>>), Block("cc", <<RelI(UpPB)>>), T(<<93>>)>>) @@ RelLeaves],
    rel5 |-> [entry |-> "pm", fl |-> "",
              tp |-> ("pm" :> <<Include(LS(UpSH), Hash(<<LS(NT.a)>>, <<LI(5)>>), TRUE, TRUE, FALSE, FALSE), T(<<124>>),
                                Include(LS(<<46, 47, 110, 120>>), Lit(Null), FALSE, FALSE, TRUE, FALSE), T(<<124>>), RelI(DotB)>>)
                     @@ ("sh" :> <<T(<<72>>), RelI(DotB)>>) @@ RelLeaves],
    \* the name of the included template is an expression: concatenations (quotes inside the tag), a conditional, a filter
    exprname |-> [entry |-> "main", fl |-> "",
                  tp |-> ("main" :> <<T(<<91>>), Inc(Bin("~", LS(<<116>>), LS(<<49>>))), T(<<124>>), Inc(Bin("~", LS(<<116>>), LI(1))), T(<<124>>),
                                      Include(Bin("~", LS(<<116>>), Var("a")), Hash(<<LS(NT.a)>>, <<Bin("~", LS(<<120>>), LS(<<121>>))>>), TRUE, FALSE, FALSE, FALSE), T(<<124>>),
                                      Inc(Cond(Var("b"), LS(NT.t1), LS(NT.t3))), T(<<124>>), Inc(Filt("lower", LS(<<84, 51>>), <<>>)), T(<<124>>),
                                      Include(Bin("~", LS(<<110>>), LS(<<120>>)), Lit(Null), FALSE, FALSE, TRUE, FALSE), T(<<93>>)>>)
                         @@ ("t1" :> <<T(<<60>>), PrintS(Var("a")), T(<<62>>)>>) @@ ("t3" :> <<T(<<40>>), PrintS(Var("a")), T(<<41>>)>>)],
    \* a loader that has the template and fails is not "missing"
    ignfault |-> [entry |-> "main", fl |-> "t1",
                  tp |-> ("main" :> <<T(<<97>>), Include(LS(NT.t1), Lit(Null), FALSE, FALSE, TRUE, FALSE), T(<<98>>)>>) @@ ("t1" :> <<T(<<99>>)>>)],
    ignfaultdeep |-> [entry |-> "main", fl |-> "t3",
                  tp |-> ("main" :> <<T(<<97>>), Include(LS(NT.t1), Lit(Null), FALSE, FALSE, TRUE, FALSE), T(<<98>>)>>)
                         @@ ("t1" :> <<T(<<99>>), Include(LS(NT.t3), Lit(Null), FALSE, FALSE, TRUE, FALSE)>>) @@ ("t3" :> <<T(<<100>>)>>)],
    \* what the including template binds hides an engine global of the same name, in the included template too
    globalinc |-> [entry |-> "main", fl |-> "", globals |-> ("g" :> VS(<<71>>)) @@ ("a" :> VS(<<90>>)),
                  tp |-> ("main" :> <<Set("g", LS(<<76>>)), T(<<91>>), PrintS(Var("g")), PrintS(Var("a")), T(<<93>>), Inc(LS(NT.t1)),
                                      For1("g", Arr(<<LI(1), LI(2)>>), <<Inc(LS(NT.t1))>>),
                                      Include(LS(NT.t1), Hash(<<LS(NT.g)>>, <<LI(9)>>), TRUE, FALSE, FALSE, FALSE), Include(LS(NT.t1), Lit(Null), FALSE, TRUE, FALSE, FALSE)>>)
                         @@ ("t1" :> <<T(<<60>>), PrintS(Var("g")), PrintS(Var("a")), T(<<62>>), Inc(LS(NT.t3))>>) @@ ("t3" :> <<T(<<40>>), PrintS(Var("g")), T(<<41>>)>>)],
    \* a name the includer binds to null hides the engine global of that name, in the included template too (two levels down,
    \* through with, through a loop variable over a null element)
    globalnull |-> [entry |-> "main", fl |-> "", globals |-> ("g" :> VS(<<71>>)) @@ ("a" :> VS(<<90>>)),
                  tp |-> ("main" :> <<Set("g", Lit(Null)), T(<<91>>), PrintS(Var("g")), PrintS(Var("a")), T(<<93>>), Inc(LS(NT.t1)),
                                      For1("a", Arr(<<Lit(Null), LI(2)>>), <<Inc(LS(NT.t1))>>),
                                      Include(LS(NT.t1), Hash(<<LS(NT.a)>>, <<Lit(Null)>>), TRUE, FALSE, FALSE, FALSE)>>)
                         @@ ("t1" :> <<T(<<60>>), PrintS(Var("g")), T(<<44>>), PrintS(Var("a")), PrintS(Cond(Test(Var("g"), "defined", <<>>, FALSE), LS(<<100>>), LS(<<117>>))), T(<<62>>), Inc(LS(NT.t3))>>)
                         @@ ("t3" :> <<T(<<40>>), PrintS(Var("g")), PrintS(Var("a")), T(<<41>>)>>)],
    \* the includer's loop variable is a variable like any other: the included template reads it before and after a loop of its own
    loopread |-> [entry |-> "main", fl |-> "",
                  tp |-> ("main" :> <<For1("i", Arr(<<LI(5), LI(6), LI(7)>>), <<Inc(LS(NT.t1)), T(<<59>>)>>)>>)
                         @@ ("t1" :> <<PrintS(Attr(Var("loop"), "index")), For1("j", Arr(<<LI(1), LI(2)>>), <<PrintS(Attr(Var("loop"), "index"))>>), PrintS(Attr(Var("loop"), "index")),
                                       PrintS(Attr(Var("loop"), "length")), PrintS(Cond(Attr(Var("loop"), "last"), LS(<<108>>), LS(<<110>>))), Inc(LS(NT.t3))>>)
                         @@ ("t3" :> <<T(<<40>>), PrintS(Attr(Var("loop"), "index0")), For1("k", Arr(<<LI(1)>>), <<>>), PrintS(Attr(Var("loop"), "revindex")), T(<<41>>)>>)],
    \* an include that receives more variables than a pooled map is sized for, then other includes: nothing stays behind
    wide |-> [entry |-> "main", fl |-> "",
                  tp |-> ("main" :> <<Include(LS(NT.t1), WideHash, TRUE, FALSE, FALSE, FALSE), T(<<124>>), Include(LS(NT.t3), Lit(Null), FALSE, TRUE, FALSE, FALSE), T(<<124>>),
                                      Inc(LS(NT.t3)), T(<<124>>), Include(LS(NT.t1), Hash(<<LS(NT.k1)>>, <<LI(1)>>), TRUE, TRUE, FALSE, FALSE)>>)
                         @@ ("t1" :> <<T(<<60>>), PrintS(Var("k1")), PrintS(Var("k2")), T(<<62>>), Include(LS(NT.t3), Lit(Null), FALSE, TRUE, FALSE, FALSE)>>)
                         @@ ("t3" :> <<T(<<40>>), PrintS(Var("k1")), PrintS(Cond(Test(Var("k2"), "defined", <<>>, FALSE), LS(<<100>>), LS(<<117>>))), PrintS(Var("a")), T(<<41>>)>>)],
    \* macros: what an included template defines or imports under a name the includer uses too stays with the included template --
    \* the includer's macro (and the siblings it calls) are what they were, before and after the include, also in a loop
    macafter |-> [entry |-> "main", fl |-> "",
                  tp |-> ("main" :> <<From(LS(NT.t1), <<"mm">>, <<"mm">>), PrintS(Call("mm", <<LI(1)>>)), T(<<124>>), Inc(LS(NT.t2)), T(<<124>>), PrintS(Call("mm", <<LI(2)>>)),
                                      For1("i", Arr(<<LI(3), LI(4)>>), <<Inc(LS(NT.t2)), PrintS(Call("mm", <<Var("i")>>))>>)>>)
                         @@ ("t1" :> <<Macro("mm", <<Param("v")>>, <<T(<<109>>), PrintS(Call("hh", <<Var("v")>>))>>), Macro("hh", <<Param("v")>>, <<T(<<104>>), PrintS(Var("v"))>>)>>)
                         @@ ("t2" :> <<Macro("mm", <<Param("v")>>, <<T(<<88>>), PrintS(Var("v"))>>), T(<<60>>), PrintS(Call("mm", <<LI(7)>>)), T(<<62>>)>>)],
    macafter2 |-> [entry |-> "main", fl |-> "",
                  tp |-> ("main" :> <<From(LS(NT.t1), <<"mm">>, <<"mm">>), PrintS(Call("mm", <<LI(1)>>)), T(<<124>>), Inc(LS(NT.t2)), T(<<124>>), PrintS(Call("mm", <<LI(2)>>))>>)
                         @@ ("t1" :> <<Macro("mm", <<Param("v")>>, <<T(<<109>>), PrintS(Call("hh", <<Var("v")>>))>>), Macro("hh", <<Param("v")>>, <<T(<<104>>), PrintS(Var("v"))>>)>>)
                         @@ ("t2" :> <<From(LS(NT.t3), <<"mm">>, <<"mm">>), T(<<60>>), PrintS(Call("mm", <<LI(7)>>)), T(<<62>>)>>)
                         @@ ("t3" :> <<Macro("mm", <<Param("v")>>, <<T(<<79>>), PrintS(Call("hh", <<Var("v")>>))>>), Macro("hh", <<Param("v")>>, <<T(<<72>>), PrintS(Var("v"))>>)>>)],
    \* the value handed to an include is computed where the include stands: parent() of the block the include is written in
    withparent |-> [entry |-> "ph", fl |-> "",
                  tp |-> ("ph" :> <<Extends(LS(NT.t4)), Block("bb", <<T(<<91>>), Include(LS(NT.t1), Hash(<<LS(NT.a)>>, <<Call("parent", <<>>)>>), TRUE, FALSE, FALSE, FALSE), T(<<124>>),
                                                                     Include(LS(NT.t1), Hash(<<LS(NT.a)>>, <<Call("parent", <<>>)>>), TRUE, TRUE, FALSE, FALSE),
                                                                     For1("i", Arr(<<LI(1), LI(2)>>), <<Include(LS(NT.t1), Hash(<<LS(NT.a)>>, <<Call("parent", <<>>)>>), TRUE, FALSE, FALSE, FALSE)>>), T(<<93>>)>>)>>)
                         @@ ("t4" :> <<T(<<76>>), Block("bb", <<T(<<112, 98>>)>>), T(<<82>>)>>)
                         @@ ("t1" :> <<T(<<60>>), PrintS(Var("a")), T(<<62>>)>>)],
    \* an included template that does nothing but extend a layout: the layout reads the including template's variables like any
    \* included template (also inside a loop)
    aliasinc |-> [entry |-> "main", fl |-> "",
                  tp |-> ("main" :> <<Set("q", LI(5)), T(<<91>>), Inc(LS(NT.t1)), For1("i", Arr(<<LI(1), LI(2)>>), <<Inc(LS(NT.t1))>>), Include(LS(NT.t1), Hash(<<LS(NT.q)>>, <<LI(7)>>), TRUE, TRUE, FALSE, FALSE), T(<<93>>)>>)
                         @@ ("t1" :> <<Extends(LS(NT.t4))>>)
                         @@ ("t4" :> <<T(<<60>>), PrintS(Var("q")), PrintS(Var("i")), PrintS(Var("a")), Block("bb", <<T(<<35>>), PrintS(Var("q"))>>), T(<<62>>)>>)],
    \* an engine global is defined wherever it can be read: in the template, in what it includes (plain, only, two levels down, in a loop)
    globaldef |-> [entry |-> "main", fl |-> "", globals |-> ("g" :> VS(<<71>>)),
                  tp |-> ("main" :> <<PrintS(Cond(Test(Var("g"), "defined", <<>>, FALSE), LS(<<100>>), LS(<<117>>))), Inc(LS(NT.t1)), Include(LS(NT.t1), Lit(Null), FALSE, TRUE, FALSE, FALSE),
                                      For1("i", Arr(<<LI(1)>>), <<Inc(LS(NT.t1))>>)>>)
                         @@ ("t1" :> <<T(<<60>>), PrintS(Cond(Test(Var("g"), "defined", <<>>, FALSE), LS(<<100>>), LS(<<117>>))), PrintS(Var("g")),
                                       PrintS(Cond(Test(Var("nog"), "defined", <<>>, TRUE), LS(<<117>>), LS(<<100>>))), T(<<62>>), Inc(LS(NT.t3))>>)
                         @@ ("t3" :> <<T(<<40>>), PrintS(Cond(Test(Var("g"), "defined", <<>>, FALSE), LS(<<100>>), LS(<<117>>))), T(<<41>>)>>)],
    \* a variable that holds null is defined, in the included template as in the including one
    nulldef |-> [entry |-> "main", fl |-> "",
                  tp |-> ("main" :> <<Set("x", Lit(Null)), PrintS(Cond(Test(Var("x"), "defined", <<>>, FALSE), LS(<<100>>), LS(<<117>>))), Inc(LS(NT.t1)),
                                      Include(LS(NT.t1), Hash(<<LS(NT.y)>>, <<Lit(Null)>>), TRUE, TRUE, FALSE, FALSE)>>)
                         @@ ("t1" :> <<T(<<60>>), PrintS(Cond(Test(Var("x"), "defined", <<>>, FALSE), LS(<<100>>), LS(<<117>>))),
                                       PrintS(Cond(Test(Var("y"), "defined", <<>>, FALSE), LS(<<100>>), LS(<<117>>))), T(<<62>>), Inc(LS(NT.t3))>>)
                         @@ ("t3" :> <<PrintS(Cond(Test(Var("x"), "defined", <<>>, TRUE), LS(<<117>>), LS(<<100>>)))>>)],
    \* ignore missing is about the template the tag names: one that exists and itself refers to a missing one fails
    ignnested |-> [entry |-> "main", fl |-> "",
                  tp |-> ("main" :> <<T(<<97>>), Include(LS(NT.t1), Lit(Null), FALSE, FALSE, TRUE, FALSE), T(<<98>>)>>) @@ ("t1" :> <<T(<<99>>), Inc(LS(NT.nx)), T(<<100>>)>>)],
    ignnested2 |-> [entry |-> "main", fl |-> "",
                  tp |-> ("main" :> <<T(<<97>>), Include(LS(NT.t1), Lit(Null), FALSE, FALSE, TRUE, FALSE), T(<<98>>)>>) @@ ("t1" :> <<T(<<99>>), Inc(LS(NT.t3)), T(<<100>>)>>)
                         @@ ("t3" :> <<Extends(LS(NT.nx)), Block("bb", <<T(<<101>>)>>)>>)],
    ignnested3 |-> [entry |-> "main", fl |-> "",
                  tp |-> ("main" :> <<T(<<97>>), Include(LS(NT.t1), Hash(<<LS(NT.a)>>, <<LI(2)>>), TRUE, TRUE, TRUE, FALSE), T(<<98>>)>>) @@ ("t1" :> <<T(<<99>>), Import(LS(NT.nx), "L"), T(<<100>>)>>)],
    ignmissing |-> [entry |-> "main", fl |-> "",
                  tp |-> ("main" :> <<T(<<97>>), Include(LS(NT.nx), Lit(Null), FALSE, FALSE, TRUE, FALSE), T(<<98>>)>>)] ]
LoaderLayouts == {"direct", "only", "front", "back", "chain"}
ExtraCases == {[extra |-> n, ly |-> ly] : n \in DOMAIN Extra, ly \in LoaderLayouts}
ExtraOK(c) == (Extra[c.extra].fl # "" => c.ly # "direct")
ExtraGlobals(c) == IF "globals" \in DOMAIN Extra[c.extra] THEN Extra[c.extra].globals ELSE EmptyFn
\* (engine globals are the outermost scope: the context is in front of them)
ExtraCtx(c) == IF "globals" \in DOMAIN Extra[c.extra] THEN EmptyFn ELSE ("a" :> VI(1))
ExtraRef(c) == Render(WithGlobals(MkWF(Extra[c.extra].tp, {}, {}, NoFault, Extra[c.extra].fl), ExtraGlobals(c)), Extra[c.extra].entry, ExtraCtx(c))
CaseOfExtra(c) ==
    LET r == ExtraRef(c) IN
    [prop |-> "C11", key |-> ToJson(c), tags |-> {"extra:" \o c.extra, "loaders:" \o c.ly}, entry |-> Extra[c.extra].entry, ctx |-> ExtraCtx(c),
     cfg |-> [globals |-> ExtraGlobals(c), loader |-> c.ly # "direct", faultload |-> Extra[c.extra].fl, frontloader |-> c.ly = "front", backloader |-> c.ly = "back",
              chainloader |-> c.ly = "chain"],
     runs |-> <<[label |-> c.extra, tp |-> Sources(Extra[c.extra].tp, LMin), xcalls |-> [id \in {} |-> 0]]>>,
     expect |-> [ok |-> r.ok, out |-> r.out, err |-> r.err, calls |-> [id \in {} |-> 0]]]

Ctx == ("a" :> VI(1)) @@ ("b" :> VI(2)) @@ ("nm" :> VS(NT.t1)) @@ ("nv" :> VS(NT.nx))
World(tp) == MkW(tp, {}, {}, NoFault)

IsDeep(c) == "deep" \in DOMAIN c
TpOf(c, wi) == IF IsDeep(c) THEN DeepTp(c, wi) ELSE Tp(c, wi)
Ref(c, wi) == Render(World(TpOf(c, wi)), "main", Ctx)

TagsOf(c) ==
    IF IsDeep(c) THEN {"deep", "w1:" \o c.w1, "w2:" \o c.w2} \cup (IF c.o1 THEN {"only1"} ELSE {}) \cup (IF c.o2 THEN {"only2"} ELSE {})
    ELSE {"with:" \o c.w, "name:" \o c.nf, "bh:" \o c.bh, "pl:" \o c.pl}
         \cup (IF c.only THEN {"only"} ELSE {}) \cup (IF c.ign THEN {"ignore"} ELSE {})

CaseOf(c) ==
    LET r1 == Ref(c, TRUE)
        r0 == Ref(c, FALSE)
    IN [prop |-> "C11", key |-> ToJson(c), tags |-> TagsOf(c), entry |-> "main", ctx |-> Ctx,
        runs |-> <<[label |-> "include", tp |-> Sources(TpOf(c, TRUE), LMin), xcalls |-> [id \in {} |-> 0], out |-> r1.out],
                   [label |-> "removed", tp |-> Sources(TpOf(c, FALSE), LMin), xcalls |-> [id \in {} |-> 0], out |-> r0.out]>>,
        \* the second run never fails; when the first is expected to fail only run 1 is emitted
        expect |-> [ok |-> r1.ok, out |-> r1.out, err |-> r1.err, calls |-> [id \in {} |-> 0]]]

CaseOfErr(c) ==
    LET r1 == Ref(c, TRUE) IN
    [prop |-> "C11", key |-> ToJson(c), tags |-> TagsOf(c) \cup {"expect-error"}, entry |-> "main", ctx |-> Ctx,
     runs |-> <<[label |-> "include", tp |-> Sources(TpOf(c, TRUE), LMin), xcalls |-> [id \in {} |-> 0]]>>,
     expect |-> [ok |-> r1.ok, out |-> r1.out, err |-> r1.err, calls |-> [id \in {} |-> 0]]]

All == {c \in Cases : Relevant(c)} \cup DeepCases
IsExtra(c) == "extra" \in DOMAIN c
Init == cs \in {c \in All : Ref(c, TRUE).err # "frag" /\ Ref(c, FALSE).ok} \cup {c \in ExtraCases : ExtraOK(c) /\ ExtraRef(c).err # "frag"}
Next == UNCHANGED cs
Spec == Init /\ [][Next]_cs

Emit == PrintT(ToJson(IF IsExtra(cs) THEN CaseOfExtra(cs) ELSE IF Ref(cs, TRUE).ok THEN CaseOf(cs) ELSE CaseOfErr(cs)))

\* model-level non-interference: what the includer prints after the include does not
\* depend on the include (the suffix of the output from the last "[" is equal)
RECURSIVE LastIndexOf(_, _, _)
LastIndexOf(s, ch, i) == IF i = 0 THEN 0 ELSE IF s[i] = ch THEN i ELSE LastIndexOf(s, ch, i - 1)
Suffix(s) == LET i == LastIndexOf(s, 91, Len(s)) IN SubSeq(s, i, Len(s))
NonInterference == ~IsExtra(cs) /\ Ref(cs, TRUE).ok => Suffix(Ref(cs, TRUE).out) = Suffix(Ref(cs, FALSE).out)
=============================================================================
