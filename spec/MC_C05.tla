------------------------------- MODULE MC_C05 -------------------------------
(***************************************************************************)
(* C05: no template source or context value makes the engine panic or      *)
(* hang.  The contract of the lifecycle model: Parse, Render and Decode     *)
(* return Ok or Err -- never "crash" -- and afterwards a fixed probe render  *)
(* on the same engine gives its pristine result.  The specification         *)
(* supplies the input spaces; the verdict is an observation of the real     *)
(* code (no panic, no hang, no process death, engine still usable):         *)
(*   tok    every sequence of up to SeqLen token classes after {{ / {% ,     *)
(*          closed, unclosed or wrongly closed                               *)
(*   shape  every context value shape at the variable of every skeleton      *)
(*   dec    structured corruptions of valid compiled-template encodings:     *)
(*          truncation at every offset, boundary values in every length      *)
(*          field, single-byte changes                                       *)
(***************************************************************************)
EXTENDS TwigSyntax, CompiledFmt, Json

CONSTANTS SeqLen, SeqLenSmall
VARIABLE cs

\* ---- token classes ----------------------------------------------------------------------------
Delims == {"{{", "{%", "{%-", "}}", "-}}", "%}", "-%}", "{#", "#}", "{{-"}
Keywords == {"if", "elseif", "else", "endif", "for", "in", "endfor", "set", "block", "endblock", "extends", "include", "with",
             "only", "ignore", "missing", "macro", "endmacro", "import", "as", "from", "apply", "endapply", "verbatim",
             "endverbatim", "do", "spaceless", "endspaceless", "sandboxed", "not", "and", "or", "is", "defined", "parent", "_self", "loop"}
Atoms == {"x", "1", "'a'", "\"", "'", "1.5", "-1"}
Punct == {"(", ")", "[", "]", "{", "}", ",", ".", ":", "|", "?", "=", "+", "-", "*", "/", "%", "==", "!=", "<", ">=", "~", "..", "??", "\\"}
\* the small alphabet (every pair / triple), the full one (every single / pair)
SmallTok == {"if", "else", "endif", "for", "in", "endfor", "set", "block", "include", "macro", "x", "1", "'a'", "(", ")", "[", "{", ",", ".", "|", "?", ":", "=", "+", "-", "not", "is", "}}", "%}", "{{", "{%"}
AllTok == Delims \cup Keywords \cup Atoms \cup Punct
Seqs(A, n) == UNION {[1..k -> A] : k \in 0..n}
Opens == {"{{", "{%", "{%-", "{#"}
Closes == {"match", "none", "wrong"}
CloseOf(o, c) == CASE c = "none" -> <<>>
                   [] c = "match" -> <<W(IF o = "{{" THEN "}}" ELSE IF o = "{#" THEN "#}" ELSE "%}")>>
                   [] c = "wrong" -> <<W(IF o = "{{" THEN "%}" ELSE "}}")>>
Tails == {"none", "endif", "endfor"}
TokCasesOf(o, c, tl) == {[fam |-> "tok", o |-> o, ts |-> ts, c |-> c, tail |-> tl] : ts \in Seqs(AllTok, SeqLen) \cup Seqs(SmallTok, SeqLenSmall)}
TokSource(c) == <<W("a ")>> \o <<W(c.o), W(" ")>> \o Flatten([i \in 1..Len(c.ts) |-> <<W(c.ts[i]), W(" ")>>]) \o CloseOf(c.o, c.c) \o <<W(" b")>>
                \o (CASE c.tail = "endif" -> <<W("{% endif %}")>> [] c.tail = "endfor" -> <<W("{% endfor %}c")>> [] OTHER -> <<>>)
TokRelevant(c) == c.tail = "none" \/ (Len(c.ts) >= 1 /\ c.ts[1] \in {"if", "for", "elseif", "else", "block", "macro"} /\ c.c = "match")

\* ---- tags cut off at the end of a template, below and above the large-template threshold -----------
Frags == {"{{ x }", "{{ x ", "{{ x", "{{", "{", "{% if x %", "{% if x ", "{% if", "{%", "{# c #", "{# c", "{#", "{{ x }}", "{% if x %}",
          "{{ 'a", "{{ x|", "{{ x.", "{{ (x", "{{ [x", "{% for i in", "{% set", "{% include", "{% endif %", "}}", "%}", "{{ x -}", "{{- x -", "{%- if x -%"}
TruncCases == {[fam |-> "trunc", frag |-> f] : f \in Frags}
TruncLens == {0, 4000, 4085, 4090, 4096, 4100, 20000}
\* ---- context value shapes x skeletons -------------------------------------------------------------
\* every ASCII punctuation character, space, NUL, DEL and a byte that is not UTF-8, as a one-byte string; some two-byte ones
\* (what a pattern, a format, a separator, a character list or a name could be)
CharCodes == {0, 32, 127, 255} \cup 33..47 \cup 58..64 \cup 91..96 \cup 123..126
CharShapes == {"ch:" \o ToString(c) : c \in CharCodes}
StrShapes == {"s:47,47", "s:47,105", "s:47,47,105", "s:47,40,47", "s:47,91,47", "s:47,42,47", "s:92,92", "s:37,37", "s:37,100", "s:37,33", "s:37,42,100", "s:37,91,49,93,100", "s:44,32",
              "s:44,59", "s:97,44,98,255,99,32,100", "s:255,254", "s:40,41", "s:91,93", "s:123,125", "s:46,46", "s:45,45", "s:36,49", "s:92,49", "s:89,45,109", "s:239,187,191"}
\* integers at and next to the powers of two where a representation changes
IntEdgeShapes == {"i:2147483647", "i:2147483648", "i:-2147483648", "i:-2147483649", "i:4294967295", "i:4294967296", "i:9007199254740992", "i:9007199254740993",
                  "i:-9007199254740993", "i:4611686018427387903", "i:4611686018427387904", "i:-4611686018427387904", "i:-4611686018427387905",
                  "i:9223372036854775806", "i:-9223372036854775807", "i:1000000", "i:-1000000", "i:256", "i:65536",
                  \* the ends of small tables of ready-made texts
                  "i:99", "i:100", "i:101", "i:-99", "i:-100", "i:-101", "i:999", "i:1000", "i:-999", "i:-1000", "i:-10", "i:10"}
Shapes == {"nil", "true", "int0", "int5", "intneg", "float", "strempty", "str", "strnum", "listempty", "listmixed", "strs", "ints", "arr3",
           "mapany", "mss", "mis", "msl", "mapempty", "struct", "ptrstruct", "nilptrstruct", "embedded", "methods", "ptrptr", "nilslice",
           "nilmap", "func", "chan", "time", "bytes", "err", "iface", "uint8", "int64", "float32", "nested", "mixedrecv",
           "biglist", "bigints", "maxint", "minint", "strregex", "strbracket", "strbackslash", "struni", "niltime", "nilstringer", "nilerr",
           "mapiface", "uintmap", "listoflists", "float0", "floatbig", "nan",
           \* values that contain themselves; very long values
           "cyclist", "cycmap", "cycptr", "cycmutual", "strlong", "listlong",
           \* interface slices with methods, pointers that lead to themselves, defined pointer types, NaN keys, keys of different
           \* defined types with one value, shared sub-values sixty levels deep
           "errslice", "stringerslice", "ptrcycle", "ptrself", "stringermap", "hiddennanmap", "nilifaceptr", "nilerrptr", "rows2d", "grid2d", "maps1d", "structs1d", "arrs2d", "structslice", "arrslice", "structmapv", "structkeymap", "intstrmap", "floatboolmap", "intnilmap", "floaterrmap", "intifacemap", "ptrptrmap", "namedptr", "nanmap", "nanifacemap", "namedkeys", "dag60", "dagmap"} \cup CharShapes \cup StrShapes \cup IntEdgeShapes
V == Var("v")
F0(f) == Filt(f, V, <<>>)
Skeletons ==
  [ print |-> <<PrintS(V)>>, attr |-> <<PrintS(Attr(V, "a"))>>, attr2 |-> <<PrintS(Attr(Attr(V, "a"), "b"))>>, attrX |-> <<PrintS(Attr(V, "X"))>>,
    item |-> <<PrintS(Item(V, LS(<<97>>)))>>, item0 |-> <<PrintS(Item(V, LI(0)))>>, item9 |-> <<PrintS(Item(V, LI(9)))>>,
    itemundef |-> <<PrintS(Item(V, Var("undef")))>>, itemself |-> <<PrintS(Item(V, V))>>, itemneg |-> <<PrintS(Item(V, Un("-", LI(1))))>>,
    forv |-> <<For1("i", V, <<PrintS(Var("i"))>>)>>, forkv |-> <<For("i", "k", V, <<PrintS(Var("k")), PrintS(Var("i"))>>, <<Text(<<69>>)>>, TRUE)>>,
    ifv |-> <<IfElse(V, <<Text(<<84>>)>>, <<Text(<<70>>)>>)>>, notv |-> <<PrintS(Cond(Un("not", V), LI(1), LI(2)))>>,
    length |-> <<PrintS(F0("length"))>>, first |-> <<PrintS(F0("first"))>>, last |-> <<PrintS(F0("last"))>>, keys |-> <<PrintS(F0("keys"))>>,
    join |-> <<PrintS(Filt("join", V, <<LS(<<44>>)>>))>>, merge |-> <<PrintS(Filt("merge", V, <<Arr(<<LI(1)>>)>>))>>,
    mergemap |-> <<PrintS(Filt("merge", V, <<Hash(<<LS(<<97>>)>>, <<LI(1)>>)>>))>>, mergeinto |-> <<PrintS(Filt("merge", Arr(<<LI(1)>>), <<V>>))>>,
    sort |-> <<PrintS(F0("sort"))>>, reverse |-> <<PrintS(F0("reverse"))>>, slice |-> <<PrintS(Filt("slice", V, <<LI(1)>>))>>,
    slice2 |-> <<PrintS(Filt("slice", V, <<Un("-", LI(2)), LI(5)>>))>>, sliceof |-> <<PrintS(Filt("slice", LS(<<97, 98>>), <<V>>))>>,
    default |-> <<PrintS(Filt("default", V, <<LS(<<100>>)>>))>>, upper |-> <<PrintS(F0("upper"))>>, trim |-> <<PrintS(F0("trim"))>>,
    capitalize |-> <<PrintS(F0("capitalize"))>>, escape |-> <<PrintS(F0("escape"))>>, abs |-> <<PrintS(F0("abs"))>>, round |-> <<PrintS(F0("round"))>>,
    numfmt |-> <<PrintS(F0("number_format"))>>, date |-> <<PrintS(Filt("date", V, <<LS(<<89>>)>>))>>, json |-> <<PrintS(F0("json_encode"))>>,
    split |-> <<PrintS(Filt("split", V, <<LS(<<44>>)>>))>>, replace |-> <<PrintS(Filt("replace", V, <<LS(<<97>>), LS(<<98>>)>>))>>,
    plus |-> <<PrintS(Bin("+", V, LI(1)))>>, minus |-> <<PrintS(Bin("-", LI(1), V))>>, times |-> <<PrintS(Bin("*", V, V))>>,
    div |-> <<PrintS(Bin("/", LI(1), V))>>, mod |-> <<PrintS(Bin("%", LI(7), V))>>, pow |-> <<PrintS(Bin("^", V, LI(2)))>>,
    concat |-> <<PrintS(Bin("~", V, LS(<<120>>)))>>, eq |-> <<PrintS(Cond(Bin("==", V, V), LI(1), LI(2)))>>, lt |-> <<PrintS(Cond(Bin("<", V, LI(1)), LI(1), LI(2)))>>,
    invin |-> <<PrintS(Cond(Bin("in", LI(1), V), LI(1), LI(2)))>>, vin |-> <<PrintS(Cond(Bin("in", V, Arr(<<LI(1)>>)), LI(1), LI(2)))>>,
    starts |-> <<PrintS(Cond(Bin("starts with", V, LS(<<97>>)), LI(1), LI(2)))>>, matches |-> <<PrintS(Cond(Bin("matches", V, LS(<<47, 97, 47>>)), LI(1), LI(2)))>>,
    matchespat |-> <<PrintS(Cond(Bin("matches", LS(<<97>>), V), LI(1), LI(2)))>>,
    isempty |-> <<PrintS(Cond(Test(V, "empty", <<>>, FALSE), LI(1), LI(2)))>>, isiter |-> <<PrintS(Cond(Test(V, "iterable", <<>>, FALSE), LI(1), LI(2)))>>,
    iseven |-> <<PrintS(Cond(Test(V, "even", <<>>, FALSE), LI(1), LI(2)))>>, isdiv |-> <<PrintS(Cond(Test(LI(4), "divisible by", <<V>>, FALSE), LI(1), LI(2)))>>,
    include |-> <<Inc(V)>>, extends |-> <<Extends(V), Block("b", <<>>)>>, importv |-> <<Import(V, "L"), PrintS(MCall("L", "m", <<>>))>>,
    incwith |-> <<Include(LS(NT.t1), V, TRUE, FALSE, FALSE, FALSE)>>,
    range |-> <<For1("i", Call("range", <<LI(1), V>>), <<>>)>>, maxf |-> <<PrintS(Call("max", <<V>>))>>, minf |-> <<PrintS(Call("min", <<V, LI(1)>>))>>,
    cycle |-> <<PrintS(Call("cycle", <<V, LI(1)>>))>>, macroarg |-> <<Macro("mm", <<Param("a")>>, <<PrintS(Attr(Var("a"), "b"))>>), PrintS(Call("mm", <<V>>))>>,
    setv |-> <<Set("z", V), PrintS(Item(Var("z"), LI(0)))>>, ternary |-> <<PrintS(Cond(V, V, V))>>, arr |-> <<PrintS(Filt("join", Arr(<<V, V>>), <<>>))>>,
    attrName |-> <<PrintS(Attr(V, "Name"))>>, attrPName |-> <<PrintS(Attr(V, "PName"))>>,
    attrseq |-> <<PrintS(Attr(V, "nosuch")), PrintS(Attr(V, "X")), PrintS(Attr(V, "Name")), PrintS(Attr(V, "nosuch")), PrintS(Attr(V, "Y"))>>,
    hash |-> <<Set("h", Hash(<<LS(<<107>>)>>, <<V>>)), PrintS(Attr(Attr(Var("h"), "k"), "a"))>>, callv |-> <<PrintS(MCall("v", "a", <<>>))>>,
    splitslice |-> <<PrintS(Filt("slice", Filt("split", V, <<LS(<<44>>)>>), <<LI(3), Un("-", LI(2))>>))>>,
    keysslice |-> <<PrintS(Filt("slice", Filt("keys", V, <<>>), <<LI(2), Un("-", LI(2))>>))>>,
    forkeys |-> <<For1("k", Filt("keys", V, <<>>), <<PrintS(Var("k"))>>)>>, firstlast |-> <<PrintS(Filt("first", V, <<>>)), PrintS(Filt("last", V, <<>>))>>,
    idxmi |-> <<PrintS(Item(Var("mi"), V)), PrintS(Cond(Test(Item(Var("mi"), V), "defined", <<>>, FALSE), LI(1), LI(2)))>>, idxmk |-> <<PrintS(Item(Var("mk"), V))>>,
    firstin |-> <<PrintS(Cond(Bin("in", Item(V, LI(0)), V), LI(1), LI(2))), PrintS(Cond(Bin("not in", Filt("last", V, <<>>), V), LI(1), LI(2))),
                  For1("r", V, <<PrintS(Cond(Bin("in", Var("r"), V), LI(1), LI(2)))>>), PrintS(Cond(Bin("in", Arr(<<LI(1), LI(2)>>), V), LI(1), LI(2)))>>,
    idxin |-> <<PrintS(Cond(Bin("in", V, Var("mi")), LI(1), LI(2))), PrintS(Cond(Bin("in", V, Var("mk")), LI(1), LI(2)))>>,
    mergeto |-> <<PrintS(Filt("merge", Var("mis"), <<V>>)), PrintS(Filt("merge", Var("mfb"), <<V>>))>>, mergeto2 |-> <<PrintS(Filt("merge", Var("mi"), <<V>>)), PrintS(Filt("merge", V, <<Var("mis")>>))>>,
    mergefnto |-> <<PrintS(Call("merge", <<Var("mis"), V>>)), PrintS(Call("merge", <<V, Var("mfb")>>))>>,
    attrString |-> <<PrintS(Cond(Test(Attr(V, "String"), "defined", <<>>, FALSE), LI(1), LI(2))), PrintS(Cond(Test(Attr(V, "Error"), "defined", <<>>, FALSE), LI(1), LI(2))), PrintS(Attr(V, "String")), PrintS(Attr(V, "Error"))>>,
    \* a template that reaches for the engine's own objects: the macro of an imported library as a value (rendered again on the same engine)
    modnode |-> <<Import(LS(<<97>>), "L"), PrintS(MCall("L", "m", <<>>)), Text(<<124>>), PrintS(Attr(Attr(Var("L"), "m"), "Release")), PrintS(Attr(Attr(Var("L"), "m"), "name")),
                  PrintS(Cond(Test(Attr(Attr(Var("L"), "m"), "Release"), "defined", <<>>, FALSE), LI(1), LI(2))), PrintS(Attr(Attr(Var("_self"), "m"), "Release")), PrintS(Attr(V, "Release"))>>,
    attrdef |-> <<PrintS(Cond(Test(Attr(V, "a"), "defined", <<>>, FALSE), LI(1), LI(2)))>>, attrdef2 |-> <<PrintS(Cond(Test(Attr(Attr(V, "a"), "b"), "defined", <<>>, TRUE), LI(1), LI(2)))>>,
    itemdef |-> <<PrintS(Cond(Test(Item(V, LI(0)), "defined", <<>>, FALSE), LI(1), LI(2)))>>, itemdefs |-> <<PrintS(Cond(Test(Item(V, LS(<<97>>)), "defined", <<>>, FALSE), LI(1), LI(2)))>>,
    vdef |-> <<PrintS(Cond(Test(V, "defined", <<>>, FALSE), LI(1), LI(2)))>>,
    dumpv |-> <<PrintS(Bin("~", V, LS(<<33>>))), If1(Bin("==", V, LS(<<120>>)), <<Text(<<101>>)>>)>> ]
\* slice with every small start and length on every list-like shape
SliceShapes == {"strs", "ints", "arr3", "bigints", "str", "listmixed", "bytes", "strempty", "listempty", "biglist", "uintmap", "nilslice"}
SliceCases == {[fam |-> "slice", sh |-> sh, a |-> a, b |-> b, via |-> via] : sh \in SliceShapes, a \in -3..4, b \in -4..4, via \in {"direct", "split", "keys"}}
SliceProg(c) == LET base == CASE c.via = "split" -> Filt("split", LS(<<97, 44, 98, 44, 99, 44, 100>>), <<LS(<<44>>)>>)
                              [] c.via = "keys" -> Filt("keys", Hash(<<LS(<<97>>), LS(<<98>>), LS(<<99>>)>>, <<LI(1), LI(2), LI(3)>>), <<>>)
                              [] OTHER -> V
                    num(n) == IF n < 0 THEN Un("-", LI(-n)) ELSE LI(n)
                IN <<PrintS(Filt("join", Filt("slice", base, <<num(c.a), num(c.b)>>), <<LS(<<44>>)>>)), PrintS(Filt("length", Filt("slice", base, <<num(c.a)>>), <<>>))>>
\* a loop over range(1, 2^40) is a finite but enormous computation the template itself asks for: not a hang of the engine
HugeInts == {"int64", "maxint", "minint", "floatbig", "listlong", "strlong"} \cup IntEdgeShapes
ShapeCasesOf(sk) == {[fam |-> "shape", sk |-> sk, sh |-> sh] : sh \in (IF sk = "range" THEN Shapes \ HugeInts ELSE IF sk = "json" THEN Shapes \ {"dag60", "dagmap"} ELSE Shapes)}

\* ---- every built-in filter, function and test with the value as subject and in every argument position -------
FilterNames == {"default", "escape", "e", "upper", "lower", "trim", "raw", "length", "count", "join", "split", "date", "url_encode", "capitalize",
                "title", "first", "last", "slice", "reverse", "sort", "keys", "merge", "replace", "striptags", "number_format", "abs", "round",
                "nl2br", "format", "json_encode", "spaceless"}
FunctionNames == {"range", "date", "random", "max", "min", "constant", "cycle", "include", "json_encode", "length", "merge"}   \* (dump writes to the process output)
TestNames == {"defined", "empty", "null", "none", "even", "odd", "iterable", "same_as", "divisible_by", "constant", "equalto", "sameas",
              "starts_with", "ends_with", "matches", "in"}
sAB == LS(<<97, 44, 98>>)          \* 'a,b'
L123 == Arr(<<LI(1), LI(2), LI(3)>>)
FilterForms == {"f0", "f1", "f1s", "f1l", "f2", "f2s", "f2l", "f3s", "f1n", "f2n", "f1v", "f1d"}
FunctionForms == {"g0", "g1", "g2", "g2a", "g2n", "g3", "g3l", "g2z", "g2m", "g2h", "g2r", "g2q"}
sPctV == LS(<<37, 118>>)
sVerbs == LS(<<37, 100, 37, 115, 37, 53, 46, 50, 102, 37, 120, 37, 99, 37, 113, 37, 85, 37, 101, 37, 116, 37, 112, 37, 84, 37, 42, 100, 37, 91, 50, 93, 118>>)   \* %d%s%5.2f%x%c%q%U%e%t%p%T%*d%[2]v
TestForms == {"t0", "t1", "t1s", "t1l"}
GenBody(form, n) ==
    CASE form = "f0"  -> <<PrintS(Filt(n, V, <<>>))>>
      [] form = "f1"  -> <<PrintS(Filt(n, V, <<V>>))>>
      [] form = "f1s" -> <<PrintS(Filt(n, sAB, <<V>>))>>
      [] form = "f1l" -> <<PrintS(Filt(n, L123, <<V>>))>>
      [] form = "f2"  -> <<PrintS(Filt(n, V, <<V, V>>))>>
      [] form = "f2s" -> <<PrintS(Filt(n, sAB, <<LI(1), V>>))>>
      [] form = "f2l" -> <<PrintS(Filt(n, L123, <<LI(1), V>>))>>
      [] form = "f3s" -> <<PrintS(Filt(n, sAB, <<LS(<<97>>), V, V>>))>>
      [] form = "f1n" -> <<PrintS(Filt(n, LI(5), <<V>>))>>
      [] form = "f2n" -> <<PrintS(Filt(n, LI(5), <<LI(1), V>>))>>
      [] form = "f1v" -> <<PrintS(Filt(n, sPctV, <<V>>))>>
      [] form = "f1d" -> <<PrintS(Filt(n, sVerbs, <<V, V>>))>>
      [] form = "g0"  -> <<PrintS(Call(n, <<>>))>>
      [] form = "g1"  -> <<PrintS(Call(n, <<V>>))>>
      [] form = "g2"  -> <<PrintS(Call(n, <<V, V>>))>>
      [] form = "g2a" -> <<PrintS(Call(n, <<LI(1), V>>))>>
      [] form = "g2n" -> <<PrintS(Call(n, <<Un("-", V), V>>))>>
      [] form = "g2z" -> <<PrintS(Call(n, <<LI(0), V>>))>>
      [] form = "g2m" -> <<PrintS(Call(n, <<Un("-", LI(1)), V>>))>>
      [] form = "g2h" -> <<PrintS(Call(n, <<Un("-", V), Bin("-", V, LI(1))>>))>>
      \* two neighbouring values: a short range wherever it lies
      [] form = "g2r" -> <<PrintS(Filt("length", Call(n, <<Bin("-", V, LI(1)), V>>), <<>>))>>
      [] form = "g2q" -> <<PrintS(Filt("length", Call(n, <<V, Bin("+", V, LI(1))>>), <<>>))>>
      [] form = "g3"  -> <<PrintS(Call(n, <<LI(1), LI(5), V>>))>>
      [] form = "g3l" -> <<PrintS(Call(n, <<L123, V>>))>>
      [] form = "t0"  -> <<PrintS(Cond(Test(V, n, <<>>, FALSE), LI(1), LI(2)))>>
      [] form = "t1"  -> <<PrintS(Cond(Test(V, n, <<V>>, FALSE), LI(1), LI(2)))>>
      [] form = "t1s" -> <<PrintS(Cond(Test(sAB, n, <<V>>, FALSE), LI(1), LI(2)))>>
      [] form = "t1l" -> <<PrintS(Cond(Test(L123, n, <<V>>, TRUE), LI(1), LI(2)))>>
\* range over a span of 2^63 values is the template's own request (see above); so is a cycle / merge of such a range
\* (V - 1 below the smallest and V + 1 above the largest integer are not neighbours any more)
HugeLoop(c) == \/ c.n = "range" /\ c.sh \in HugeInts /\ c.form \notin {"g2r", "g2q"}
               \* (... and next to them v - 1 and v + 1 are computed in floating point, which has no room for the last digits)
               \/ c.n = "range" /\ c.form \in {"g2r", "g2q"}
                  /\ c.sh \in {"minint", "maxint", "floatbig", "listlong", "strlong", "i:9223372036854775806", "i:-9223372036854775807"}
               \* (a 600 KB regular expression matched against 600 KB of text is a finite but enormous computation, too)
               \/ c.n = "matches" /\ c.sh = "strlong"
               \* (the JSON text of a value with shared sub-values sixty levels deep is 2^60 elements long)
               \/ c.n = "json_encode" /\ c.sh \in {"dag60", "dagmap"}
\* (an operator of the form, not one big constant set: TLC builds constant sets eagerly, on one thread, and unites them quadratically)
NamesOfForm(fo) == IF fo \in FilterForms THEN FilterNames ELSE IF fo \in FunctionForms THEN FunctionNames ELSE TestNames
GenCasesOf(fo) == {c \in {[fam |-> "gen", form |-> fo, n |-> n, sh |-> sh] : n \in NamesOfForm(fo), sh \in Shapes} : ~HugeLoop(c)}

\* ---- identifiers whose lower case has another encoded length, keywords and odd names in every name position ----
Idents == [ stroke |-> <<570, 570, 570, 570>>, doti |-> <<304, 304, 304>>, kelvin |-> <<8490, 8490>>, sharp |-> <<7838, 97>>, acute |-> <<233, 233>>,
            kwin |-> <<105, 110>>, kwif |-> <<105, 102>>, kwwith |-> <<119, 105, 116, 104>>, kwas |-> <<97, 115>>, digit |-> <<49, 97>>, dash |-> <<97, 45, 98>>,
            long |-> [i \in 1..300 |-> 97 + (i % 26)], empty |-> <<>>, upper |-> <<73, 78>>, cjk |-> <<20013, 25991>>, astral |-> <<128512, 120>>,
            \* (as names and inside string literals) backslashes, quotes, line breaks, delimiters
            bs |-> <<92>>, absl |-> <<97, 92>>, bsq |-> <<92, 34>>, bsbs |-> <<92, 92>>, bsn |-> <<92, 110, 92>>, nl |-> <<97, 10, 98>>, open |-> <<123, 123>>,
            close |-> <<37, 125>>, sq |-> <<39>>, dq |-> <<34>>, nul |-> <<97, 0, 98>>, nosuch |-> <<110, 111, 115, 117, 99, 104>>, known |-> <<116, 49>> ]
\* %I marks the identifier slot
IdentForms == [ forv |-> "{% for %I in x %}{{ %I }}{% endfor %}", forkv |-> "{% for k, %I in x %}{{ %I }}{% endfor %}", forseq |-> "{% for i in %I %}a{% endfor %}",
                setv |-> "{% set %I = 1 %}{{ %I }}", inc |-> "{% include %I %}", incwith |-> "{% include %I with x %}", incwithv |-> "{% include 't1' with %I %}",
                incwithk |-> "{% include 't1' with {'%I': 1} %}", ext |-> "{% extends %I %}", imp |-> "{% import %I as %I %}", impas |-> "{% import 't1' as %I %}",
                fromi |-> "{% from %I import %I %}", fromas |-> "{% from 't1' import m as %I %}", mac |-> "{% macro %I(%I) %}{{ %I }}{% endmacro %}",
                blk |-> "{% block %I %}b{% endblock %}", pr |-> "{{ %I }}", attr |-> "{{ x.%I }}", filt |-> "{{ x|%I }}", fn |-> "{{ %I(1) }}",
                tst |-> "{% if x is %I %}a{% endif %}", app |-> "{% apply %I %}a{% endapply %}", str |-> "{{ '%I' ~ \"%I\" }}", hashk |-> "{{ {%I: 1}|length }}",
                named |-> "{{ max(%I=1) }}", ifin |-> "{% if %I in x %}a{% endif %}", tern |-> "{{ %I ? %I : %I }}",
                \* the slot inside a quoted operand
                incdq |-> "{% include \"%I\" %}", incsq |-> "{% include '%I' %}", extdq |-> "{% extends \"%I\" %}", impdq |-> "{% import \"%I\" as m %}",
                frmdq |-> "{% from \"%I\" import m %}", incdqw |-> "{% include \"%I\" with x %}", incign |-> "{% include '%I' ignore missing %}",
                strdq |-> "{{ \"%I\" }}", strsq |-> "{{ '%I'|upper }}", strcat |-> "{{ 'a' ~ \"%I\" ~ 'b' }}", hashs |-> "{{ {'%I': '%I'}|length }}",
                \* a name that is looked up in an existing library
                fromi2 |-> "{% from 't1' import %I %}{{ 1 }}", fromi3 |-> "{% from 't1' import m, %I %}", impcall |-> "{% import 't1' as L %}{{ L.%I() }}",
                selfcall |-> "{{ _self.%I() }}", blockfn |-> "{{ block('%I') }}", incsbx |-> "{% include '%I' sandboxed %}" ]
IdentCases == {[fam |-> "ident", f |-> f, id |-> id] : f \in DOMAIN IdentForms, id \in DOMAIN Idents}

\* ---- sources that are deep or wide: n-fold nesting of every bracketing construct, n distinct names ------------------
\* %I / %J: the opening / closing text repeated n times; %N: the piece repeated n times with a running number
BigForms == [ minus |-> [s |-> "{{ %I1 }}", a |-> "-", b |-> ""], nots |-> [s |-> "{{ %Ix }}", a |-> "not ", b |-> ""], parens |-> [s |-> "{{ %I1%J }}", a |-> "(", b |-> ")"],
              bracks |-> [s |-> "{{ %I1%J|length }}", a |-> "[", b |-> "]"], hashes |-> [s |-> "{{ %I1%J|length }}", a |-> "{'a':", b |-> "}"],
              ifs |-> [s |-> "%Ix%J", a |-> "{% if 1 %}", b |-> "{% endif %}"], fors |-> [s |-> "%Ix%J", a |-> "{% for i in [1] %}", b |-> "{% endfor %}"],
              applies |-> [s |-> "%Ix%J", a |-> "{% apply upper %}", b |-> "{% endapply %}"], spaces |-> [s |-> "%Ix%J", a |-> "{% spaceless %}", b |-> "{% endspaceless %}"],
              filters |-> [s |-> "{{ x%I }}", a |-> "|upper", b |-> ""], plus |-> [s |-> "{{ 1%I }}", a |-> "+1", b |-> ""], cats |-> [s |-> "{{ 'a'%I }}", a |-> "~'a'", b |-> ""],
              attrs |-> [s |-> "{{ x%I }}", a |-> ".a", b |-> ""], idx |-> [s |-> "{{ x%I }}", a |-> "[0]", b |-> ""], terns |-> [s |-> "{{ %I1 }}", a |-> "1?1:", b |-> ""],
              calls |-> [s |-> "{{ %I1%J }}", a |-> "max(1,", b |-> ")"], calls1 |-> [s |-> "{{ %I1%J }}", a |-> "max(", b |-> ")"], mcalls |-> [s |-> "{{ %I1%J }}", a |-> "m.f(", b |-> ")"],
              filtargs |-> [s |-> "{{ %I1%J }}", a |-> "a|default(", b |-> ")"], testargs |-> [s |-> "{{ %I1%J }}", a |-> "1 is divisible_by(", b |-> ")"],
              idxnest |-> [s |-> "{{ %I1%J }}", a |-> "a[", b |-> "]"], hashidx |-> [s |-> "{{ %I1%J }}", a |-> "{'a':1}[", b |-> "]"], condnest |-> [s |-> "{{ %I1%J }}", a |-> "(1?", b |-> ":1)"],
              incwith |-> [s |-> "{% include 't1' with %I1%J %}", a |-> "{'a':", b |-> "}"], ands |-> [s |-> "{{ 1%I }}", a |-> " and 1", b |-> ""], pows |-> [s |-> "{{ 1%I }}", a |-> "**1", b |-> ""],
              args |-> [s |-> "{{ max(1%I) }}", a |-> ",1", b |-> ""], elems |-> [s |-> "{{ [1%I]|length }}", a |-> ",1", b |-> ""], elifs |-> [s |-> "{% if 0 %}a%I{% endif %}", a |-> "{% elseif 0 %}b", b |-> ""],
              opens |-> [s |-> "%I", a |-> "{{", b |-> ""], opensb |-> [s |-> "%I", a |-> "{% if x %}", b |-> ""], closes |-> [s |-> "a%I", a |-> "{% endif %}", b |-> ""],
              digits |-> [s |-> "{{ 1%I }}", a |-> "7", b |-> ""], dots |-> [s |-> "{{ 1.%I }}", a |-> "7", b |-> ""], longid |-> [s |-> "{{ a%I }}", a |-> "b", b |-> ""],
              \* two neighbouring numbers at the end of the integer range, written out
              rangelim |-> [s |-> "{{ range(9223372036854775806, 9223372036854775807)|length }}%I", a |-> "", b |-> ""],
              rangeneg |-> [s |-> "{{ range(-9223372036854775807, -9223372036854775806)|length }}%I", a |-> "", b |-> ""],
              rangestep |-> [s |-> "{{ range(9223372036854775800, 9223372036854775807, 3)|length }}{{ range(1, 2, 9223372036854775807)|length }}%I", a |-> "", b |-> ""],
              numfmtlim |-> [s |-> "{{ 5|number_format(9223372036854775807) }}{{ 5.5|round(9223372036854775807) }}%I", a |-> "", b |-> ""],
              longstr |-> [s |-> "{{ 'a%I' }}", a |-> "b", b |-> ""], bslashes |-> [s |-> "{{ '%I' }}", a |-> "\\\\", b |-> ""], cmts |-> [s |-> "a%Ib", a |-> "{# c #}", b |-> ""] ]
SeqForms == [ ids |-> "{{ a%N }}", strs |-> "{{ 'a%N' }}", sets |-> "{% set a%N = %N %}", blocks |-> "{% block b%N %}x{% endblock %}", macros |-> "{% macro m%N(a) %}x{% endmacro %}",
              attrs |-> "{{ x.a%N }}", filts |-> "{{ x|f%N }}", nums |-> "{{ %N.%N }}", incs |-> "{% include 't%N' ignore missing %}", imps |-> "{% import 't1' as L%N %}" ]
BigNs == {1000, 50000, 1000000}
BigCases == {[fam |-> "big", f |-> f, n |-> n, seq |-> FALSE] : f \in DOMAIN BigForms, n \in BigNs} \cup {[fam |-> "big", f |-> f, n |-> n, seq |-> TRUE] : f \in DOMAIN SeqForms, n \in {1000, 100000}}

\* ---- corruptions of compiled-template encodings -----------------------------------------------------
ValidRecs == { [name |-> <<116>>, source |-> <<97, 123, 123, 32, 120, 32, 125, 125>>, lm |-> <<1, 0, 0, 0, 0, 0, 0, 0>>, ct |-> <<2, 0, 0, 0, 0, 0, 0, 0>>, ast |-> <<>>],
               [name |-> <<>>, source |-> <<>>, lm |-> <<0, 0, 0, 0, 0, 0, 0, 0>>, ct |-> <<0, 0, 0, 0, 0, 0, 0, 0>>, ast |-> <<9, 9>>],
               [name |-> <<110, 0>>, source |-> <<123, 37, 32, 105, 102, 32, 120, 32, 37, 125>>, lm |-> <<255, 255, 255, 255, 255, 255, 255, 255>>, ct |-> <<2, 0, 0, 0, 0, 0, 0, 0>>, ast |-> <<1>>] }
LenFieldOffsets(x) == {2, 6 + Len(x.name), 26 + Len(x.name) + Len(x.source)}       \* positions of the three len32 fields
Boundary == {<<0, 0, 0, 0>>, <<1, 0, 0, 0>>, <<255, 255, 0, 0>>, <<0, 0, 1, 0>>, <<255, 255, 255, 127>>, <<255, 255, 255, 255>>, <<0, 0, 0, 128>>}
Corruptions(x) ==
    LET b == Encode(x) IN
    {[kind |-> "truncate", bytes |-> SubSeq(b, 1, k)] : k \in 0..Len(b)}
    \cup {[kind |-> "lenfield", bytes |-> SubSeq(b, 1, p - 1) \o v \o SubSeq(b, p + 4, Len(b))] : p \in LenFieldOffsets(x), v \in Boundary}
    \cup {[kind |-> "flip", bytes |-> [i \in 1..Len(b) |-> IF i = p THEN (b[i] + d) % 256 ELSE b[i]]] : p \in 1..Len(b), d \in {1, 128, 255}}
    \cup {[kind |-> "valid", bytes |-> b]}
DecCases == UNION {{[fam |-> "dec", kind |-> co.kind, bytes |-> co.bytes] : co \in Corruptions(x)} : x \in ValidRecs}
\* on the model: the reference decoder returns ok or not-ok on every one of them
DecodeTotal == \A c \in DecCases : Decode(c.bytes).ok \in BOOLEAN

AnyExpect == [ok |-> TRUE, anyoutcome |-> TRUE, out |-> <<>>, noout |-> TRUE, err |-> "", calls |-> [id \in {} |-> 0]]
Lib == <<Macro("m", <<>>, <<Text(<<109>>)>>)>>
CaseOf(c) ==
    CASE c.fam = "tok" ->
           [prop |-> "C05", key |-> ToJson(c), tags |-> {"fam:tok", "open:" \o c.o, "close:" \o c.c}, entry |-> "main", ctx |-> ("x" :> VI(1)),
            runs |-> {[label |-> "tok", tp |-> ("main" :> TokSource(c)), xcalls |-> [id \in {} |-> 0], probe |-> TRUE]}, expect |-> AnyExpect]
      [] c.fam = "trunc" ->
           [prop |-> "C05", key |-> ToJson(c), tags |-> {"fam:trunc"}, entry |-> "main", ctx |-> ("x" :> VI(1)),
            runs |-> {[label |-> "len" \o ToString(l), tp |-> ("main" :> <<C(<<97, PadBase, 98, 32>>), W(c.frag)>>), xcalls |-> [id \in {} |-> 0], probe |-> TRUE,
                       pads |-> <<[len |-> l, style |-> "b", total |-> 0]>>] : l \in TruncLens}, expect |-> AnyExpect]
      [] c.fam = "shape" ->
           [prop |-> "C05", key |-> ToJson(c), tags |-> {"fam:shape", "sk:" \o c.sk, "sh:" \o c.sh}, entry |-> "main",
            \* (next to the value: maps of fixed shapes for the skeletons that index / merge one value with another)
            ctx |-> ("v" :> [t |-> "shape", kind |-> c.sh]) @@ ("mi" :> [t |-> "shape", kind |-> "nanifacemap"]) @@ ("mk" :> [t |-> "shape", kind |-> "structkeymap"])
                    @@ ("mis" :> [t |-> "shape", kind |-> "intstrmap"]) @@ ("mfb" :> [t |-> "shape", kind |-> "floatboolmap"]),
            \* (the second run: the engine in debug mode, which logs the values it meets)
            runs |-> {[label |-> "shape" \o (IF dbg THEN "/debug" ELSE ""), tp |-> ("main" :> Source(Skeletons[c.sk], LMin)) @@ ("t1" :> Source(<<PrintS(Var("a"))>>, LMin))
                                               @@ ("a" :> Source(Lib, LMin)) @@ ("12" :> Source(Lib, LMin)),
                       xcalls |-> [id \in {} |-> 0], probe |-> TRUE, debug |-> dbg, again |-> IF c.sk = "modnode" THEN 2 ELSE 0] : dbg \in BOOLEAN}, expect |-> AnyExpect]
      [] c.fam = "slice" ->
           [prop |-> "C05", key |-> ToJson(c), tags |-> {"fam:slice", "sh:" \o c.sh, "via:" \o c.via}, entry |-> "main",
            ctx |-> ("v" :> [t |-> "shape", kind |-> c.sh]),
            runs |-> {[label |-> "slice", tp |-> ("main" :> Source(SliceProg(c), LMin)), xcalls |-> [id \in {} |-> 0], probe |-> TRUE]}, expect |-> AnyExpect]
      [] c.fam = "gen" ->
           [prop |-> "C05", key |-> ToJson(c), tags |-> {"fam:gen", "form:" \o c.form, "n:" \o c.n, "sh:" \o c.sh}, entry |-> "main",
            ctx |-> ("v" :> [t |-> "shape", kind |-> c.sh]),
            runs |-> {[label |-> "gen", tp |-> ("main" :> Source(GenBody(c.form, c.n), LMin)) @@ ("a" :> Source(Lib, LMin)) @@ ("12" :> Source(Lib, LMin)),
                       xcalls |-> [id \in {} |-> 0], probe |-> TRUE]}, expect |-> AnyExpect]
      [] c.fam = "ident" ->
           [prop |-> "C05", key |-> ToJson(c), tags |-> {"fam:ident", "f:" \o c.f, "id:" \o c.id}, entry |-> "main", ctx |-> ("x" :> VL(<<VI(1), VI(2)>>)),
            runs |-> {[label |-> "ident", tp |-> ("main" :> <<[subst |-> IdentForms[c.f], with |-> Idents[c.id]]>>) @@ ("t1" :> Source(Lib, LMin)),
                       xcalls |-> [id \in {} |-> 0], probe |-> TRUE]}, expect |-> AnyExpect]
      [] c.fam = "big" ->
           [prop |-> "C05", key |-> ToJson(c), tags |-> {"fam:big", "f:" \o c.f, "n:" \o ToString(c.n)} \cup (IF c.seq THEN {"seq"} ELSE {}), entry |-> "main", ctx |-> ("x" :> VL(<<VI(1), VI(2)>>)),
            runs |-> {[label |-> "big", tp |-> ("main" :> <<IF c.seq THEN [subst |-> SeqForms[c.f], with |-> <<>>, seq |-> c.n]
                                                             ELSE [subst |-> BigForms[c.f].s, witha |-> BigForms[c.f].a, withb |-> BigForms[c.f].b, rep |-> c.n]>>)
                                               @@ ("t1" :> Source(Lib, LMin)),
                       xcalls |-> [id \in {} |-> 0], probe |-> TRUE]}, expect |-> AnyExpect]
      [] c.fam = "dec" ->
           [prop |-> "C05", key |-> ToJson(c), tags |-> {"fam:dec", "kind:" \o c.kind}, entry |-> "main", ctx |-> EmptyFn,
            runs |-> {[label |-> "dec", tp |-> ("main" :> <<>>), xcalls |-> [id \in {} |-> 0], probe |-> TRUE, decode |-> c.bytes]}, expect |-> AnyExpect]

Fams == {"tok", "shape", "dec"}
\* partitions (expanded in parallel by TLC's workers; also keeps every set below TLC's size limit)
Init == cs \in {[part |-> "tok", o |-> o, c |-> c, tl |-> tl] : o \in Opens, c \in Closes, tl \in Tails}
             \cup {[part |-> "shape", o |-> sk, c |-> "", tl |-> ""] : sk \in DOMAIN Skeletons}
             \cup {[part |-> "dec", o |-> "", c |-> "", tl |-> ""],
                   [part |-> "trunc", o |-> "", c |-> "", tl |-> ""], [part |-> "ident", o |-> "", c |-> "", tl |-> ""], [part |-> "big", o |-> "", c |-> "", tl |-> ""],
                   [part |-> "slice", o |-> "", c |-> "", tl |-> ""]}
             \cup {[part |-> "gen", o |-> fo, c |-> "", tl |-> ""] : fo \in FilterForms \cup FunctionForms \cup TestForms}
Next == "part" \in DOMAIN cs /\
        cs' \in (CASE cs.part = "tok" -> {c \in TokCasesOf(cs.o, cs.c, cs.tl) : TokRelevant(c)}
                   [] cs.part = "shape" -> ShapeCasesOf(cs.o)
                   [] cs.part = "gen" -> GenCasesOf(cs.o)
                   [] cs.part = "ident" -> IdentCases
                   [] cs.part = "big" -> BigCases
                   [] cs.part = "slice" -> SliceCases
                   [] cs.part = "trunc" -> TruncCases
                   [] cs.part = "dec" -> DecCases)
Spec == Init /\ [][Next]_cs
IsCase == "fam" \in DOMAIN cs
Emit == IsCase => PrintT(ToJson(CaseOf(cs)))
ASSUME DecodeTotal
=============================================================================
