------------------------------- MODULE MC_C05 -------------------------------
(***************************************************************************)
(* C05: no template source or context value makes the engine panic or      *)
(* hang.  The contract of the lifecycle model: Parse, Render and Decode     *)
(* return Ok or Err -- never "crash" -- and afterwards a fixed probe render  *)
(* on the same engine gives its pristine result.  The specification         *)
(* supplies the input spaces; the verdict is an observation of the real     *)
(* code (no panic, no hang, no process death, engine still usable):         *)
(*   tok    every sequence of up to SeqLen token classes after {{ / {% ,     *)
(*          closed, unclosed or wrongly closed                               *)
(*   shape  every context value shape at the variable of every skeleton      *)
(*   dec    structured corruptions of valid compiled-template encodings:     *)
(*          truncation at every offset, boundary values in every length      *)
(*          field, single-byte changes                                       *)
(***************************************************************************)
EXTENDS TwigSyntax, CompiledFmt, Json

CONSTANTS SeqLen, SeqLenSmall
VARIABLE cs

\* ---- token classes ----------------------------------------------------------------------------
Delims == {"{{", "{%", "{%-", "}}", "-}}", "%}", "-%}", "{#", "#}", "{{-"}
Keywords == {"if", "elseif", "else", "endif", "for", "in", "endfor", "set", "block", "endblock", "extends", "include", "with",
             "only", "ignore", "missing", "macro", "endmacro", "import", "as", "from", "apply", "endapply", "verbatim",
             "endverbatim", "do", "spaceless", "endspaceless", "sandboxed", "not", "and", "or", "is", "defined", "parent", "_self", "loop"}
Atoms == {"x", "1", "'a'", "\"", "'", "1.5", "-1"}
Punct == {"(", ")", "[", "]", "{", "}", ",", ".", ":", "|", "?", "=", "+", "-", "*", "/", "%", "==", "!=", "<", ">=", "~", "..", "??", "\\"}
\* the small alphabet (every pair / triple), the full one (every single / pair)
SmallTok == {"if", "else", "endif", "for", "in", "endfor", "set", "block", "include", "macro", "x", "1", "'a'", "(", ")", "[", "{", ",", ".", "|", "?", ":", "=", "+", "-", "not", "is", "}}", "%}", "{{", "{%"}
AllTok == Delims \cup Keywords \cup Atoms \cup Punct
Seqs(A, n) == UNION {[1..k -> A] : k \in 0..n}
Opens == {"{{", "{%", "{%-", "{#"}
Closes == {"match", "none", "wrong"}
CloseOf(o, c) == CASE c = "none" -> <<>>
                   [] c = "match" -> <<W(IF o = "{{" THEN "}}" ELSE IF o = "{#" THEN "#}" ELSE "%}")>>
                   [] c = "wrong" -> <<W(IF o = "{{" THEN "%}" ELSE "}}")>>
Tails == {"none", "endif", "endfor"}
TokCasesOf(o, c, tl) == {[fam |-> "tok", o |-> o, ts |-> ts, c |-> c, tail |-> tl] : ts \in Seqs(AllTok, SeqLen) \cup Seqs(SmallTok, SeqLenSmall)}
TokSource(c) == <<W("a ")>> \o <<W(c.o), W(" ")>> \o Flatten([i \in 1..Len(c.ts) |-> <<W(c.ts[i]), W(" ")>>]) \o CloseOf(c.o, c.c) \o <<W(" b")>>
                \o (CASE c.tail = "endif" -> <<W("{% endif %}")>> [] c.tail = "endfor" -> <<W("{% endfor %}c")>> [] OTHER -> <<>>)
TokRelevant(c) == c.tail = "none" \/ (Len(c.ts) >= 1 /\ c.ts[1] \in {"if", "for", "elseif", "else", "block", "macro"} /\ c.c = "match")

\* ---- tags cut off at the end of a template, below and above the large-template threshold -----------
Frags == {"{{ x }", "{{ x ", "{{ x", "{{", "{", "{% if x %", "{% if x ", "{% if", "{%", "{# c #", "{# c", "{#", "{{ x }}", "{% if x %}",
          "{{ 'a", "{{ x|", "{{ x.", "{{ (x", "{{ [x", "{% for i in", "{% set", "{% include", "{% endif %", "}}", "%}", "{{ x -}", "{{- x -", "{%- if x -%"}
TruncCases == {[fam |-> "trunc", frag |-> f] : f \in Frags}
TruncLens == {0, 4000, 4085, 4090, 4096, 4100, 20000}
\* ---- context value shapes x skeletons -------------------------------------------------------------
Shapes == {"nil", "true", "int0", "int5", "intneg", "float", "strempty", "str", "strnum", "listempty", "listmixed", "strs", "ints", "arr3",
           "mapany", "mss", "mis", "msl", "mapempty", "struct", "ptrstruct", "nilptrstruct", "embedded", "methods", "ptrptr", "nilslice",
           "nilmap", "func", "chan", "time", "bytes", "err", "iface", "uint8", "int64", "float32", "nested", "mixedrecv",
           "biglist", "bigints", "maxint", "minint", "strregex", "strbracket", "strbackslash", "struni", "niltime", "nilstringer", "nilerr",
           "mapiface", "uintmap", "listoflists", "float0", "floatbig", "nan"}
V == Var("v")
F0(f) == Filt(f, V, <<>>)
Skeletons ==
  [ print |-> <<PrintS(V)>>, attr |-> <<PrintS(Attr(V, "a"))>>, attr2 |-> <<PrintS(Attr(Attr(V, "a"), "b"))>>, attrX |-> <<PrintS(Attr(V, "X"))>>,
    item |-> <<PrintS(Item(V, LS(<<97>>)))>>, item0 |-> <<PrintS(Item(V, LI(0)))>>, item9 |-> <<PrintS(Item(V, LI(9)))>>,
    itemundef |-> <<PrintS(Item(V, Var("undef")))>>, itemself |-> <<PrintS(Item(V, V))>>, itemneg |-> <<PrintS(Item(V, Un("-", LI(1))))>>,
    forv |-> <<For1("i", V, <<PrintS(Var("i"))>>)>>, forkv |-> <<For("i", "k", V, <<PrintS(Var("k")), PrintS(Var("i"))>>, <<Text(<<69>>)>>, TRUE)>>,
    ifv |-> <<IfElse(V, <<Text(<<84>>)>>, <<Text(<<70>>)>>)>>, notv |-> <<PrintS(Cond(Un("not", V), LI(1), LI(2)))>>,
    length |-> <<PrintS(F0("length"))>>, first |-> <<PrintS(F0("first"))>>, last |-> <<PrintS(F0("last"))>>, keys |-> <<PrintS(F0("keys"))>>,
    join |-> <<PrintS(Filt("join", V, <<LS(<<44>>)>>))>>, merge |-> <<PrintS(Filt("merge", V, <<Arr(<<LI(1)>>)>>))>>,
    mergemap |-> <<PrintS(Filt("merge", V, <<Hash(<<LS(<<97>>)>>, <<LI(1)>>)>>))>>, mergeinto |-> <<PrintS(Filt("merge", Arr(<<LI(1)>>), <<V>>))>>,
    sort |-> <<PrintS(F0("sort"))>>, reverse |-> <<PrintS(F0("reverse"))>>, slice |-> <<PrintS(Filt("slice", V, <<LI(1)>>))>>,
    slice2 |-> <<PrintS(Filt("slice", V, <<Un("-", LI(2)), LI(5)>>))>>, sliceof |-> <<PrintS(Filt("slice", LS(<<97, 98>>), <<V>>))>>,
    default |-> <<PrintS(Filt("default", V, <<LS(<<100>>)>>))>>, upper |-> <<PrintS(F0("upper"))>>, trim |-> <<PrintS(F0("trim"))>>,
    capitalize |-> <<PrintS(F0("capitalize"))>>, escape |-> <<PrintS(F0("escape"))>>, abs |-> <<PrintS(F0("abs"))>>, round |-> <<PrintS(F0("round"))>>,
    numfmt |-> <<PrintS(F0("number_format"))>>, date |-> <<PrintS(Filt("date", V, <<LS(<<89>>)>>))>>, json |-> <<PrintS(F0("json_encode"))>>,
    split |-> <<PrintS(Filt("split", V, <<LS(<<44>>)>>))>>, replace |-> <<PrintS(Filt("replace", V, <<LS(<<97>>), LS(<<98>>)>>))>>,
    plus |-> <<PrintS(Bin("+", V, LI(1)))>>, minus |-> <<PrintS(Bin("-", LI(1), V))>>, times |-> <<PrintS(Bin("*", V, V))>>,
    div |-> <<PrintS(Bin("/", LI(1), V))>>, mod |-> <<PrintS(Bin("%", LI(7), V))>>, pow |-> <<PrintS(Bin("^", V, LI(2)))>>,
    concat |-> <<PrintS(Bin("~", V, LS(<<120>>)))>>, eq |-> <<PrintS(Cond(Bin("==", V, V), LI(1), LI(2)))>>, lt |-> <<PrintS(Cond(Bin("<", V, LI(1)), LI(1), LI(2)))>>,
    invin |-> <<PrintS(Cond(Bin("in", LI(1), V), LI(1), LI(2)))>>, vin |-> <<PrintS(Cond(Bin("in", V, Arr(<<LI(1)>>)), LI(1), LI(2)))>>,
    starts |-> <<PrintS(Cond(Bin("starts with", V, LS(<<97>>)), LI(1), LI(2)))>>, matches |-> <<PrintS(Cond(Bin("matches", V, LS(<<47, 97, 47>>)), LI(1), LI(2)))>>,
    matchespat |-> <<PrintS(Cond(Bin("matches", LS(<<97>>), V), LI(1), LI(2)))>>,
    isempty |-> <<PrintS(Cond(Test(V, "empty", <<>>, FALSE), LI(1), LI(2)))>>, isiter |-> <<PrintS(Cond(Test(V, "iterable", <<>>, FALSE), LI(1), LI(2)))>>,
    iseven |-> <<PrintS(Cond(Test(V, "even", <<>>, FALSE), LI(1), LI(2)))>>, isdiv |-> <<PrintS(Cond(Test(LI(4), "divisible by", <<V>>, FALSE), LI(1), LI(2)))>>,
    include |-> <<Inc(V)>>, extends |-> <<Extends(V), Block("b", <<>>)>>, importv |-> <<Import(V, "L"), PrintS(MCall("L", "m", <<>>))>>,
    incwith |-> <<Include(LS(NT.t1), V, TRUE, FALSE, FALSE, FALSE)>>,
    range |-> <<For1("i", Call("range", <<LI(1), V>>), <<>>)>>, maxf |-> <<PrintS(Call("max", <<V>>))>>, minf |-> <<PrintS(Call("min", <<V, LI(1)>>))>>,
    cycle |-> <<PrintS(Call("cycle", <<V, LI(1)>>))>>, macroarg |-> <<Macro("mm", <<Param("a")>>, <<PrintS(Attr(Var("a"), "b"))>>), PrintS(Call("mm", <<V>>))>>,
    setv |-> <<Set("z", V), PrintS(Item(Var("z"), LI(0)))>>, ternary |-> <<PrintS(Cond(V, V, V))>>, arr |-> <<PrintS(Filt("join", Arr(<<V, V>>), <<>>))>>,
    attrName |-> <<PrintS(Attr(V, "Name"))>>, attrPName |-> <<PrintS(Attr(V, "PName"))>>,
    attrseq |-> <<PrintS(Attr(V, "nosuch")), PrintS(Attr(V, "X")), PrintS(Attr(V, "Name")), PrintS(Attr(V, "nosuch")), PrintS(Attr(V, "Y"))>>,
    hash |-> <<Set("h", Hash(<<LS(<<107>>)>>, <<V>>)), PrintS(Attr(Attr(Var("h"), "k"), "a"))>>, callv |-> <<PrintS(MCall("v", "a", <<>>))>> ]
\* a loop over range(1, 2^40) is a finite but enormous computation the template itself asks for: not a hang of the engine
HugeInts == {"int64", "maxint", "minint", "floatbig"}
ShapeCases == {[fam |-> "shape", sk |-> sk, sh |-> sh] : sk \in DOMAIN Skeletons, sh \in Shapes} \ {[fam |-> "shape", sk |-> "range", sh |-> sh] : sh \in HugeInts}

\* ---- every built-in filter, function and test with the value as subject and in every argument position -------
FilterNames == {"default", "escape", "e", "upper", "lower", "trim", "raw", "length", "count", "join", "split", "date", "url_encode", "capitalize",
                "title", "first", "last", "slice", "reverse", "sort", "keys", "merge", "replace", "striptags", "number_format", "abs", "round",
                "nl2br", "format", "json_encode", "spaceless"}
FunctionNames == {"range", "date", "random", "max", "min", "constant", "cycle", "include", "json_encode", "length", "merge"}   \* (dump writes to the process output)
TestNames == {"defined", "empty", "null", "none", "even", "odd", "iterable", "same_as", "divisible_by", "constant", "equalto", "sameas",
              "starts_with", "ends_with", "matches", "in"}
sAB == LS(<<97, 44, 98>>)          \* 'a,b'
L123 == Arr(<<LI(1), LI(2), LI(3)>>)
FilterForms == {"f0", "f1", "f1s", "f1l", "f2", "f2s", "f2l", "f3s"}
FunctionForms == {"g0", "g1", "g2", "g2a", "g2n", "g3", "g3l"}
TestForms == {"t0", "t1", "t1s", "t1l"}
GenBody(form, n) ==
    CASE form = "f0"  -> <<PrintS(Filt(n, V, <<>>))>>
      [] form = "f1"  -> <<PrintS(Filt(n, V, <<V>>))>>
      [] form = "f1s" -> <<PrintS(Filt(n, sAB, <<V>>))>>
      [] form = "f1l" -> <<PrintS(Filt(n, L123, <<V>>))>>
      [] form = "f2"  -> <<PrintS(Filt(n, V, <<V, V>>))>>
      [] form = "f2s" -> <<PrintS(Filt(n, sAB, <<LI(1), V>>))>>
      [] form = "f2l" -> <<PrintS(Filt(n, L123, <<LI(1), V>>))>>
      [] form = "f3s" -> <<PrintS(Filt(n, sAB, <<LS(<<97>>), V, V>>))>>
      [] form = "g0"  -> <<PrintS(Call(n, <<>>))>>
      [] form = "g1"  -> <<PrintS(Call(n, <<V>>))>>
      [] form = "g2"  -> <<PrintS(Call(n, <<V, V>>))>>
      [] form = "g2a" -> <<PrintS(Call(n, <<LI(1), V>>))>>
      [] form = "g2n" -> <<PrintS(Call(n, <<Un("-", V), V>>))>>
      [] form = "g3"  -> <<PrintS(Call(n, <<LI(1), LI(5), V>>))>>
      [] form = "g3l" -> <<PrintS(Call(n, <<L123, V>>))>>
      [] form = "t0"  -> <<PrintS(Cond(Test(V, n, <<>>, FALSE), LI(1), LI(2)))>>
      [] form = "t1"  -> <<PrintS(Cond(Test(V, n, <<V>>, FALSE), LI(1), LI(2)))>>
      [] form = "t1s" -> <<PrintS(Cond(Test(sAB, n, <<V>>, FALSE), LI(1), LI(2)))>>
      [] form = "t1l" -> <<PrintS(Cond(Test(L123, n, <<V>>, TRUE), LI(1), LI(2)))>>
\* range over a span of 2^63 values is the template's own request (see above); so is a cycle / merge of such a range
HugeLoop(c) == c.n = "range" /\ c.sh \in HugeInts
GenCases == {c \in ({[fam |-> "gen", form |-> fo, n |-> n, sh |-> sh] : fo \in FilterForms, n \in FilterNames, sh \in Shapes}
                    \cup {[fam |-> "gen", form |-> fo, n |-> n, sh |-> sh] : fo \in FunctionForms, n \in FunctionNames, sh \in Shapes}
                    \cup {[fam |-> "gen", form |-> fo, n |-> n, sh |-> sh] : fo \in TestForms, n \in TestNames, sh \in Shapes}) : ~HugeLoop(c)}

\* ---- identifiers whose lower case has another encoded length, keywords and odd names in every name position ----
Idents == [ stroke |-> <<570, 570, 570, 570>>, doti |-> <<304, 304, 304>>, kelvin |-> <<8490, 8490>>, sharp |-> <<7838, 97>>, acute |-> <<233, 233>>,
            kwin |-> <<105, 110>>, kwif |-> <<105, 102>>, kwwith |-> <<119, 105, 116, 104>>, kwas |-> <<97, 115>>, digit |-> <<49, 97>>, dash |-> <<97, 45, 98>>,
            long |-> [i \in 1..300 |-> 97 + (i % 26)], empty |-> <<>>, upper |-> <<73, 78>>, cjk |-> <<20013, 25991>>, astral |-> <<128512, 120>>,
            \* (as names and inside string literals) backslashes, quotes, line breaks, delimiters
            bs |-> <<92>>, absl |-> <<97, 92>>, bsq |-> <<92, 34>>, bsbs |-> <<92, 92>>, bsn |-> <<92, 110, 92>>, nl |-> <<97, 10, 98>>, open |-> <<123, 123>>,
            close |-> <<37, 125>>, sq |-> <<39>>, dq |-> <<34>>, nul |-> <<97, 0, 98>>, nosuch |-> <<110, 111, 115, 117, 99, 104>>, known |-> <<116, 49>> ]
\* %I marks the identifier slot
IdentForms == [ forv |-> "{% for %I in x %}{{ %I }}{% endfor %}", forkv |-> "{% for k, %I in x %}{{ %I }}{% endfor %}", forseq |-> "{% for i in %I %}a{% endfor %}",
                setv |-> "{% set %I = 1 %}{{ %I }}", inc |-> "{% include %I %}", incwith |-> "{% include %I with x %}", incwithv |-> "{% include 't1' with %I %}",
                incwithk |-> "{% include 't1' with {'%I': 1} %}", ext |-> "{% extends %I %}", imp |-> "{% import %I as %I %}", impas |-> "{% import 't1' as %I %}",
                fromi |-> "{% from %I import %I %}", fromas |-> "{% from 't1' import m as %I %}", mac |-> "{% macro %I(%I) %}{{ %I }}{% endmacro %}",
                blk |-> "{% block %I %}b{% endblock %}", pr |-> "{{ %I }}", attr |-> "{{ x.%I }}", filt |-> "{{ x|%I }}", fn |-> "{{ %I(1) }}",
                tst |-> "{% if x is %I %}a{% endif %}", app |-> "{% apply %I %}a{% endapply %}", str |-> "{{ '%I' ~ \"%I\" }}", hashk |-> "{{ {%I: 1}|length }}",
                named |-> "{{ max(%I=1) }}", ifin |-> "{% if %I in x %}a{% endif %}", tern |-> "{{ %I ? %I : %I }}",
                \* the slot inside a quoted operand
                incdq |-> "{% include \"%I\" %}", incsq |-> "{% include '%I' %}", extdq |-> "{% extends \"%I\" %}", impdq |-> "{% import \"%I\" as m %}",
                frmdq |-> "{% from \"%I\" import m %}", incdqw |-> "{% include \"%I\" with x %}", incign |-> "{% include '%I' ignore missing %}",
                strdq |-> "{{ \"%I\" }}", strsq |-> "{{ '%I'|upper }}", strcat |-> "{{ 'a' ~ \"%I\" ~ 'b' }}", hashs |-> "{{ {'%I': '%I'}|length }}",
                \* a name that is looked up in an existing library
                fromi2 |-> "{% from 't1' import %I %}{{ 1 }}", fromi3 |-> "{% from 't1' import m, %I %}", impcall |-> "{% import 't1' as L %}{{ L.%I() }}",
                selfcall |-> "{{ _self.%I() }}", blockfn |-> "{{ block('%I') }}", incsbx |-> "{% include '%I' sandboxed %}" ]
IdentCases == {[fam |-> "ident", f |-> f, id |-> id] : f \in DOMAIN IdentForms, id \in DOMAIN Idents}

\* ---- corruptions of compiled-template encodings -----------------------------------------------------
ValidRecs == { [name |-> <<116>>, source |-> <<97, 123, 123, 32, 120, 32, 125, 125>>, lm |-> <<1, 0, 0, 0, 0, 0, 0, 0>>, ct |-> <<2, 0, 0, 0, 0, 0, 0, 0>>, ast |-> <<>>],
               [name |-> <<>>, source |-> <<>>, lm |-> <<0, 0, 0, 0, 0, 0, 0, 0>>, ct |-> <<0, 0, 0, 0, 0, 0, 0, 0>>, ast |-> <<9, 9>>],
               [name |-> <<110, 0>>, source |-> <<123, 37, 32, 105, 102, 32, 120, 32, 37, 125>>, lm |-> <<255, 255, 255, 255, 255, 255, 255, 255>>, ct |-> <<2, 0, 0, 0, 0, 0, 0, 0>>, ast |-> <<1>>] }
LenFieldOffsets(x) == {2, 6 + Len(x.name), 26 + Len(x.name) + Len(x.source)}       \* positions of the three len32 fields
Boundary == {<<0, 0, 0, 0>>, <<1, 0, 0, 0>>, <<255, 255, 0, 0>>, <<0, 0, 1, 0>>, <<255, 255, 255, 127>>, <<255, 255, 255, 255>>, <<0, 0, 0, 128>>}
Corruptions(x) ==
    LET b == Encode(x) IN
    {[kind |-> "truncate", bytes |-> SubSeq(b, 1, k)] : k \in 0..Len(b)}
    \cup {[kind |-> "lenfield", bytes |-> SubSeq(b, 1, p - 1) \o v \o SubSeq(b, p + 4, Len(b))] : p \in LenFieldOffsets(x), v \in Boundary}
    \cup {[kind |-> "flip", bytes |-> [i \in 1..Len(b) |-> IF i = p THEN (b[i] + d) % 256 ELSE b[i]]] : p \in 1..Len(b), d \in {1, 128, 255}}
    \cup {[kind |-> "valid", bytes |-> b]}
DecCases == UNION {{[fam |-> "dec", kind |-> co.kind, bytes |-> co.bytes] : co \in Corruptions(x)} : x \in ValidRecs}
\* on the model: the reference decoder returns ok or not-ok on every one of them
DecodeTotal == \A c \in DecCases : Decode(c.bytes).ok \in BOOLEAN

AnyExpect == [ok |-> TRUE, anyoutcome |-> TRUE, out |-> <<>>, noout |-> TRUE, err |-> "", calls |-> [id \in {} |-> 0]]
Lib == <<Macro("m", <<>>, <<Text(<<109>>)>>)>>
CaseOf(c) ==
    CASE c.fam = "tok" ->
           [prop |-> "C05", key |-> ToJson(c), tags |-> {"fam:tok", "open:" \o c.o, "close:" \o c.c}, entry |-> "main", ctx |-> ("x" :> VI(1)),
            runs |-> {[label |-> "tok", tp |-> ("main" :> TokSource(c)), xcalls |-> [id \in {} |-> 0], probe |-> TRUE]}, expect |-> AnyExpect]
      [] c.fam = "trunc" ->
           [prop |-> "C05", key |-> ToJson(c), tags |-> {"fam:trunc"}, entry |-> "main", ctx |-> ("x" :> VI(1)),
            runs |-> {[label |-> "len" \o ToString(l), tp |-> ("main" :> <<C(<<97, PadBase, 98, 32>>), W(c.frag)>>), xcalls |-> [id \in {} |-> 0], probe |-> TRUE,
                       pads |-> <<[len |-> l, style |-> "b", total |-> 0]>>] : l \in TruncLens}, expect |-> AnyExpect]
      [] c.fam = "shape" ->
           [prop |-> "C05", key |-> ToJson(c), tags |-> {"fam:shape", "sk:" \o c.sk, "sh:" \o c.sh}, entry |-> "main",
            ctx |-> ("v" :> [t |-> "shape", kind |-> c.sh]),
            runs |-> {[label |-> "shape", tp |-> ("main" :> Source(Skeletons[c.sk], LMin)) @@ ("t1" :> Source(<<PrintS(Var("a"))>>, LMin))
                                               @@ ("a" :> Source(Lib, LMin)) @@ ("12" :> Source(Lib, LMin)),
                       xcalls |-> [id \in {} |-> 0], probe |-> TRUE]}, expect |-> AnyExpect]
      [] c.fam = "gen" ->
           [prop |-> "C05", key |-> ToJson(c), tags |-> {"fam:gen", "form:" \o c.form, "n:" \o c.n, "sh:" \o c.sh}, entry |-> "main",
            ctx |-> ("v" :> [t |-> "shape", kind |-> c.sh]),
            runs |-> {[label |-> "gen", tp |-> ("main" :> Source(GenBody(c.form, c.n), LMin)) @@ ("a" :> Source(Lib, LMin)) @@ ("12" :> Source(Lib, LMin)),
                       xcalls |-> [id \in {} |-> 0], probe |-> TRUE]}, expect |-> AnyExpect]
      [] c.fam = "ident" ->
           [prop |-> "C05", key |-> ToJson(c), tags |-> {"fam:ident", "f:" \o c.f, "id:" \o c.id}, entry |-> "main", ctx |-> ("x" :> VL(<<VI(1), VI(2)>>)),
            runs |-> {[label |-> "ident", tp |-> ("main" :> <<[subst |-> IdentForms[c.f], with |-> Idents[c.id]]>>) @@ ("t1" :> Source(Lib, LMin)),
                       xcalls |-> [id \in {} |-> 0], probe |-> TRUE]}, expect |-> AnyExpect]
      [] c.fam = "dec" ->
           [prop |-> "C05", key |-> ToJson(c), tags |-> {"fam:dec", "kind:" \o c.kind}, entry |-> "main", ctx |-> EmptyFn,
            runs |-> {[label |-> "dec", tp |-> ("main" :> <<>>), xcalls |-> [id \in {} |-> 0], probe |-> TRUE, decode |-> c.bytes]}, expect |-> AnyExpect]

Fams == {"tok", "shape", "dec"}
\* partitions (expanded in parallel by TLC's workers; also keeps every set below TLC's size limit)
Init == cs \in {[part |-> "tok", o |-> o, c |-> c, tl |-> tl] : o \in Opens, c \in Closes, tl \in Tails}
             \cup {[part |-> "shape", o |-> "", c |-> "", tl |-> ""], [part |-> "dec", o |-> "", c |-> "", tl |-> ""],
                   [part |-> "trunc", o |-> "", c |-> "", tl |-> ""], [part |-> "ident", o |-> "", c |-> "", tl |-> ""]}
             \cup {[part |-> "gen", o |-> fo, c |-> "", tl |-> ""] : fo \in FilterForms \cup FunctionForms \cup TestForms}
Next == "part" \in DOMAIN cs /\
        cs' \in (CASE cs.part = "tok" -> {c \in TokCasesOf(cs.o, cs.c, cs.tl) : TokRelevant(c)}
                   [] cs.part = "shape" -> ShapeCases
                   [] cs.part = "gen" -> {c \in GenCases : c.form = cs.o}
                   [] cs.part = "ident" -> IdentCases
                   [] cs.part = "trunc" -> TruncCases
                   [] cs.part = "dec" -> DecCases)
Spec == Init /\ [][Next]_cs
IsCase == "fam" \in DOMAIN cs
Emit == IsCase => PrintT(ToJson(CaseOf(cs)))
ASSUME DecodeTotal
=============================================================================
