SPECIFICATION Spec
CONSTANTS
  MaxOps = 2
  PosOps = 1
INVARIANTS
  ModelOK
  Emit
CHECK_DEADLOCK FALSE
